"""C07 — wallet-created transactions conserve value and pay exactly what was requested.

Request lines (impl adapter harness/impl/c07_impl.py; the model driver gets the same line with the network
name replaced by its index in Gen/GenNetworks.v:all_networks and without the <shuffle> token):
  create|send <rep> <net> <wk> <view> <outs> <inputs> <fee> <minconf> <maxutxos> <k> <shuffle> <o1> [<o2>]
  sweep <rep> <net> <wk> <view> <single> <targets> <fee> <fpk|N> <minconf> <maxutxos> <o1> <o2>
  select <net> <wk> <view> <amount> <variance|N> <minconf> <maxutxos|N>
  calcfee <net> <vsize> <fpk>
  bump <rep> <net> <wk> <view> <outs> <inputs> <fee> <k> <farg> <earg> <o1>
  hist <net> <wk> <pub> <blockcount> <op> <op> ...          a HISTORY of operations on ONE wallet (model: Model/TxCreateHistory.v)
      c~outs~inputs~fee~minc~maxu~k~keys~acct~lt~rbf~shuf~o1                     transaction_create
      s~outs~inputs~fee~minc~maxu~k~keys~acct~lt~rbf~shuf~o1~o2~bc~pk~via        send (via s) / send_to (via t)
      w~single~targets~fee~fpk~minc~maxu~keys~acct~lt~rbf~o1~o2~bc~pk            sweep
      u~via~acct~rescan~listing      utxos_update through the provider (via p) or the utxos= argument (via x)
      a~id:value:conf:key            utxo_add            r   re-open the wallet
      d~pos~via                      transaction_delete (via w) / WalletTransaction.delete (via o) of the transaction that
                                     operation number pos of this history broadcast
    outs of c / s: scripthex:amount:change[:form]   form = how + hex(utf8 text): the amount is handed over as value string
      (s) / Value object (v) in the tuple, as value string / Value / int inside an Output object (S / V / I), as float (f);
      amount = the exact number of smallest units the text denotes (the model gets it; the oracle recomputes it from the text)
      b~fee~extra~bc                 WalletTransaction.bumpfee on the transaction returned by the last s / w
    inputs = N | - | id:shape:key:claim,...  shape 2 (txid,n) 3 (+key_id) 4 (+value) a (+address) o (Input object);
    key = N | X (a key id that does not exist) | index; keys = - | i<index> | l<index>,...; acct = N | 0 | 1;
    listing = id:value:conf:key;...   ids >= 1000 are outputs of the wallet's own broadcast transactions
tokens: wk = L|S|P,multisig,nkeys,nreq,single; view = id:value:conf:spent;…; outs = scripthex:amount:change;…;
inputs = N | - | id,id…; fee = none|named|i<int>; oracle = fpk,fpk2,r1,r2,w1/w2/…
"""
import json, math, os, re
from core import Case, RUN, COQ, load_known
from props import c07_hist as H

PROP = 'C07'
COQ_FILES = ['Extract/C07.v', 'Proofs/TxCreateHistory.v', 'Properties/C07.v']
DRIVER = 'c07'
IMPL = 'harness/impl/c07_impl.py'
ALLOWED_AXIOMS = []
IMPL_TIMEOUT = 6000
ASSUMPTIONS = [
    'theorems are about coq/Model/{CoinSelect,TxCreate,BumpFee}.v; lib_* mirrors wallets.py/transactions.py of the '
    'working tree WITH fixes/C07-1..3 applied (tx_create false / tx_bumpfee false keep the unrepaired order of checks for '
    'the recorded witnesses); tie to /repo: network limits from Gen/GenNetworks.v + differential correspondence against '
    'real sqlite wallets on every run',
    'wallet view = the wallet\'s output rows in database insertion order; that sqlite returns ties of ORDER BY '
    'confirmations in this order (and, for an input_key_id list of two or more keys, grouped by key: Model/TxCreateHistory.v '
    'key_order) is validated by the correspondence only (SQL leaves it open)',
    'binary64 expressions (fee = int(size/1000.0*fee_per_kb), rate, dirichlet change split, 10 % re-creation test) are '
    'modelled exactly on rationals with round-to-nearest-even to 53 bits; exponent range (overflow/subnormal), '
    'numpy int64 wrap-around (amounts >= 2^63) and vsize = 0 are not modelled',
    'environment stub random.shuffle (adapter): positions of inputs/outputs are shuffled by the real generator, outputs to '
    'change keys keep their key order among themselves, so the own output rows of a broadcast transaction are stored in '
    'change-key order (the model inserts them in that order; with the free order a later selection cutting through rows of '
    'equal confirmations differed: VERIF_SEED=2 history, present before this round)',
    'oracle inputs of the model (quantified universally in the theorems): Service.estimatefee answers, '
    'random.randint draws, dirichlet weights; the constant 1.03**5 / 0.03**5 of bumpfee is passed as its binary64 value',
    'bump cases: the state of the transaction before bumpfee (inputs, outputs, fee, signed vsize) is reported by the '
    'real code and passed to the model; signature sizes are not modelled',
    'modelled, not verified: the random shuffle of inputs/outputs (compared as multisets), address/script encoding, '
    'signing, key derivation for change keys (change outputs are c<i> = i-th '
    'change key), uncompressed keys, wallets mixing witness types; value_to_satoshi (amounts given as value strings, Value '
    'objects, whole floats, inside tuples or Output objects) is not modelled as float code: the model is handed the EXACT '
    'number of smallest units the text denotes (decimal arithmetic of the harness), so correspondence and oracle both require '
    'exact normalisation; denominator symbols with a recorded C17 float class are used only below 10^10 units and a '
    'mismatch there is excused as that C17 finding (class decision imported from harness/props/c17.py)',
    'domain: number_of_change_outputs >= 0 (negative values give Err EDomain in the model)',
    'histories (request kind hist, coq/Model/TxCreateHistory.v): the state is the database content (output rows in insertion '
    'order with key / account / transaction-row attributes, inputs of stored wallet transactions); the provider listing of '
    'every utxos_update, the utxo_add arguments and the pre-bump transaction state (inputs, outputs in their actual order, fee, '
    'signed vsize, whether the re-signed transaction verifies) are arguments of the operations and quantified universally in '
    'the theorems; ids >= 1000 name the outputs of the wallet\'s own broadcast transactions (block reserved per broadcast), a '
    'listing entry for one that does not exist is ignored on both sides',
    'histories, environment: bitcoinlib.wallets.Service is a stub: sendrawtransaction accepts and answers with the '
    'transaction id computed by the adapter itself, getutxos answers the whole listing of the round at the first question '
    '(so the insertion order is the listing order), blockcount is the number named in the request; a transaction is pushed '
    'iff broadcast was requested and all private keys were at hand (wallet keys or priv_keys)',
    'histories, transaction_delete / WalletTransaction.delete (op d): names an earlier operation of the history; the model '
    'identifies the stored transaction by the serial reserved at its broadcast; two or more stored transactions may refer to '
    'the same output (explicit input lists); storing a transaction without broadcasting it (WalletTransaction.store, '
    'transaction_import) is not modelled',
    'histories, domain: input_key_id names keys of the requested account; recipients are never keys of the wallet; an '
    'unknown outpoint is named with the same claimed value wherever it occurs; multisig wallets: no account 1, fee bumps and '
    'unknown-outpoint inputs only while the corresponding known classes are recorded',
]
RULE = ('real wallets (sqlite copy per case) x random UTXO views x requests; streams: histories on one wallet (broadcast -> '
        'utxos_update/utxo_add/reopen/bumpfee -> further creations; explicit inputs in every accepted shape with disagreeing '
        'key/value; send/send_to/sweep with every argument non-default on UTXO sets with a decoy; recipient amounts as int / '
        'whole float / value string with every common denominator / Value object, in tuples and Output objects, near the '
        'rounding boundaries of the binary quotient by 1e-8; conflicting stored transactions spending the same output, '
        'deleted in both orders with listings / re-opening / fee bumps in between, then creations), calculate_fee '
        'boundary/random, select_inputs, transaction_create, send, sweep, bumpfee; a case is non-trivial when the '
        'implementation returns a transaction; distinct by request')


# ---------------------------------------------------------------- network table (order of all_networks)
def _networks():
    src = open(os.path.join(COQ, 'Gen', 'GenNetworks.v')).read()
    m = re.search(r'Definition all_networks : list network := \[([^\]]*)\]', src)
    names = [x.strip()[3:] for x in m.group(1).split(';')]
    lim = {}
    for blk in re.finditer(r'Definition nw_(\w+) : network := (.*?)(?=\nDefinition )', src, flags=re.S):
        g = lambda k: int(re.search(r'nw_%s := (-?\d+)' % k, blk.group(2)).group(1))
        lim[blk.group(1)] = (g('dust_amount'), g('fee_min'), g('fee_max'))
    return names, lim


NETS, LIMITS = _networks()
MULT = (1.03 ** 5).as_integer_ratio()
MULT2 = (0.03 ** 5).as_integer_ratio()

KINDS = [('bitcoinlib_test', 'S,0,1,1,0'), ('bitcoinlib_test', 'L,0,1,1,0'), ('bitcoinlib_test', 'P,0,1,1,0'),
         ('bitcoinlib_test', 'S,0,1,1,1'), ('bitcoinlib_test', 'L,0,1,1,1'),
         ('bitcoinlib_test', 'S,1,3,2,0'), ('bitcoinlib_test', 'L,1,3,2,0'), ('bitcoinlib_test', 'P,1,3,2,0'),
         ('bitcoin', 'S,0,1,1,0'), ('bitcoin', 'L,0,1,1,0'), ('bitcoin', 'P,0,1,1,1'), ('litecoin', 'S,0,1,1,0'),
         ('dogecoin', 'L,0,1,1,0'), ('testnet', 'S,1,3,2,0')]


# ---------------------------------------------------------------- generators
def logu(rng, lo, hi):
    return int(math.exp(rng.uniform(math.log(lo), math.log(hi))))


def gen_view(rng, nmax=30):
    mode = rng.random()
    n = 0 if mode < 0.03 else (rng.randrange(1, 4) if mode < 0.35 else (rng.randrange(1, 9) if mode < 0.85 else rng.randrange(min(9, nmax), nmax + 1)))
    base = logu(rng, 2000, 10 ** 9)
    view = []
    for i in range(n):
        r = rng.random()
        if r < 0.12:
            v = rng.choice([1, 500, 999, 1000, 1001, 1500])
        elif r < 0.35:
            v = base
        elif r < 0.45:
            v = base + rng.randrange(-3, 4)
        else:
            v = logu(rng, 1000, 10 ** rng.choice([6, 8, 10, 12]))
        conf = rng.choice([0, 0, 1, 1, 2, 3, 3, 6, 6, 100]) if rng.random() < 0.8 else rng.randrange(0, 8)
        spent = rng.random() < 0.1
        view.append((i, v, conf, spent))
    return view


def view_tok(view):
    return ';'.join('%d:%d:%d:%d' % (i, v, c, 1 if s else 0) for (i, v, c, s) in view) or '-'


def rand_script(rng, net):
    h20 = bytes(rng.randrange(256) for _ in range(20))
    h32 = bytes(rng.randrange(256) for _ in range(32))
    kinds = ['p2pkh', 'p2sh'] if net.startswith('dogecoin') else ['p2pkh', 'p2sh', 'p2wpkh', 'p2wsh']
    k = rng.choice(kinds)
    return {'p2pkh': b'\x76\xa9\x14' + h20 + b'\x88\xac', 'p2sh': b'\xa9\x14' + h20 + b'\x87',
            'p2wpkh': b'\x00\x14' + h20, 'p2wsh': b'\x00\x20' + h32}[k]


def gen_oracle(rng, lim):
    r = rng.random()
    if r < 0.06:
        fpk = 0
    elif r < 0.16:
        fpk = rng.choice([lim[1] - 1, lim[1], lim[1] + 1, lim[2] - 1, lim[2], lim[2] + 1])
    else:
        fpk = logu(rng, max(1, lim[1] // 3), lim[2] * 2)
    fpk2 = logu(rng, lim[1], lim[2])
    ws = '/'.join(str(rng.randrange(1, 1000)) for _ in range(5))
    return '%d,%d,%d,%d,%s' % (fpk, fpk2, rng.randrange(1000), rng.randrange(1000), ws)


def gen_request(rng, net, view, lim):
    """returns (outs, inputs_tok, fee_tok, minconf, maxutxos_tok, k)"""
    minconf = rng.choice([0, 0, 1, 1, 1, 1, 2, 3])
    avail = [u for u in view if not u[3] and u[2] >= minconf and u[1] >= 1000]
    explicit = None
    if rng.random() < 0.28:
        r = rng.random()
        pool = [u for u in view if not u[3]] or view
        if not pool or r < 0.04:
            explicit = [] if rng.random() < 0.5 else [999]
        else:
            explicit = [u[0] for u in rng.sample(pool, rng.randrange(1, min(4, len(pool)) + 1))]
            if r < 0.10:
                explicit.append(explicit[0])                # duplicated
            elif r < 0.16 and any(u[3] for u in view):
                explicit.append(rng.choice([u[0] for u in view if u[3]]))   # already spent
        avail = [u for u in view if u[0] in set(explicit)]
    total = sum(u[1] for u in avail)
    nrec = rng.choice([1, 1, 1, 2, 2, 3, 4])
    r = rng.random()
    if r < 0.08:
        fee = 'i%d' % rng.choice([0, -1, 1, 100])
    elif r < 0.42:
        fee = 'i%d' % logu(rng, 100, 200000 if lim[1] < 10 ** 5 else 10 ** 8)
    elif r < 0.55:
        fee = 'named'
    else:
        fee = 'none'
    fint = int(fee[1:]) if fee[0] == 'i' else 0
    r = rng.random()
    if total <= 0 or r < 0.05:
        target = logu(rng, 1000, 10 ** 8)
    elif r < 0.45:
        target = max(1, int(total * rng.uniform(0.001, 0.9)))
    elif r < 0.55:
        target = max(1, int(total * rng.uniform(0.9, 1.05)))
    elif r < 0.75 and avail:
        # around one utxo / the whole balance, with the fee and the dust limit in the boundary zone
        b = rng.choice([rng.choice(avail)[1], total])
        target = max(1, b - fint - rng.choice([0, 0, 1, 500, 999, 1000, 1001, 2000, 5000, -1, -500, 30000]))
    else:
        target = max(1, total - fint - logu(rng, 1, 50000))
    amounts = []
    rest = target
    for j in range(nrec):
        a = rest if j == nrec - 1 else max(0, int(rest * rng.uniform(0.05, 0.7)))
        amounts.append(a)
        rest -= a
    if rng.random() < 0.02:
        amounts[0] = -amounts[0] - 1
    outs = ';'.join('%s:%d:0' % (rand_script(rng, net).hex(), a) for a in amounts)
    maxu = 'N' if rng.random() < 0.7 else str(rng.choice([0, 1, 1, 2, 3, 5]))
    k = rng.choice([0, 0, 1, 1, 1, 1, 2, 2, 3, 5])
    inputs = 'N' if explicit is None else (','.join(str(i) for i in explicit) or '-')
    return outs, inputs, fee, minconf, maxu, k


def gen_cases(rng, tier):
    big = tier == 'thorough'
    cs = []
    # --- calculate_fee: float model, boundaries and random
    for net in ('bitcoin', 'dogecoin'):
        lim = LIMITS[net]
        vals = set()
        for v in list(range(1, 60 if not big else 400)) + [110, 141, 192, 226, 999, 1000, 1001, 4095, 4096, 100000]:
            for f in (1, 999, 1000, 1001, 1003, 33333, lim[1], lim[2], lim[2] + 1, 12345, 999999):
                vals.add((v, f))
        for _ in range(6000 if big else 1200):
            vals.add((logu(rng, 1, 10 ** rng.choice([3, 5, 7, 12, 18])), logu(rng, 1, lim[2] * 3)))
        for (v, f) in sorted(vals):
            cs.append(Case('calcfee', 'calcfee %s %d %d' % (net, v, f)))
    n_sel, n_create, n_send, n_sweep, n_bump = (3000, 9000, 6000, 3000, 3000) if big else (250, 800, 500, 250, 250)
    # --- select_inputs
    for _ in range(n_sel):
        net, wk = rng.choice(KINDS[:3])
        view = gen_view(rng, 12)
        av = [u[1] for u in view if not u[3]]
        tot = sum(av)
        r = rng.random()
        amount = (rng.choice(av) + rng.choice([0, 0, 1, -1, 500, 1000, 1001, -1000])) if av and r < 0.4 else \
            (int(tot * rng.uniform(0.1, 1.1)) if tot and r < 0.9 else logu(rng, 1, 10 ** 9))
        var = rng.choice(['N', 'N', '0', '100', '5000'])
        cs.append(Case('select', 'select %s %s %s %d %s %d %s' % (
            net, wk, view_tok(view), amount, var, rng.choice([0, 1, 1, 2, 3]), rng.choice(['N', 'N', 'N', '0', '1', '2', '3']))))
    # --- transaction_create / send
    for op, n in (('create', n_create), ('send', n_send)):
        for _ in range(n):
            net, wk = rng.choice(KINDS)
            lim = LIMITS[net]
            view = gen_view(rng)
            outs, inputs, fee, minconf, maxu, k = gen_request(rng, net, view, lim)
            o = gen_oracle(rng, lim)
            shuffle = 1 if rng.random() < 0.5 else 0
            req = '%s 1 %s %s %s %s %s %s %d %s %d %d %s' % (op, net, wk, view_tok(view), outs, inputs, fee, minconf, maxu,
                                                             k, shuffle, o)
            if op == 'send':
                req += ' ' + o
            cs.append(Case(op, req))
    # --- sweep
    for _ in range(n_sweep):
        net, wk = rng.choice(KINDS)
        lim = LIMITS[net]
        view = gen_view(rng, 14)
        tot = sum(u[1] for u in view if not u[3])
        single = rng.random() < 0.5
        if single:
            targets = '%s:0:0' % rand_script(rng, net).hex()
        else:
            nt = rng.randrange(1, 4)
            am = [max(1, int(tot * rng.uniform(0.05, 0.4))) for _ in range(nt)]
            zi = rng.randrange(nt + 1)
            if zi < nt:
                am[zi] = 0
            if rng.random() < 0.1 and nt > 1:
                am[rng.randrange(nt)] = 0
            targets = ';'.join('%s:%d:0' % (rand_script(rng, net).hex(), a) for a in am)
        r = rng.random()
        fee = 'none' if r < 0.5 else ('named' if r < 0.65 else 'i%d' % (0 if r < 0.7 else logu(rng, 100, 10 ** 6 if lim[1] < 10 ** 5 else 10 ** 9)))
        fpk = 'N' if rng.random() < 0.6 else str(logu(rng, lim[1], lim[2]))
        o = gen_oracle(rng, lim)
        cs.append(Case('sweep', 'sweep 1 %s %s %s %d %s %s %s %d %d %s %s' % (
            net, wk, view_tok(view), 1 if single else 0, targets, fee, fpk, rng.choice([0, 1, 1, 2]),
            rng.choice([999, 999, 999, 1, 2, 5]), o, o)))
    # --- replace-by-fee + bumpfee
    for j in range(n_bump):
        net, wk = rng.choice(KINDS[:3] + KINDS[5:7])
        lim = LIMITS[net]
        view = [(i, v, max(c, 1) if rng.random() < 0.8 else c, s) for (i, v, c, s) in gen_view(rng, 8)]
        if not view:
            view = [(0, 500000, 3, False)]
        view[0] = (view[0][0], max(view[0][1], 30000), max(view[0][2], 1), False)
        o = gen_oracle(rng, lim)
        mode = rng.random()
        inp = [u for u in view if not u[3]][:rng.randrange(1, 3)] or view[:1]
        tin = sum(u[1] for u in inp)
        fee0 = logu(rng, 200, 20000)
        if mode < 0.45:
            # explicit small change outputs (Output objects flagged change=True), like the recorded witness [900, 250]
            nch = rng.randrange(1, 4)
            chg = [logu(rng, 100, 60000) for _ in range(nch)]
            main = tin - fee0 - sum(chg)
            if main <= 0:
                chg, main = [], max(1, tin - fee0)
            outs = ['%s:%d:0' % (rand_script(rng, net).hex(), main)] + ['%s:%d:1' % (rand_script(rng, net).hex(), c) for c in chg]
            rng.shuffle(outs)
            k = 1
        else:
            main = max(1, int(tin * rng.uniform(0.2, 0.999)) - fee0)
            outs = ['%s:%d:0' % (rand_script(rng, net).hex(), main)]
            k = rng.choice([1, 1, 2, 3])
        r = rng.random()
        if r < 0.15:
            farg, earg = 0, 0
        elif r < 0.35:
            farg, earg = fee0 + logu(rng, 50, 200000), 0
        else:
            farg, earg = 0, logu(rng, 50, 200000)
        if j == 0:
            # the recorded witness of finding 18
            view = [(0, 100000, 5, False)]
            inp = view
            outs = ['0014' + '11' * 20 + ':98350:0', '0014' + 'a2' * 20 + ':900:1', '0014' + 'b3' * 20 + ':250:1']
            fee0, k, farg, earg, net, wk = 500, 1, 0, 1000, 'bitcoinlib_test', 'S,0,1,1,0'
        cs.append(Case('bump', 'bump 1 %s %s %s %s %s i%d %d %d %d %s' % (
            net, wk, view_tok(view), ';'.join(outs), ','.join(str(u[0]) for u in inp), fee0, k, farg, earg, o)))
    # --- histories on one wallet (sequences of operations, explicit-input shapes, every argument of send/sweep)
    cs = H.gen_hist_cases(rng, tier, known_status('explicit_input_not_in_wallet'),
                           known_status('bumpfee_replacement_unverified')) + cs
    # --- recorded witnesses (corpus)
    w17 = '0014' + '11' * 20
    cs.insert(0, Case('create', 'create 1 bitcoinlib_test S,0,1,1,0 0:100000000:5:0 %s:99990000:0 0 i50000 1 N 1 0 0,0,0,0,-' % w17))
    cs.insert(1, Case('send', 'send 1 bitcoinlib_test S,0,1,1,0 0:100000000:5:0 %s:99990000:0 0 i50000 1 N 1 0 0,0,0,0,- 0,0,0,0,-' % w17))
    cs.insert(2, Case('create', 'create 1 bitcoinlib_test S,0,1,1,0 0:100000000:5:0 %s:100000500:0 0 none 1 N 1 0 33333,33333,0,0,-' % w17))
    return cs


def known_status(cid):
    """a class is exercised by the generators only while it is recorded as `known` (known_findings.json / VERIF_EXTRA_KNOWN)"""
    return any(e.get('status') == 'known' and (e.get('class') == cid or e.get('id') == cid) for e in load_known(PROP))


# ---------------------------------------------------------------- model request / comparison
_side = {}


def _load_side():
    if not _side:
        import core as _core
        p = os.path.join(RUN, PROP + ('_alt_%d' % os.getpid() if _core.ALT else ''), 'c07_side.json')
        _side.update(json.load(open(p)) if os.path.exists(p) else {})
        _side['__loaded__'] = 1
    return _side


def model_req(c):
    t = c.req.split(' ')
    k = t[0]
    if k == 'hist':
        return H.model_req_hist(c, _load_side())
    if k == 'calcfee':
        return 'calcfee %d %s %s' % (NETS.index(t[1]), t[2], t[3])
    if k == 'select':
        dust = LIMITS[t[1]][0]
        return 'select %s %s %s %s %d %s' % (t[3], t[4], str(dust) if t[5] == 'N' else t[5], t[6], dust, t[7])
    if k in ('create', 'send'):
        t[2] = str(NETS.index(t[2]))
        del t[11]
        return ' '.join(t)
    if k == 'sweep':
        t[2] = str(NETS.index(t[2]))
        return ' '.join(t)
    if k == 'bump':
        pre = _load_side().get(c.req)
        if pre is None:
            return 'nobump'
        return 'wbump 1 %d %s %s %s %d %d %s %s %d/%d %d/%d' % (
            NETS.index(t[2]), t[4], pre['ins'], pre['outs'], pre['fee'], pre['vsize'], t[9], t[10],
            MULT[0], MULT[1], MULT2[0], MULT2[1])
    return c.req


def _fields(main):
    d = {}
    for x in main.split(' ')[1:]:
        k, _, v = x.partition('=')
        d[k] = v
    return d


def _canon(main, c):
    if not main.startswith('OK') or c.kind in ('select', 'calcfee'):
        return main
    d = _fields(main)
    t = c.req.split(' ')
    shuffled = (c.kind in ('create', 'send') and t[11] == '1') or c.kind == 'sweep'
    ins = sorted(d.get('in', '-').split(','))
    outs = d.get('out', '-').split(';')
    if shuffled:
        outs = sorted(outs)
    vs = d.get('vsize', '') if c.kind == 'create' else ''
    return 'OK fee=%s change=%s vsize=%s in=%s out=%s' % (d.get('fee'), d.get('change', ''), vs, ','.join(ins), ';'.join(outs))


def same(c, io, mo):
    if c.kind == 'hist':
        return H.same_hist(c, io, mo)
    main = io.split(' | ')[0]
    if c.kind == 'bump' and main.startswith('NOTX'):
        return mo == 'nobump' or True
    return _canon(main, c) == _canon(mo, c)


def is_trivial(c, out):
    if c.kind == 'hist':
        return ' @ OK fee=' not in out
    return not out.startswith('OK') and not out[:1].isdigit()


# ---------------------------------------------------------------- independent oracle (property level)
def parse_raw(h):
    """minimal independent transaction parser: returns ([(txid_hex, n)], [(value, script_hex)])"""
    b = bytes.fromhex(h)
    p = [4]

    def rd(n):
        x = b[p[0]:p[0] + n]
        if len(x) != n:
            raise ValueError('short')
        p[0] += n
        return x

    def vi():
        f = rd(1)[0]
        if f < 0xfd:
            return f
        return int.from_bytes(rd({0xfd: 2, 0xfe: 4, 0xff: 8}[f]), 'little')
    segwit = b[4] == 0 and b[5] == 1
    if segwit:
        p[0] = 6
    ins = []
    for _ in range(vi()):
        txid = rd(32)[::-1].hex()
        n = int.from_bytes(rd(4), 'little')
        rd(vi())
        rd(4)
        ins.append((txid, n))
    outs = []
    for _ in range(vi()):
        v = int.from_bytes(rd(8), 'little')
        outs.append((v, rd(vi()).hex()))
    return ins, outs


def _txid_of(i):
    import hashlib
    return hashlib.sha256(b'c07-%d' % i).hexdigest()


def _view_of(tok):
    v = {}
    order = []
    if tok != '-':
        for s in tok.split(';'):
            i, val, c, sp = s.split(':')
            v[int(i)] = (int(val), int(c), sp == '1')
            order.append(int(i))
    return v, order


def _extra(io):
    parts = io.split(' | ')
    d = {}
    if len(parts) > 1:
        for x in parts[1].split(' '):
            k, _, v = x.partition('=')
            d[k] = v
    return d


def violated(c, io):
    """list of (tag, message): which clauses of the property statement the implementation's answer breaks"""
    t = c.req.split(' ')
    k = c.kind
    main = io.split(' | ')[0]
    bad = []
    if k == 'hist':
        return H.violated_hist(c, io)
    if io.startswith('CRASH') or io == 'BADREQ':
        return [('crash', io[:100])]
    if k in ('calcfee', 'select'):
        if k == 'select' and main.startswith('OK') and main != 'OK -':
            view, _ = _view_of(t[3])
            ids = [int(x) for x in main[3:].split(',')]
            dust = LIMITS[t[1]][0]
            if len(set(ids)) != len(ids):
                bad.append(('select', 'selected outputs not distinct'))
            for i in ids:
                u = view.get(i)
                if u is None or u[2] or u[1] < int(t[6]):
                    bad.append(('select', 'selected output %d is unknown/spent/unconfirmed' % i))
            if all(i in view for i in ids) and sum(view[i][0] for i in ids) < int(t[4]):
                bad.append(('select', 'selection does not cover the amount'))
        return bad
    net = t[2]
    dust, fmin, fmax = LIMITS[net]
    view, _ = _view_of(t[4])
    ex = _extra(io)
    if k == 'bump':
        if main.startswith('NOTX'):
            return bad
        post = ex.get('postouts', '-')
        vals = [int(x.split(':')[1]) for x in post.split(';')] if post != '-' else []
        if any(v < 0 for v in vals):
            bad.append(('bump_negative_output', 'after bumpfee the transaction object has output values %r' % vals))
        if main.startswith('OK'):
            d = _fields(main)
            ids = [int(x) for x in d['in'].split(',')] if d['in'] != '-' else []
            fee = int(d['fee'])
            try:
                rins, routs = parse_raw(ex['raw'])
            except Exception as e:
                return bad + [('raw', 'raw() of the bumped transaction unreadable: %r' % (e,))]
            if len(set(ids)) != len(ids) or any(i not in view or view[i][2] for i in ids):
                bad.append(('inputs', 'inputs after bumpfee not distinct unspent outputs of this wallet: %r' % ids))
            elif sum(view[i][0] for i in ids) != sum(v for v, _ in routs) + fee:
                bad.append(('conserve', 'after bumpfee: inputs %d != outputs %d + fee %d' % (
                    sum(view[i][0] for i in ids), sum(v for v, _ in routs), fee)))
            if fee < int(ex['prefee']):
                bad.append(('bump_fee', 'fee after bumpfee %d < fee before %d' % (fee, int(ex['prefee']))))
            want = [(x.split(':')[0], int(x.split(':')[1])) for x in t[5].split(';') if x.endswith(':0')]
            have = [(s, v) for v, s in routs]
            for s, v in want:
                if have.count((s, v)) != want.count((s, v)):
                    bad.append(('recipients', 'recipient %s:%d not paid exactly once after bumpfee' % (s[:12], v)))
                    break
        return bad
    if not main.startswith('OK'):
        return bad
    # ---- a transaction was returned by create / send / sweep
    d = _fields(main)
    fee = int(d['fee'])
    ids = [int(x) for x in d['in'].split(',')] if d['in'] != '-' else []
    try:
        rins, routs = parse_raw(ex['raw'])
    except Exception as e:
        return [('raw', 'raw() unreadable: %r' % (e,))]
    if sorted(rins) != sorted((_txid_of(i), i % 4) for i in ids):
        bad.append(('raw', 'outpoints in raw() differ from the reported inputs'))
    if k == 'sweep':
        explicit, minconf, fee_tok = True, int(t[9]), t[7]
    else:
        explicit, minconf, fee_tok = t[6] != 'N', int(t[8]), t[7]
    # inputs: distinct, unspent, of this wallet, confirmed as required
    known = all(i in view for i in ids)
    if not known:
        bad.append(('inputs', 'input not an output of this wallet'))
    else:
        if len(set(ids)) != len(ids) or any(view[i][2] for i in ids):
            bad.append(('explicit_inputs' if (explicit and k != 'sweep') else 'inputs',
                        'inputs not distinct/unspent: %r' % ids))
        if (not explicit or k == 'sweep') and any(view[i][1] < minconf for i in ids):
            bad.append(('inputs', 'input with fewer than %d confirmations' % minconf))
        tin = sum(view[i][0] for i in ids)
        tout = sum(v for v, _ in routs)
        if tin != tout + fee:
            bad.append(('conserve', 'inputs %d != outputs %d + fee %d' % (tin, tout, fee)))
    if fee < 0:
        bad.append(('fee_negative', 'fee %d < 0' % fee))
    vs = int(ex.get('vsize', '0') or 0)
    if vs > 0 and fee >= 0:
        rate = fee * 1000 // vs
        if not (fmin <= rate <= fmax):
            bad.append(('rate', 'fee %d on vsize %d = %d per kB outside [%d, %d]' % (fee, vs, rate, fmin, fmax)))
    for x in d['out'].split(';') if d['out'] != '-' else []:
        if int(x.split(':')[1]) < 0:
            bad.append(('negative_output', 'negative output ' + x))
    # recipients exactly once, everything else to change keys of this wallet
    wch = set(ex.get('wchange', '-').split(','))
    have = [(s, v) for v, s in routs]
    if k == 'sweep':
        tg = [(x.split(':')[0], int(x.split(':')[1])) for x in t[6].split(';')]
        rest_ok = list(have)
        if t[5] == '1':
            if len(have) != 1 or have[0][0] != tg[0][0]:
                bad.append(('recipients', 'sweep to one address produced outputs %r' % have))
        else:
            for s, v in tg:
                if v != 0:
                    if (s, v) in rest_ok:
                        rest_ok.remove((s, v))
                    else:
                        bad.append(('recipients', 'sweep target %s:%d missing' % (s[:12], v)))
            zs = [s for s, v in tg if v == 0]
            for s, v in rest_ok:
                if s in zs:
                    zs.remove(s)
                else:
                    bad.append(('recipients', 'sweep output %s:%d was not requested' % (s[:12], v)))
    else:
        want = [(x.split(':')[0], int(x.split(':')[1])) for x in t[5].split(';')] if t[5] != '-' else []
        others = list(have)
        for sv in want:
            if sv in others:
                others.remove(sv)
            else:
                bad.append(('recipients', 'requested output %s:%d missing' % (sv[0][:12], sv[1])))
        for s, v in others:
            if s not in wch:
                bad.append(('recipients', 'extra output %s:%d does not pay a change key of this wallet' % (s[:12], v)))
        if len(set(s for s, v in others)) != len(others):
            bad.append(('recipients', 'change key reused inside one transaction'))
        # insufficient funds must fail
        if k in ('create', 'send'):
            if explicit:
                avail = sum(view[i][0] for i in [int(x) for x in t[6].split(',')] if i in view) if t[6] != '-' else 0
            else:
                avail = sum(v for (v, cf, sp) in view.values() if not sp and cf >= minconf)
            freq = int(fee_tok[1:]) if fee_tok[0] == 'i' else 0
            if avail < sum(v for _, v in want) + freq:
                bad.append(('insufficient', 'available %d < requested %d + requested fee %d, yet a transaction was returned'
                            % (avail, sum(v for _, v in want), freq)))
    return bad


KNOWN_TAGS = {
    # tag -> (class id, predicate on the case that delimits the class)
    # (history requests: the oracle gives the tag explicit_inputs / explicit_unknown only to operations whose
    #  input_arr is an explicit list / names an outpoint unknown to the wallet together with an address and a value)
    'explicit_inputs': ('explicit_inputs_unchecked',
                        lambda c, t: (c.kind in ('create', 'send') and t[6] not in ('N', '-')) or c.kind == 'hist'),
    'explicit_unknown': ('explicit_input_not_in_wallet', lambda c, t: c.kind == 'hist'),
    'replacement_unsent': ('bumpfee_replacement_unverified', lambda c, t: c.kind == 'hist' and t[2].split(',')[1] == '1'),
    'rate': ('fee_rate_checked_on_estimate', lambda c, t: True),
}


def prop_check(c, io):
    b = violated(c, io)
    if not b:
        return None
    b = sorted(b, key=lambda x: x[0] in KNOWN_TAGS)          # what no recorded class explains comes first
    return '; '.join('[%s] %s' % x for x in b[:3])


def _known(cid):
    def pred(c, io, mo):
        t = c.req.split(' ')
        tags = set(x[0] for x in violated(c, io))
        if not tags:
            return False
        hit = False
        for tg in tags:
            if tg not in KNOWN_TAGS or not KNOWN_TAGS[tg][1](c, t):
                return False
            hit = hit or KNOWN_TAGS[tg][0] == cid
        return hit
    return pred


KNOWN_CLASSES = {cid: _known(cid) for cid in ('explicit_inputs_unchecked', 'fee_rate_checked_on_estimate',
                                               'explicit_input_not_in_wallet', 'bumpfee_replacement_unverified')}


# amounts written with a denominator symbol whose binary-float conversion is a recorded finding of C17 (den_<symbol>):
# the class decision is the one of harness/props/c17.py (symbol of the amount text + status of the C17 entry); such an
# amount being off is that finding, not a new one of this property
def _c17_den(c, io, mo):
    tags = set(x[0] for x in violated(c, io))
    return bool(tags) and tags <= {'amount_den_known'}


KNOWN_CLASSES['c17_denominator_float'] = _c17_den
DOMAIN_CLASSES = ('c17_denominator_float',)


def reproduce_known(entry, rundir):
    from core import run_impl
    req = entry['witness']['request']
    rc, out, err = run_impl(IMPL, [req], rundir)
    if len(out) != 1:
        return False
    c = Case(req.split(' ')[0], req)
    tags = set(x[0] for x in violated(c, out[0]))
    want = entry['witness'].get('violated_tag')
    return (want in tags) if want else out[0].split(' | ')[0] == entry['witness']['impl_answer']
