"""C06 — transaction and block serialization round-trips byte-for-byte; ids are exact."""
import hashlib
from core import Case

PROP = 'C06'
COQ_FILES = ['Extract/C06.v', 'Glue/WireGlue.v', 'Properties/C06.v']
TIE_FILES = ['Properties/TieBlocks.v']
DRIVER = 'c06'
IMPL = 'harness/impl/c06_impl.py'
ALLOWED_AXIOMS = []
ASSUMPTIONS = [
    'theorems are about coq/Model/TxCodec.v and Model/BlockCodec.v: spec_* written from the protocol (BIP144, Core '
    'serialize.h, SetCompact), lib_* mirroring transactions.py / blocks.py / encoding.py at the byte level',
    'the script-interpreting layer of the real parser (Script.parse_bytes, Input.update_scripts) is the identity on '
    'bytes in the model; it is compared with the implementation by the correspondence only (standard input kinds and '
    'random non-standard scripts); where it is not the identity the case falls in a recorded class',
    'strict=True parsing may refuse a well-formed transaction it does not understand (documented); a refusal of a '
    'non-standard transaction is not counted as a failure, an accepted transaction must round-trip',
    'truncated inputs (a read past the end of the buffer) are outside the model: lib_parse returns None there',
    'SHA-256 is the executable Gallina transcription Crypto/Sha256.v, cross-checked against hashlib on every case',
    'block theorems: header codec, hash and target only; the two block transaction readers are modelled and '
    'compared by the correspondence, not proved equal',
]
RULE = ('boundary streams (every CompactSize form change for input/output/witness counts and script/item lengths, all '
        '256 one-byte scripts and witness items, field extremes), structured stream of standard input kinds and random '
        'non-standard scripts built bottom-up, API-built transactions, mutated/malformed stream, blocks of 1..50 '
        'transactions, exhaustive exponent x boundary mantissa for target; a case is non-trivial when the '
        'implementation parses/builds it; distinct by request')
IMPL_TIMEOUT = 3000


# ---------------------------------------------------------------- independent oracle, written from the protocol
# transaction = (version, ins, outs, locktime, segwit); in = (prev_wire32, vout, script, seq, [items]); out = (value, script)

def cs(n):
    if n < 253:
        return bytes([n])
    if n <= 0xffff:
        return b'\xfd' + n.to_bytes(2, 'little')
    if n <= 0xffffffff:
        return b'\xfe' + n.to_bytes(4, 'little')
    return b'\xff' + n.to_bytes(8, 'little')


def o_ser(t, witness=True):
    v, ins, outs, lt, sw = t
    sw = sw and witness
    r = v.to_bytes(4, 'little')
    if sw:
        r += b'\x00\x01'
    r += cs(len(ins))
    for (p, n, s, q, w) in ins:
        r += p + n.to_bytes(4, 'little') + cs(len(s)) + s + q.to_bytes(4, 'little')
    r += cs(len(outs))
    for (val, s) in outs:
        r += val.to_bytes(8, 'little') + cs(len(s)) + s
    if sw:
        for (p, n, s, q, w) in ins:
            r += cs(len(w)) + b''.join(cs(len(x)) + x for x in w)
    return r + lt.to_bytes(4, 'little')


def dsha(b):
    return hashlib.sha256(hashlib.sha256(b).digest()).digest()


def o_txid(t):
    return dsha(o_ser(t, False))[::-1].hex()


class Bad(Exception):
    pass


class Rd:
    def __init__(self, b, pos=0):
        self.b, self.p = b, pos

    def take(self, n):
        if n < 0 or self.p + n > len(self.b):
            raise Bad('short')
        r = self.b[self.p:self.p + n]
        self.p += n
        return r

    def u(self, n):
        return int.from_bytes(self.take(n), 'little')

    def cs(self):
        f = self.u(1)
        if f < 253:
            return f
        k, lo = {253: (2, 253), 254: (4, 0x10000), 255: (8, 0x100000000)}[f]
        v = self.u(k)
        if v < lo:
            raise Bad('non-canonical CompactSize')
        return v

    def var(self):
        n = self.cs()
        return self.take(n)


def o_parse_at(r):
    v = r.u(4)
    sw = False
    if r.b[r.p:r.p + 1] == b'\x00':
        if r.b[r.p + 1:r.p + 2] != b'\x01':
            raise Bad('marker without flag 01')
        r.p += 2
        sw = True
    n = r.cs()
    if n > len(r.b) - r.p:
        raise Bad('count')
    ins = []
    for _ in range(n):
        p = r.take(32)
        vo = r.u(4)
        s = r.var()
        q = r.u(4)
        ins.append([p, vo, s, q, []])
    n = r.cs()
    if n > len(r.b) - r.p:
        raise Bad('count')
    outs = []
    for _ in range(n):
        val = r.u(8)
        outs.append((val, r.var()))
    if sw:
        for i in ins:
            k = r.cs()
            if k > len(r.b) - r.p:
                raise Bad('count')
            i[4] = [r.var() for _ in range(k)]
        if not any(i[4] for i in ins):
            raise Bad('superfluous witness record')
    lt = r.u(4)
    return (v, [tuple(i) for i in ins], outs, lt, sw)


def o_parse(raw):
    """strict parser: None unless raw is exactly one well-formed transaction"""
    try:
        r = Rd(raw)
        t = o_parse_at(r)
        if r.p != len(raw) or not t[1]:
            return None
        return t
    except Bad:
        return None


def o_target(bits):
    size, word = bits >> 24, bits & 0x007fffff
    return word >> (8 * (3 - size)) if size <= 3 else word << (8 * (size - 3))


def o_parse_block(raw):
    try:
        r = Rd(raw)
        hdr = r.take(80)
        h = Rd(hdr)
        f = dict(version=h.u(4), prev=h.take(32)[::-1].hex(), merkle=h.take(32)[::-1].hex(), time=h.u(4), bits=h.u(4),
                 nonce=h.u(4), hash=dsha(hdr)[::-1].hex())
        n = r.cs()
        if n > len(raw):
            return None
        txs, spans = [], []
        for _ in range(n):
            a = r.p
            txs.append(o_parse_at(r))
            spans.append(raw[a:r.p])
        if r.p != len(raw):
            return None
        f.update(txs=txs, spans=spans, count=n)
        return f
    except Bad:
        return None


def hx(b):
    return b.hex() if b else '-'


def unhx(s):
    return b'' if s == '-' else bytes.fromhex(s)


def tok_in(i, held=False):
    w = [(b'\x00' if (held and x == b'') else x) for x in i[4]]
    return ':'.join([hx(i[0][::-1]), str(i[1]), hx(i[2]), str(i[3]), ','.join(hx(x) for x in w)])


def tok_tx(t, held=False):
    """held=True: as the library's object holds a parsed transaction (an empty witness item is b'\\0')"""
    return ';'.join([str(t[0]), str(t[3]), '1' if t[4] else '0', '|'.join(tok_in(i, held) for i in t[1]) or '-',
                     '|'.join('%d:%s' % (v, hx(s)) for v, s in t[2]) or '-'])


def tx_of_tok(f):
    v, lt, sw, ins, outs = f.split(';')
    li = []
    for s in ([] if ins == '-' else ins.split('|')):
        p, n, sc, q, w = s.split(':')
        li.append((unhx(p)[::-1], int(n), unhx(sc), int(q), [] if w == '' else [unhx(x) for x in w.split(',')]))
    lo = []
    for s in ([] if outs == '-' else outs.split('|')):
        val, sc = s.split(':')
        lo.append((int(val), unhx(sc)))
    return (int(v), li, lo, int(lt), sw == '1')


# ---------------------------------------------------------------- classes (decided from the case alone)
def hexlike(b):
    if not b:
        return False
    try:
        bytes.fromhex(b.decode())
        return True
    except (ValueError, UnicodeDecodeError):
        return False


def pushes(s, depth=2):
    """data items of a script read leniently, with the items of nested scripts (redeem / witness scripts)"""
    out, i = [], 0
    while i < len(s):
        op = s[i]
        i += 1
        if 1 <= op <= 75:
            n = op
        elif op == 76 and i + 1 <= len(s):
            n = s[i]
            i += 1
        elif op == 77 and i + 2 <= len(s):
            n = int.from_bytes(s[i:i + 2], 'little')
            i += 2
        else:
            continue
        d = s[i:i + n]
        i += n
        out.append(d)
        if depth > 1 and len(d) > 33:
            out += pushes(d, depth - 1)
    return out


def truncated_push(s):
    i = 0
    while i < len(s):
        op = s[i]
        i += 1
        if 1 <= op <= 75:
            n = op
        elif op == 76:
            if i + 1 > len(s):
                return True
            n = s[i]
            i += 1
        elif op == 77:
            if i + 2 > len(s):
                return True
            n = int.from_bytes(s[i:i + 2], 'little')
            i += 2
        elif op == 78:
            if i + 4 > len(s):
                return True
            n = int.from_bytes(s[i:i + 4], 'little')
            i += 4
        else:
            continue
        if i + n > len(s):
            return True
        i += n
    return False


def sigkey_shaped(d):
    n = len(d)
    return (d[:1] == b'\x30' and 69 <= n <= 74) or (d[:1] in (b'\x02', b'\x03') and n == 33) or (d[:1] == b'\x04' and n == 65)


def is_wp_push(s):
    return (len(s) == 23 and s[:3] == b'\x16\x00\x14') or (len(s) == 35 and s[:3] == b'\x22\x00\x20')


def tx_classes(t):
    """recorded classes a well-formed transaction falls in (parse direction)"""
    c = set()
    v, ins, outs, lt, sw = t
    if any(s == b'\x00' for _, s in outs) or any(w == b'\x00' for i in ins for w in i[4]):
        c.add('single_zero_byte_item')
    if any(hexlike(s) for _, s in outs) or any(hexlike(i[2]) or hexlike(i[0][::-1]) for i in ins):
        c.add('ascii_hex_bytes')
    if any(i[2] and i[4] and not is_wp_push(i[2]) and i[0] != b'\x00' * 32 for i in ins):
        c.add('scriptsig_and_witness')
    for i in ins:
        if i[0] != b'\x00' * 32 and truncated_push(i[2]):
            c.add('malformed_scriptsig')
        items = list(i[4])
        for w in i[4]:
            if len(w) > 33:
                items += pushes(w, 1)
        if i[0] != b'\x00' * 32:
            items += pushes(i[2])
        if any(sigkey_shaped(d) for d in items):
            c.add('script_layer_rebuild')
    return c


def block_classes(f):
    c = set()
    for t in f['txs']:
        c |= tx_classes(t)
    hd = [f['version'].to_bytes(4, 'big'), bytes.fromhex(f['prev']), bytes.fromhex(f['merkle']),
          f['bits'].to_bytes(4, 'big'), f['nonce'].to_bytes(4, 'big')]
    if any(hexlike(x) for x in hd):
        c.add('ascii_hex_bytes')
    if (f['bits'] >> 24) < 3 or (f['bits'] & 0x00800000):
        c.add('target_outside_domain')
    return c


MODEL_BLIND = {'scriptsig_and_witness', 'script_layer_rebuild', 'malformed_scriptsig'}   # the byte-level model does not predict these


# ---------------------------------------------------------------- generators
G1 = bytes.fromhex('0279be667ef9dcbbac55a06295ce870b07029bfcdb2dce28d959f2815b16f81798')
G2 = bytes.fromhex('02c6047f9441ed7d6d3045406e95c07cd85c778e4b8cef3ca7abac09b95c709ee5')
G3 = bytes.fromhex('03f9308a019258c31049344f85f89d5229b531c845836f99b08601f113bce036f9')
GU = bytes.fromhex('0479be667ef9dcbbac55a06295ce870b07029bfcdb2dce28d959f2815b16f81798'
                   '483ada7726a3c4655da4fbfc0e1108a8fd17b448a68554199c47d08ffb10d4b8')
KEYS = [G1, G2, G3]
EDGE32 = [0, 1, 2, 0x7fffffff, 0x80000000, 0xfffffffd, 0xfffffffe, 0xffffffff]


def push(d):
    n = len(d)
    if n < 76:
        return bytes([n]) + d
    if n < 256:
        return b'\x4c' + bytes([n]) + d
    return b'\x4d' + n.to_bytes(2, 'little') + d


def h160(b):
    return hashlib.new('ripemd160', hashlib.sha256(b).digest()).digest()


def rnd(rng, n):
    return bytes(rng.randrange(256) for _ in range(n))


def der_sig(rng):
    def enc(x):
        b = x.to_bytes(32, 'big').lstrip(b'\x00')
        if b[0] & 0x80:
            b = b'\x00' + b
        return b'\x02' + bytes([len(b)]) + b
    r = rng.randrange(1 << 252, 1 << 256)
    s = rng.randrange(1 << 252, 1 << 255)
    body = enc(r) + enc(s)
    return b'\x30' + bytes([len(body)]) + body + bytes([rng.choice([1, 1, 1, 2, 3, 0x81, 0x83])])


def rnd_prev(rng):
    p = rnd(rng, 32)
    while hexlike(p[::-1]) or p == b'\x00' * 32:
        p = rnd(rng, 32)
    return p


def e32(rng):
    return rng.choice(EDGE32) if rng.random() < 0.5 else rng.getrandbits(32)


def plain_script(rng, n):
    """n bytes of non-push opcodes (nothing for the script layer to interpret, never text-like)"""
    ops = [0x51, 0x52, 0x60, 0x75, 0x76, 0x87, 0x93, 0xac, 0xb1, 0xff, 0x00]
    s = bytes(rng.choice(ops) for _ in range(n))
    if n == 1 and s == b'\x00':
        s = b'\x51'
    return s


def std_out(rng):
    k = rng.randrange(8)
    h20, h32 = rnd(rng, 20), rnd(rng, 32)
    if k == 0:
        return b'\x76\xa9\x14' + h20 + b'\x88\xac'
    if k == 1:
        return b'\xa9\x14' + h20 + b'\x87'
    if k == 2:
        return b'\x00\x14' + h20
    if k == 3:
        return b'\x00\x20' + h32
    if k == 4:
        return b'\x51\x20' + h32
    if k == 5:
        return push(rng.choice(KEYS + [GU])) + b'\xac'
    if k == 6:
        return b'\x6a' + push(rnd(rng, rng.choice([1, 4, 20, 32, 40, 75, 76, 80])))
    return b'\x52' + push(G1) + push(G2) + push(G3) + b'\x53\xae'


def std_in(rng, segwit):
    """(scriptSig, witness) of a standard kind"""
    sig, sig2 = der_sig(rng), der_sig(rng)
    key = rng.choice(KEYS)
    ms = b'\x52' + push(G1) + push(G2) + push(G3) + b'\x53\xae'
    if not segwit:
        k = rng.randrange(4)
        if k == 0:
            return push(sig) + push(rng.choice(KEYS + [GU])), []
        if k == 1:
            return push(sig), []
        if k == 2:
            return b'\x00' + push(sig) + push(sig2) + push(ms), []
        return b'', []                                         # unsigned
    k = rng.randrange(7)
    if k == 0:
        return b'', [sig, key]                                 # p2wpkh
    if k == 1:
        return push(b'\x00\x14' + h160(key)), [sig, key]       # p2sh-p2wpkh
    if k == 2:
        return b'', [b'', sig, sig2, ms]                       # p2wsh multisig
    if k == 3:
        return b'', [rnd(rng, 64)]                             # p2tr key path
    if k == 4:
        return push(sig) + push(key), []                       # legacy input in a segwit transaction
    if k == 5:
        return push(b'\x00\x20' + hashlib.sha256(ms).digest()), [b'', sig, sig2, ms]   # p2sh-p2wsh multisig
    return b'', []


def rnd_tx(rng, kind):
    """kind: 'std' standard kinds, 'plain' opcode-only scripts, 'non' random bytes"""
    segwit = rng.random() < 0.5
    ni = rng.choice([1, 1, 1, 2, 3])
    no = rng.choice([1, 1, 2, 3, 4])
    ins = []
    for _ in range(ni):
        if kind == 'std':
            s, w = std_in(rng, segwit)
        elif kind == 'plain':
            if segwit and rng.random() < 0.6:
                s, w = b'', [plain_script(rng, rng.choice([0, 1, 2, 5, 32, 64, 72, 100])) for _ in range(rng.randrange(0, 6))]
            else:
                s, w = plain_script(rng, rng.choice([0, 1, 2, 22, 25, 75, 76, 107])), []
        else:
            if segwit and rng.random() < 0.6:
                s, w = b'', [rnd(rng, rng.choice([0, 1, 2, 20, 32, 33, 64, 72, 100])) for _ in range(rng.randrange(0, 6))]
            else:
                s, w = rnd(rng, rng.choice([0, 1, 2, 22, 25, 75, 76, 107])), []
        ins.append((rnd_prev(rng), rng.choice([0, 1, rng.getrandbits(32), 0xffffffff]), s, e32(rng), w))
    outs = []
    for _ in range(no):
        if kind == 'std':
            sc = std_out(rng)
        elif kind == 'plain':
            sc = plain_script(rng, rng.choice([1, 2, 22, 25, 34, 75, 76, 200]))
        else:
            sc = rnd(rng, rng.choice([1, 2, 22, 25, 34, 75, 76, 200]))
        outs.append((rng.choice([0, 1, 546, rng.getrandbits(40), 21 * 10 ** 14, (1 << 64) - 1]), sc))
    sw = any(i[4] for i in ins)
    return (e32(rng), ins, outs, e32(rng), sw)


def coinbase_tx(rng, segwit):
    h = rng.randrange(1, 1 << 24)
    s = push(h.to_bytes(3, 'little')) + rnd(rng, rng.randrange(0, 40))
    w = [b'\x00' * 32] if segwit else []
    outs = [(rng.getrandbits(33), std_out(rng))]
    if segwit:
        outs.append((0, b'\x6a\x24\xaa\x21\xa9\xed' + rnd(rng, 32)))
    return (rng.choice([1, 2]), [(b'\x00' * 32, 0xffffffff, s, 0xffffffff, w)], outs, 0, segwit)


def tx_case(kind, tag, t, cs_):
    cs_.append(Case(kind, 'tx %s %s' % (tag, o_ser(t).hex())))


def simple(ins=None, outs=None, v=1, lt=0):
    P = bytes(range(1, 33))
    ins = ins if ins is not None else [(P, 0, b'', 0xffffffff, [])]
    outs = outs if outs is not None else [(5000, b'\x76\xa9\x14' + b'\x11' * 20 + b'\x88\xac')]
    return (v, ins, outs, lt, any(i[4] for i in ins))


def gen_cases(rng, tier):
    big = tier == 'thorough'
    cs_ = []
    P = bytes(range(1, 33))
    # ---- boundary stream: counts
    for n in [1, 2, 3, 252, 253, 254] + ([65535, 65536] if big else []):
        tx_case('tx_count_in', 'plain', simple(ins=[(P, k & 0xffffffff, b'', 0xffffffff, []) for k in range(n)]), cs_)
        tx_case('tx_count_out', 'plain', simple(outs=[(k, b'\x51') for k in range(n)]), cs_)
        tx_case('tx_count_wit', 'plain', simple(ins=[(P, 0, b'', 0xffffffff, [b'\x51'] * n)]), cs_)
        tx_case('tx_count_wit', 'plain', simple(ins=[(P, 0, b'', 0xffffffff, [b''] * n)]), cs_)
    # ---- boundary stream: lengths
    for n in [0, 1, 2, 22, 25, 75, 76, 252, 253, 254, 255, 256, 520, 10000, 65534, 65535, 65536] + ([70000] if big else []):
        for fill in ((plain_script(rng, n), rnd(rng, n)) if (big or n < 60000) else (plain_script(rng, n),)):
            tag = 'plain' if fill == b'' or fill[0] in (0x51, 0x52, 0x60, 0x75, 0x76, 0x87, 0x93, 0xac, 0xb1, 0xff, 0) and \
                all(x >= 0x4f or x == 0 for x in fill) else 'non'
            tx_case('tx_len_out', tag, simple(outs=[(1, fill)]), cs_)
            tx_case('tx_len_in', tag, simple(ins=[(P, 0, fill, 0xffffffff, [])]), cs_)
            tx_case('tx_len_wit', tag, simple(ins=[(P, 0, b'', 0xffffffff, [fill])]), cs_)
            tx_case('tx_len_wit', tag, simple(ins=[(P, 0, b'', 0xffffffff, [b'\x51', fill, b''])]), cs_)
    # ---- every one-byte script / witness item
    for b in range(256):
        one = bytes([b])
        tag = 'plain' if (b >= 0x4f or b == 0) else 'non'
        tx_case('tx_byte_out', tag, simple(outs=[(1, one)]), cs_)
        tx_case('tx_byte_in', tag, simple(ins=[(P, 0, one, 0xffffffff, [])]), cs_)
        tx_case('tx_byte_wit', tag, simple(ins=[(P, 0, b'', 0xffffffff, [one])]), cs_)
    # ---- field extremes
    for a in EDGE32:
        for b in EDGE32[::2]:
            tx_case('tx_fields', 'plain', simple(ins=[(P, a, b'', b, [])], v=b, lt=a), cs_)
            tx_case('tx_fields', 'plain', simple(ins=[(P, b, b'', a, [b'\x51'])], v=a, lt=b), cs_)
    for val in [0, 1, 0xffffffff, 1 << 32, 21 * 10 ** 14, (1 << 63) - 1, 1 << 63, (1 << 64) - 1]:
        tx_case('tx_fields', 'plain', simple(outs=[(val, b'\x51')]), cs_)
    # ---- the recorded classes, a few each (also as second output / second input)
    tx_case('tx_class', 'plain', simple(outs=[(1, b'\x51'), (2, b'\x00')]), cs_)
    tx_case('tx_class', 'plain', simple(ins=[(P, 0, b'', 1, [b'\x51', b'\x00'])]), cs_)
    tx_case('tx_class', 'plain', simple(ins=[(P, 0, b'\x00', 1, []), (P, 1, b'', 2, [b'\x52'])]), cs_)
    tx_case('tx_class', 'non', simple(outs=[(1, b'ab')]), cs_)
    tx_case('tx_class', 'non', simple(outs=[(1, b'12 34\n')]), cs_)
    tx_case('tx_class', 'non', simple(ins=[(b'0123456789abcdefABCDEF0123456789'[::-1], 0, b'', 1, [])]), cs_)
    tx_case('tx_class', 'non', simple(ins=[(P, 0, b'\x51', 1, [b'\x52'])]), cs_)
    for sw in (False, True):
        for _ in range(8 if big else 3):
            tx_case('tx_coinbase', 'std', coinbase_tx(rng, sw), cs_)
    # segwit flag without any witness (outside the protocol domain; the library accepts and re-writes it)
    cs_.append(Case('tx_superfluous', 'tx non ' + o_ser((1, [(P, 0, b'', 5, [])], [(1, b'\x51')], 0, True)).hex()))
    # ---- structured stream
    nrand = 15000 if big else 1100
    for k in range(nrand):
        kind = ('std', 'plain', 'non')[k % 3]
        tx_case('tx_' + kind, kind, rnd_tx(rng, kind), cs_)
    # ---- mutated stream: trailing bytes, non-canonical CompactSize, odd flag, truncation
    for k in range(400 if big else 60):
        t = rnd_tx(rng, 'plain')
        raw = o_ser(t)
        cs_.append(Case('tx_trailing', 'tx non ' + (raw + rnd(rng, rng.randrange(1, 5))).hex()))
        if not t[4]:
            cs_.append(Case('tx_noncanon', 'tx non ' + (raw[:4] + b'\xfd' + bytes([len(t[1]), 0]) + raw[5:]).hex()))
        else:
            cs_.append(Case('tx_flag', 'tx non ' + (raw[:5] + bytes([rng.choice([0, 2, 3, 0x81])]) + raw[6:]).hex()))
        cut = rng.randrange(5, len(raw))
        cs_.append(Case('tx_trunc', 'tx non ' + raw[:cut].hex()))
    # ---- API-built transactions
    for k in range(3000 if big else 250):
        kd = ('plain', 'std', 'non')[k % 3]
        t = rnd_tx(rng, kd)
        # add_output refuses a non-zero OP_RETURN output; Input() reads a two-item stack as signature + key
        t = (t[0], [(i[0], i[1], i[2], i[3], i[4] + [b'\x51'] if (kd == 'plain' and len(i[4]) == 2) else i[4]) for i in t[1]],
             [((0 if s[:1] == b'\x6a' else v), s) for v, s in t[2]], t[3], t[4])
        if k % 7 == 0:
            t = (0,) + t[1:]
        if k % 11 == 0:
            t = t[:4] + (True,)             # witness_type segwit although nothing carries a witness
        cs_.append(Case('api_' + kd if kd == 'non' else 'api', 'api ' + tok_tx(t)))
    cs_.append(Case('api', 'api ' + tok_tx(simple(ins=[(P, 0, b'\x00', 0xffffffff, [])]))))
    cs_.append(Case('api', 'api ' + tok_tx(simple(ins=[(P, 0, b'', 0xffffffff, [b'', b'\x00'])]))))
    cs_.append(Case('api', 'api ' + tok_tx(simple(outs=[(1, b'\x00')]))))
    cs_.append(Case('api', 'api ' + tok_tx(simple(outs=[(1 << 64, b'\x51')]))))
    cs_.append(Case('api', 'api ' + tok_tx(simple(outs=[(1, b'ab')]))))
    # ---- target: every exponent x boundary mantissas
    for e in range(0, 36):
        for m in [0, 1, 0xff, 0x100, 0xffff, 0x10000, 0x123456, 0x7fffff, 0x800000, 0xffffff]:
            cs_.append(Case('target', 'target %d' % ((e << 24) | m)))
    for bits in (0x1d00ffff, 0x1b0404cb, 0x170b8c8b, 0x207fffff, 0xffffffff):
        cs_.append(Case('target', 'target %d' % bits))
    # ---- blocks
    def block(nt, hdr=None, kinds=('std', 'plain')):
        txs = [coinbase_tx(rng, rng.random() < 0.5)]
        for _ in range(nt - 1):
            kd = rng.choice(kinds)
            txs.append(rnd_tx(rng, kd))
        v, bits, nonce = hdr or (rng.choice([1, 2, 0x20000000, 0x3fffe000]), rng.choice([0x1d00ffff, 0x1b0404cb, 0x170b8c8b]),
                                 rng.getrandbits(32))
        raw = v.to_bytes(4, 'little') + rnd(rng, 32) + rnd(rng, 32) + rng.getrandbits(32).to_bytes(4, 'little') + \
            bits.to_bytes(4, 'little') + nonce.to_bytes(4, 'little') + cs(len(txs)) + b''.join(o_ser(t) for t in txs)
        return Case('block', 'block ' + raw.hex())
    # half of the blocks hold only transactions outside the script-layer classes, so that nothing about them
    # is excused by a recorded class
    for k, nt in enumerate([1, 2, 3, 5, 10, 25, 50] + ([252, 253] if big else [])):
        cs_.append(block(nt, kinds=('plain',) if k % 2 == 0 else ('std', 'plain')))
    for k in range(200 if big else 25):
        cs_.append(block(rng.randrange(1, 51 if big else 12), kinds=('plain',) if k % 2 == 0 else ('std', 'plain')))
    cs_.append(block(2, hdr=(0x30303030, 0x1d00ffff, 7)))       # version bytes read as text
    cs_.append(block(2, hdr=(2, 0x1d00ffff, 0x20202020)))       # nonce bytes read as text
    cs_.append(block(2, hdr=(2, 0x02008000, 1)))                # exponent below 3
    cs_.append(block(2, hdr=(0, 0, 0)))
    cs_.append(block(2, hdr=(0xffffffff, 0x1d00ffff, 0xffffffff)))
    return cs_


# ---------------------------------------------------------------- verdicts
def is_trivial(c, out):
    if c.req.startswith('tx '):
        return 'S:ERR' in out and 'L:ERR' in out
    return out.startswith('ERR')


def split_tx_out(out):
    entry = ' ENTRY-DIFFER' in out
    out = out.split(' ENTRY-DIFFER')[0]
    s, l = out[2:].split(' L:', 1)
    return s, l, entry


def check_parsed(part, raw, t, what):
    if part.startswith('ERR'):
        return '%s: rejected (%s)' % (what, part)
    r, txid, fields = part.split(' ')
    if r != hx(raw):
        return '%s: raw() differs from the parsed bytes (%d -> %d bytes)' % (what, len(raw), len(unhx(r)) if r != 'ERR' else -1)
    if txid != o_txid(t):
        return '%s: txid %s, double-SHA256 of the stripped serialization is %s' % (what, txid, o_txid(t))
    return None


def prop_check(c, out):
    if out.startswith('CRASH') or out == 'BADREQ':
        return 'unexpected answer %r' % out[:100]
    tk = c.req.split(' ')
    if tk[0] == 'tx':
        raw = unhx(tk[2])
        t = o_parse(raw)
        if t is None or not t[2]:
            return None                       # not a well-formed transaction: the statement is silent
        s, l, entry = split_tx_out(out)
        if entry:
            return 'parse / parse_hex / parse_bytes / raw_hex disagree'
        if s.startswith('ERR'):
            if tk[1] == 'std':
                return 'Transaction.parse(strict=True) rejects a standard transaction (%s)' % s
            v = None                          # documented refusal of what strict mode does not understand
        else:
            v = check_parsed(s, raw, t, 'Transaction.parse(raw)')
        return v or check_parsed(l, raw, t, 'Transaction.parse(raw, strict=False)')
    if tk[0] == 'api':
        if out.startswith('ERR'):
            return None                       # the API declined to build it: nothing was serialized
        r, fields = out.split(' ')
        t = o_parse(unhx(r))
        if t is None:
            return 'independent parser rejects the bytes of an API-built transaction'
        if tok_tx(t) != fields:
            return 'independent parser reads fields that differ from the object that produced the bytes'
        return None
    if tk[0] == 'target':
        bits = int(tk[1])
        if (bits >> 24) < 3 or bits & 0x00800000:
            return None if out == str(o_target(bits)) else 'target of bits %#x is %s, SetCompact gives %d' % (bits, out[:40], o_target(bits))
        return None if out == str(o_target(bits)) else 'target of bits %#x is %s, expected %d' % (bits, out[:40], o_target(bits))
    if tk[0] == 'block':
        raw = unhx(tk[1])
        f = o_parse_block(raw)
        if f is None:
            return None
        first, second = out.split(' D:', 1)
        if first == 'ERR':
            return 'Block.parse_bytes(parse_transactions=True) rejects a well-formed block'
        p = first.split(' ')
        if p[0] != hx(raw):
            return 'Block.serialize() differs from the parsed bytes'
        want = [f['hash'], str(f['version']), f['prev'], f['merkle'], str(f['time']), str(f['bits']), str(f['nonce'])]
        if p[1:8] != want:
            return 'block header fields / hash not recovered exactly'
        if not (f['bits'] & 0x00800000) and p[8] != str(o_target(f['bits'])):
            return 'block target %s, SetCompact gives %d' % (p[8][:40], o_target(f['bits']))
        if p[9] != str(f['count']):
            return 'tx_count %s, expected %d' % (p[9], f['count'])
        ids = ','.join(o_txid(t) for t in f['txs'])
        if p[10] != ids:
            return 'transaction ids of the parsed block differ'
        if second == 'ERR':
            return 'parse_transactions_dict fails on a well-formed block'
        d = second.split(' ')
        if d[0] != ids:
            return 'parse_transactions_dict: transaction ids differ'
        if d[1] != hx(b''.join(f['spans'])):
            return 'parse_transactions_dict: rawtx bytes differ'
        return None
    return None


def case_classes(c):
    tk = c.req.split(' ')
    try:
        if tk[0] == 'tx':
            t = o_parse(unhx(tk[2]))
            return tx_classes(t) if t else set()
        if tk[0] == 'api':
            t = tx_of_tok(tk[1])
            cl = tx_classes(t)
            if any(len(i[4]) == 2 for i in t[1]):
                cl.add('script_layer_rebuild')     # Input() reads a two-item stack as signature + key
            if t[4] and not any(i[4] for i in t[1]):
                cl.add('segwit_flag_without_witness')
            return cl
        if tk[0] == 'block':
            f = o_parse_block(unhx(tk[1]))
            return block_classes(f) if f else set()
        if tk[0] == 'target':
            bits = int(tk[1])
            return {'target_outside_domain'} if ((bits >> 24) < 3 or bits & 0x00800000) else set()
    except Exception:
        pass
    return set()


def _norm(part):
    return 'ERR' if part.startswith('ERR') else part


def same(c, io, mo):
    tk = c.req.split(' ')
    blind = bool(case_classes(c) & MODEL_BLIND)
    if tk[0] == 'tx':
        main, spec = mo.rsplit(' SPEC:', 1)
        raw = unhx(tk[2])
        t = o_parse(raw)
        # the extracted protocol parser / Gallina SHA-256 against the Python oracle / hashlib
        if (spec != 'reject' and spec != 'trailing') != (t is not None) or (t is not None and spec != o_txid(t) + ':1'):
            return False
        s, l, entry = split_tx_out(io)
        if blind:
            # the object's bookkeeping fields (e.g. witnesses filled in for a legacy P2PKH input) are the script
            # layer's business: compare bytes and id only
            cut = lambda x: ' '.join(x.split(' ')[:2])
            s, l, main = cut(_norm(s)), cut(_norm(l)), cut(main)
        ok_l = _norm(l) == main
        ok_s = _norm(s) == main or (_norm(s) == 'ERR' and tk[1] != 'std')
        if c.kind == 'tx_trunc' and main == 'ERR':
            return True                       # short reads are outside the model
        if ok_l and ok_s:
            return True
        return blind and prop_check(c, io) is not None
    if tk[0] == 'api':
        m = mo.split(' P:')[0]
        if _norm(io) == m:
            return True
        if io.startswith('ERR') and (blind or c.kind == 'api_non'):
            return True                       # constructor refuses what its script layer does not understand
        return blind                          # the byte-level model does not predict what Input() re-assembles
    if tk[0] == 'target':
        return io.split(':')[0] == mo.split(' ')[0]
    if tk[0] == 'block':
        m, spec = mo.rsplit(' SPEC:', 1)
        f = o_parse_block(unhx(tk[1]))
        if f is not None:
            want = ':'.join([f['hash'], str(o_target(f['bits'])), '1', ','.join(o_txid(t) for t in f['txs'])])
            if spec != want:
                return False
        if io == m:
            return True
        return blind and prop_check(c, io) is not None
    return io == mo


def _in_class(name):
    return lambda c, io, mo: name in case_classes(c)


KNOWN_CLASSES = {
    'single_zero_byte_item': _in_class('single_zero_byte_item'),
    'ascii_hex_bytes': _in_class('ascii_hex_bytes'),
    'scriptsig_and_witness': _in_class('scriptsig_and_witness'),
    'script_layer_rebuild': _in_class('script_layer_rebuild'),
    'malformed_scriptsig': _in_class('malformed_scriptsig'),
    'segwit_flag_without_witness': _in_class('segwit_flag_without_witness'),
    'target_outside_domain': _in_class('target_outside_domain'),
}


def reproduce_known(entry, rundir):
    from core import run_impl
    rc, out, err = run_impl(IMPL, [entry['witness']['request']], rundir)
    return len(out) == 1 and out[0] == entry['witness']['impl_answer']
