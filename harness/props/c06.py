"""C06 — transaction and block serialization round-trips byte-for-byte; ids are exact."""
import hashlib
from core import Case

PROP = 'C06'
COQ_FILES = ['Extract/C06.v', 'Glue/WireGlue.v', 'Properties/C06.v']
TIE_FILES = ['Properties/TieBlocks.v']
DRIVER = 'c06'
IMPL = 'harness/impl/c06_impl.py'
ALLOWED_AXIOMS = []
ASSUMPTIONS = [
    'theorems are about coq/Model/TxCodec.v, Model/BlockCodec.v and Model/TxStrict.v: spec_* written from the protocol '
    '(BIP144, Core serialize.h, SetCompact), lib_* mirroring transactions.py / blocks.py / encoding.py at the byte level',
    'the script-interpreting layer of the real parser (Script.parse_bytes, Input.update_scripts) is the identity on '
    'bytes in the byte-level model; it is compared with the implementation by the correspondence only (standard input '
    'kinds and random non-standard scripts); where it is not the identity the case falls in a recorded class',
    'the REFUSALS of that layer (Model/TxStrict.v: ScriptError for an undecodable signature-shaped item or a short push '
    'in strict mode, the bare-multisig count check in both modes, keys never checked) re-use the Script.parse_bytes '
    'model of C18 (Model/Wire.v) and the DER decoder model of C13 (Model/Der.v); they are validated by the '
    'correspondence on the shaped-data stream (tag shp: standard script forms whose pushed data imitates keys / '
    'signatures), where strict and non-strict refusal must be exactly as predicted; TransactionError "Unknown '
    'unlocking script type" of Input.update_scripts is not modelled',
    'strict=True parsing may refuse a well-formed transaction it does not understand (documented); a refusal of a '
    'random non-standard transaction (tags non, plain) is not counted as a failure; a refusal of a standard form (tags '
    'std, shp) is, unless the case lies in a recorded class; an accepted transaction must round-trip',
    'truncated inputs (a read past the end of the buffer) are outside the model: lib_parse returns None there; in a '
    'session of reader calls a transaction read at the end of the stream (reachable only after parse_transaction_dict) '
    'is outside the model as well',
    'SHA-256 is the executable Gallina transcription Crypto/Sha256.v, cross-checked against hashlib on every case',
    'block theorems: header codec, hash, target; sequences of reader calls on one Block object are proved equal to a '
    'cursor over the block\'s own transactions (block_reader_session_exact) for blocks of well-formed transactions '
    'outside the recorded byte-level classes; the reader code itself is tied to the model by the correspondence '
    '(sessions of 3..12 calls on one object), not by translation',
    'target: the number a compact value with the sign bit 0x00800000 on a non-zero mantissa encodes is taken to be '
    'negative (SetCompact pfNegative); the recorded class target_outside_domain excuses exactly the documented answer of '
    'the library there (24-bit coefficient read as positive; float below exponent 3), nothing else',
]
RULE = ('boundary streams (every CompactSize form change for input/output/witness counts and script/item lengths, all '
        '256 one-byte scripts and witness items, field extremes), structured stream of standard input kinds and random '
        'non-standard scripts built bottom-up, API-built transactions, the same fields handed to the API in every '
        'argument form (witness stack as list / tuple / hex strings / ONE bytes string in raw-transaction form, prev_txid '
        'and scripts as bytes / hex, numbers as int / bytes, add_input+add_output / Input+Output objects) with witness '
        'items on both sides of every CompactSize prefix size in every stack position; segwit coinbases with every '
        'shape of witness reserved value (truncated pushes, pushdata prefixes, complete pushes, opcode- / text- / '
        'program-looking bytes, other stack sizes) alone, in blocks and in reader sessions; '
        'mutated/malformed stream, blocks of 1..50 '
        'transactions, exhaustive exponent x boundary mantissa (sign bit clear and set) for target; shaped-data stream: '
        'every standard script position (P2PKH / P2PK / P2SH-multisig scriptSig, P2WPKH / P2SH-P2WPKH / P2WSH witness, '
        'P2PK / bare multisig / OP_RETURN outputs, redeem scripts) filled with key-shaped pushes that are no curve points '
        '(no point for x, x >= p, wrong y, data) and, once recorded, signature-shaped pushes that are no DER signatures; '
        'sessions: systematic and random sequences of reader calls on one Block object (every entry point, '
        'parse_transactions with limit 0 / below / equal / above the count, both dictionary readers, serialize) judged '
        'after every call; a case is non-trivial when the implementation parses/builds it; distinct by request')
IMPL_TIMEOUT = 9000     # thorough tier: a witness stack of 65535 items costs the library ~10 minutes per parse


# ---------------------------------------------------------------- independent oracle, written from the protocol
# transaction = (version, ins, outs, locktime, segwit); in = (prev_wire32, vout, script, seq, [items]); out = (value, script)

def cs(n):
    if n < 253:
        return bytes([n])
    if n <= 0xffff:
        return b'\xfd' + n.to_bytes(2, 'little')
    if n <= 0xffffffff:
        return b'\xfe' + n.to_bytes(4, 'little')
    return b'\xff' + n.to_bytes(8, 'little')


def o_ser(t, witness=True):
    v, ins, outs, lt, sw = t
    sw = sw and witness
    r = v.to_bytes(4, 'little')
    if sw:
        r += b'\x00\x01'
    r += cs(len(ins))
    for (p, n, s, q, w) in ins:
        r += p + n.to_bytes(4, 'little') + cs(len(s)) + s + q.to_bytes(4, 'little')
    r += cs(len(outs))
    for (val, s) in outs:
        r += val.to_bytes(8, 'little') + cs(len(s)) + s
    if sw:
        for (p, n, s, q, w) in ins:
            r += cs(len(w)) + b''.join(cs(len(x)) + x for x in w)
    return r + lt.to_bytes(4, 'little')


def dsha(b):
    return hashlib.sha256(hashlib.sha256(b).digest()).digest()


def o_txid(t):
    return dsha(o_ser(t, False))[::-1].hex()


class Bad(Exception):
    pass


class Rd:
    def __init__(self, b, pos=0):
        self.b, self.p = b, pos

    def take(self, n):
        if n < 0 or self.p + n > len(self.b):
            raise Bad('short')
        r = self.b[self.p:self.p + n]
        self.p += n
        return r

    def u(self, n):
        return int.from_bytes(self.take(n), 'little')

    def cs(self):
        f = self.u(1)
        if f < 253:
            return f
        k, lo = {253: (2, 253), 254: (4, 0x10000), 255: (8, 0x100000000)}[f]
        v = self.u(k)
        if v < lo:
            raise Bad('non-canonical CompactSize')
        return v

    def var(self):
        n = self.cs()
        return self.take(n)


def o_parse_at(r):
    v = r.u(4)
    sw = False
    if r.b[r.p:r.p + 1] == b'\x00':
        if r.b[r.p + 1:r.p + 2] != b'\x01':
            raise Bad('marker without flag 01')
        r.p += 2
        sw = True
    n = r.cs()
    if n > len(r.b) - r.p:
        raise Bad('count')
    ins = []
    for _ in range(n):
        p = r.take(32)
        vo = r.u(4)
        s = r.var()
        q = r.u(4)
        ins.append([p, vo, s, q, []])
    n = r.cs()
    if n > len(r.b) - r.p:
        raise Bad('count')
    outs = []
    for _ in range(n):
        val = r.u(8)
        outs.append((val, r.var()))
    if sw:
        for i in ins:
            k = r.cs()
            if k > len(r.b) - r.p:
                raise Bad('count')
            i[4] = [r.var() for _ in range(k)]
        if not any(i[4] for i in ins):
            raise Bad('superfluous witness record')
    lt = r.u(4)
    return (v, [tuple(i) for i in ins], outs, lt, sw)


def o_parse(raw):
    """strict parser: None unless raw is exactly one well-formed transaction"""
    try:
        r = Rd(raw)
        t = o_parse_at(r)
        if r.p != len(raw) or not t[1]:
            return None
        return t
    except Bad:
        return None


def o_target(bits):
    """arith_uint256::SetCompact: the magnitude"""
    size, word = bits >> 24, bits & 0x007fffff
    return word >> (8 * (3 - size)) if size <= 3 else word << (8 * (size - 3))


def o_target_signed(bits):
    """the number the compact form encodes: SetCompact's magnitude, negative when the sign bit 0x00800000 is set on a
    non-zero mantissa (pfNegative); Bitcoin Core refuses such a header, a positive number is never its target"""
    neg = (bits & 0x007fffff) != 0 and (bits & 0x00800000) != 0
    return -o_target(bits) if neg else o_target(bits)


def lib_target_documented(bits, as_block=False):
    """what the recorded finding target_outside_domain says the library answers outside the domain: the 24 bits after
    the exponent taken as a non-negative coefficient; coefficient * 256 ** (exponent - 3) is a float for exponent < 3"""
    e, m = bits >> 24, bits & 0x00ffffff
    if e < 3:
        return 'FLOAT' if as_block else 'FLOAT:' + float(m * 256 ** (e - 3)).hex()
    return str(m * 256 ** (e - 3))


def o_parse_block(raw):
    try:
        r = Rd(raw)
        hdr = r.take(80)
        h = Rd(hdr)
        f = dict(version=h.u(4), prev=h.take(32)[::-1].hex(), merkle=h.take(32)[::-1].hex(), time=h.u(4), bits=h.u(4),
                 nonce=h.u(4), hash=dsha(hdr)[::-1].hex())
        n = r.cs()
        if n > len(raw):
            return None
        txs, spans = [], []
        for _ in range(n):
            a = r.p
            txs.append(o_parse_at(r))
            spans.append(raw[a:r.p])
        if r.p != len(raw):
            return None
        f.update(txs=txs, spans=spans, count=n)
        return f
    except Bad:
        return None


def hx(b):
    return b.hex() if b else '-'


def unhx(s):
    return b'' if s == '-' else bytes.fromhex(s)


def tok_in(i, held=False):
    w = [(b'\x00' if (held and x == b'') else x) for x in i[4]]
    return ':'.join([hx(i[0][::-1]), str(i[1]), hx(i[2]), str(i[3]), ','.join(hx(x) for x in w)])


def tok_tx(t, held=False):
    """held=True: as the library's object holds a parsed transaction (an empty witness item is b'\\0')"""
    return ';'.join([str(t[0]), str(t[3]), '1' if t[4] else '0', '|'.join(tok_in(i, held) for i in t[1]) or '-',
                     '|'.join('%d:%s' % (v, hx(s)) for v, s in t[2]) or '-'])


def tx_of_tok(f):
    v, lt, sw, ins, outs = f.split(';')
    li = []
    for s in ([] if ins == '-' else ins.split('|')):
        p, n, sc, q, w = s.split(':')
        li.append((unhx(p)[::-1], int(n), unhx(sc), int(q), [] if w == '' else [unhx(x) for x in w.split(',')]))
    lo = []
    for s in ([] if outs == '-' else outs.split('|')):
        val, sc = s.split(':')
        lo.append((int(val), unhx(sc)))
    return (int(v), li, lo, int(lt), sw == '1')


# ---------------------------------------------------------------- classes (decided from the case alone)
def hexlike(b):
    if not b:
        return False
    try:
        bytes.fromhex(b.decode())
        return True
    except (ValueError, UnicodeDecodeError):
        return False


def pushes(s, depth=2):
    """data items of a script read leniently, with the items of nested scripts (redeem / witness scripts)"""
    out, i = [], 0
    while i < len(s):
        op = s[i]
        i += 1
        if 1 <= op <= 75:
            n = op
        elif op == 76 and i + 1 <= len(s):
            n = s[i]
            i += 1
        elif op == 77 and i + 2 <= len(s):
            n = int.from_bytes(s[i:i + 2], 'little')
            i += 2
        else:
            continue
        d = s[i:i + n]
        i += n
        out.append(d)
        if depth > 1 and len(d) > 33:
            out += pushes(d, depth - 1)
    return out


def truncated_push(s):
    i = 0
    while i < len(s):
        op = s[i]
        i += 1
        if 1 <= op <= 75:
            n = op
        elif op == 76:
            if i + 1 > len(s):
                return True
            n = s[i]
            i += 1
        elif op == 77:
            if i + 2 > len(s):
                return True
            n = int.from_bytes(s[i:i + 2], 'little')
            i += 2
        elif op == 78:
            if i + 4 > len(s):
                return True
            n = int.from_bytes(s[i:i + 4], 'little')
            i += 4
        else:
            continue
        if i + n > len(s):
            return True
        i += n
    return False


def sigkey_shaped(d):
    n = len(d)
    return (d[:1] == b'\x30' and 69 <= n <= 74) or (d[:1] in (b'\x02', b'\x03') and n == 33) or (d[:1] == b'\x04' and n == 65)


def is_wp_push(s):
    return (len(s) == 23 and s[:3] == b'\x16\x00\x14') or (len(s) == 35 and s[:3] == b'\x22\x00\x20')


def tx_classes(t):
    """recorded classes a well-formed transaction falls in (parse direction)"""
    c = set()
    v, ins, outs, lt, sw = t
    if any(s == b'\x00' for _, s in outs) or any(w == b'\x00' for i in ins for w in i[4]):
        c.add('single_zero_byte_item')
    if any(hexlike(s) for _, s in outs) or any(hexlike(i[2]) or hexlike(i[0][::-1]) for i in ins):
        c.add('ascii_hex_bytes')
    if any(i[2] and i[4] and not is_wp_push(i[2]) and i[0] != b'\x00' * 32 for i in ins):
        c.add('scriptsig_and_witness')
    for i in ins:
        if i[0] != b'\x00' * 32 and truncated_push(i[2]):
            c.add('malformed_scriptsig')
        items = list(i[4])
        for w in i[4]:
            if len(w) > 33:
                items += pushes(w, 1)
        if i[0] != b'\x00' * 32:
            items += pushes(i[2])
        if any(sigkey_shaped(d) for d in items):
            c.add('script_layer_rebuild')
    if undecodable_sig_items(t):
        c.add('strict_refuses_signature_shaped')
    if any(multisig_mismatch(sc) for _, sc in outs):
        c.add('multisig_count_mismatch')
    return c


def block_classes(f):
    c = set()
    for t in f['txs']:
        c |= tx_classes(t)
    hd = [f['version'].to_bytes(4, 'big'), bytes.fromhex(f['prev']), bytes.fromhex(f['merkle']),
          f['bits'].to_bytes(4, 'big'), f['nonce'].to_bytes(4, 'big')]
    if any(hexlike(x) for x in hd):
        c.add('ascii_hex_bytes')
    if (f['bits'] >> 24) < 3 or (f['bits'] & 0x00800000):
        c.add('target_outside_domain')
    return c


# the byte-level model does not predict these (the script layer's refusals are predicted by Model/TxStrict.v on the
# shaped-data stream only)
MODEL_BLIND = {'scriptsig_and_witness', 'script_layer_rebuild', 'malformed_scriptsig', 'multisig_count_mismatch'}


# ---------------------------------------------------------------- generators
G1 = bytes.fromhex('0279be667ef9dcbbac55a06295ce870b07029bfcdb2dce28d959f2815b16f81798')
G2 = bytes.fromhex('02c6047f9441ed7d6d3045406e95c07cd85c778e4b8cef3ca7abac09b95c709ee5')
G3 = bytes.fromhex('03f9308a019258c31049344f85f89d5229b531c845836f99b08601f113bce036f9')
GU = bytes.fromhex('0479be667ef9dcbbac55a06295ce870b07029bfcdb2dce28d959f2815b16f81798'
                   '483ada7726a3c4655da4fbfc0e1108a8fd17b448a68554199c47d08ffb10d4b8')
KEYS = [G1, G2, G3]
EDGE32 = [0, 1, 2, 0x7fffffff, 0x80000000, 0xfffffffd, 0xfffffffe, 0xffffffff]


def push(d):
    n = len(d)
    if n < 76:
        return bytes([n]) + d
    if n < 256:
        return b'\x4c' + bytes([n]) + d
    return b'\x4d' + n.to_bytes(2, 'little') + d


def h160(b):
    return hashlib.new('ripemd160', hashlib.sha256(b).digest()).digest()


def rnd(rng, n):
    return bytes(rng.randrange(256) for _ in range(n))


def der_sig(rng):
    def enc(x):
        b = x.to_bytes(32, 'big').lstrip(b'\x00')
        if b[0] & 0x80:
            b = b'\x00' + b
        return b'\x02' + bytes([len(b)]) + b
    r = rng.randrange(1 << 252, 1 << 256)
    s = rng.randrange(1 << 252, 1 << 255)
    body = enc(r) + enc(s)
    return b'\x30' + bytes([len(body)]) + body + bytes([rng.choice([1, 1, 1, 2, 3, 0x81, 0x83])])


def rnd_prev(rng):
    p = rnd(rng, 32)
    while hexlike(p[::-1]) or p == b'\x00' * 32:
        p = rnd(rng, 32)
    return p


def e32(rng):
    return rng.choice(EDGE32) if rng.random() < 0.5 else rng.getrandbits(32)


def plain_script(rng, n):
    """n bytes of non-push opcodes (nothing for the script layer to interpret, never text-like)"""
    ops = [0x51, 0x52, 0x60, 0x75, 0x76, 0x87, 0x93, 0xac, 0xb1, 0xff, 0x00]
    s = bytes(rng.choice(ops) for _ in range(n))
    if n == 1 and s == b'\x00':
        s = b'\x51'
    return s


def std_out(rng):
    k = rng.randrange(8)
    h20, h32 = rnd(rng, 20), rnd(rng, 32)
    if k == 0:
        return b'\x76\xa9\x14' + h20 + b'\x88\xac'
    if k == 1:
        return b'\xa9\x14' + h20 + b'\x87'
    if k == 2:
        return b'\x00\x14' + h20
    if k == 3:
        return b'\x00\x20' + h32
    if k == 4:
        return b'\x51\x20' + h32
    if k == 5:
        return push(rng.choice(KEYS + [GU])) + b'\xac'
    if k == 6:
        return b'\x6a' + push(rnd(rng, rng.choice([1, 4, 20, 32, 40, 75, 76, 80])))
    return b'\x52' + push(G1) + push(G2) + push(G3) + b'\x53\xae'


def std_in(rng, segwit):
    """(scriptSig, witness) of a standard kind"""
    sig, sig2 = der_sig(rng), der_sig(rng)
    key = rng.choice(KEYS)
    ms = b'\x52' + push(G1) + push(G2) + push(G3) + b'\x53\xae'
    if not segwit:
        k = rng.randrange(4)
        if k == 0:
            return push(sig) + push(rng.choice(KEYS + [GU])), []
        if k == 1:
            return push(sig), []
        if k == 2:
            return b'\x00' + push(sig) + push(sig2) + push(ms), []
        return b'', []                                         # unsigned
    k = rng.randrange(7)
    if k == 0:
        return b'', [sig, key]                                 # p2wpkh
    if k == 1:
        return push(b'\x00\x14' + h160(key)), [sig, key]       # p2sh-p2wpkh
    if k == 2:
        return b'', [b'', sig, sig2, ms]                       # p2wsh multisig
    if k == 3:
        return b'', [rnd(rng, 64)]                             # p2tr key path
    if k == 4:
        return push(sig) + push(key), []                       # legacy input in a segwit transaction
    if k == 5:
        return push(b'\x00\x20' + hashlib.sha256(ms).digest()), [b'', sig, sig2, ms]   # p2sh-p2wsh multisig
    return b'', []


def rnd_tx(rng, kind):
    """kind: 'std' standard kinds, 'plain' opcode-only scripts, 'non' random bytes"""
    segwit = rng.random() < 0.5
    ni = rng.choice([1, 1, 1, 2, 3])
    no = rng.choice([1, 1, 2, 3, 4])
    ins = []
    for _ in range(ni):
        if kind == 'std':
            s, w = std_in(rng, segwit)
        elif kind == 'plain':
            if segwit and rng.random() < 0.6:
                s, w = b'', [plain_script(rng, rng.choice([0, 1, 2, 5, 32, 64, 72, 100])) for _ in range(rng.randrange(0, 6))]
            else:
                s, w = plain_script(rng, rng.choice([0, 1, 2, 22, 25, 75, 76, 107])), []
        else:
            if segwit and rng.random() < 0.6:
                s, w = b'', [rnd(rng, rng.choice([0, 1, 2, 20, 32, 33, 64, 72, 100])) for _ in range(rng.randrange(0, 6))]
            else:
                s, w = rnd(rng, rng.choice([0, 1, 2, 22, 25, 75, 76, 107])), []
        ins.append((rnd_prev(rng), rng.choice([0, 1, rng.getrandbits(32), 0xffffffff]), s, e32(rng), w))
    outs = []
    for _ in range(no):
        if kind == 'std':
            sc = std_out(rng)
        elif kind == 'plain':
            sc = plain_script(rng, rng.choice([1, 2, 22, 25, 34, 75, 76, 200]))
        else:
            sc = rnd(rng, rng.choice([1, 2, 22, 25, 34, 75, 76, 200]))
        outs.append((rng.choice([0, 1, 546, rng.getrandbits(40), 21 * 10 ** 14, (1 << 64) - 1]), sc))
    sw = any(i[4] for i in ins)
    return (e32(rng), ins, outs, e32(rng), sw)


def reserved_values(rng):
    """32-byte witness reserved values of a segwit coinbase (BIP141 leaves the value free; consensus never reads it as a
    script): shapes the script layer of the library could mistake for something — truncated pushes, pushdata prefixes,
    complete pushes, opcode-looking bytes, text, hash-like bytes"""
    k = rng.randrange(1, 0x4c)
    out = [b'\x00' * 32, b'\xaa' * 32, b'\xff' * 32, bytes(range(32)), bytes(range(0x50, 0x70)), rnd(rng, 32),
           b'\x20' + rnd(rng, 31),                                  # a 32-byte push with 31 bytes left
           bytes([k]) + rnd(rng, 31),                               # any direct push: complete or truncated
           b'\x4b' + b'\x01' * 31, b'\x21' + b'\x02' + rnd(rng, 30),  # 'key' push cut short
           plain_script(rng, 31) + bytes([rng.randrange(1, 0x4c)]),  # a push opcode with nothing behind it
           b'\x51' * 30 + b'\x02\x07',                             # a push with one byte missing at the very end
           b'\x4c\xff' + rnd(rng, 30), b'\x4c\x1e' + rnd(rng, 30), b'\x51' * 31 + b'\x4c',    # OP_PUSHDATA1
           b'\x4d\xff\xff' + rnd(rng, 29), b'\x4d\x1d\x00' + rnd(rng, 29), b'\x51' * 30 + b'\x4d\x01',   # OP_PUSHDATA2
           b'\x4e\xff\xff\xff\x7f' + rnd(rng, 27), b'\x4e\x1b\x00\x00\x00' + rnd(rng, 27), b'\x51' * 29 + b'\x4e\x00\x00',
           b'\x1f' + rnd(rng, 31),                                  # exactly one complete push
           b'\x00\x14' + rnd(rng, 20) + b'\x51' * 10, b'\x00\x1e' + rnd(rng, 30),       # witness-program-like
           b'\x6a\x1e' + rnd(rng, 30), b'\x76\xa9\x14' + rnd(rng, 20) + b'\x88\xac' + b'\x61' * 7,
           b'\xc0' + rnd(rng, 31), b'\x50' + rnd(rng, 31), b'\x30\x1e\x02\x0c' + rnd(rng, 12) + b'\x02\x0c' + rnd(rng, 12) + b'\x01\x01',
           b'0123456789abcdefABCDEF0123456789', b'witness reserved value, as text.']
    assert all(len(x) == 32 for x in out)
    return out


def odd_reserved(rng):
    """coinbase witness stacks outside BIP141's single 32-byte item (the wire format does not care)"""
    return [[b''], [rnd(rng, 1).replace(b'\x00', b'\x51')], [rnd(rng, 31)], [b'\x02' + rnd(rng, 31)], [rnd(rng, 64)],
            [b'\x20' + rnd(rng, 31), b'\x00' * 32], [b'\x00' * 32, b'\x20' + rnd(rng, 31)], [b'\x4c' * 32, b'', b'\x4d'],
            [rnd(rng, 300), b'\x4b' + rnd(rng, 31)], [b'\x05' + rnd(rng, 3)], [b'\x51'] * 253]


def coinbase_tx(rng, segwit, reserved=None):
    h = rng.randrange(1, 1 << 24)
    s = push(h.to_bytes(3, 'little')) + rnd(rng, rng.randrange(0, 40))
    w = ([b'\x00' * 32] if reserved is None else list(reserved)) if segwit else []
    outs = [(rng.getrandbits(33), std_out(rng))]
    if segwit:
        outs.append((0, b'\x6a\x24\xaa\x21\xa9\xed' + rnd(rng, 32)))
    return (rng.choice([1, 2]), [(b'\x00' * 32, 0xffffffff, s, 0xffffffff, w)], outs, 0, segwit)


def tx_case(kind, tag, t, cs_):
    cs_.append(Case(kind, 'tx %s %s' % (tag, o_ser(t).hex())))


def simple(ins=None, outs=None, v=1, lt=0):
    P = bytes(range(1, 33))
    ins = ins if ins is not None else [(P, 0, b'', 0xffffffff, [])]
    outs = outs if outs is not None else [(5000, b'\x76\xa9\x14' + b'\x11' * 20 + b'\x88\xac')]
    return (v, ins, outs, lt, any(i[4] for i in ins))


def target_cases(cs_):
    # ---- target: every exponent x boundary mantissas (sign bit 0x00800000 clear and set)
    for bits in (0x1d00ffff, 0x1c80ffff, 0x1dffffff, 0x1b0404cb, 0x170b8c8b, 0x207fffff, 0xffffffff, 0x03800000, 0x04923456):
        cs_.append(Case('target', 'target %d' % bits))
    for e in list(range(3, 36)) + [0, 1, 2]:
        for m in [0, 1, 0xff, 0x100, 0xffff, 0x10000, 0x123456, 0x7fffff, 0x800000, 0x800001, 0x80ffff, 0xffffff]:
            cs_.append(Case('target', 'target %d' % ((e << 24) | m)))


RUN_TIER = [None]          # the tier of the run (set by main); gen_cases(.., 'thorough') inside a quick run is the widening
ESCALATE_CAP = 1500        # cases added from the thorough streams when a proof / tie obligation broke (core.standard_check)


def main(tier, seed, replay):
    import sys
    import core
    RUN_TIER[0] = tier
    return core.standard_check(sys.modules[__name__], tier, seed, replay)


def gen_cases(rng, tier):
    big = tier == 'thorough'
    # widening of a quick run after a broken obligation: the thorough streams without their giant members (counts of
    # 65535 / 65536 entries, 60000+ byte scripts: the quick stream, which is always run, holds the 65534..65536-byte
    # scripts already), cheapest boundary streams first so that they fall in the densely kept head of the sample
    widen = big and RUN_TIER[0] == 'quick'
    cs_ = []
    P = bytes(range(1, 33))
    if widen:
        target_cases(cs_)
    # ---- boundary stream: counts
    # counts of 65535/65536 inputs are left out even in the thorough tier: the extracted reader is quadratic in the count
    # (8000 inputs = 7 min, 65535 would exceed the driver's time limit); the 2-byte boundary is covered for LENGTHS
    # (scripts and witness items of 65534/65535/65536 bytes) and by the CompactSize theorems + source tie themselves
    for n in [1, 2, 3, 252, 253, 254] + ([1000, 3000] if big and not widen else []):
        tx_case('tx_count_in', 'plain', simple(ins=[(P, k & 0xffffffff, b'', 0xffffffff, []) for k in range(n)]), cs_)
        tx_case('tx_count_out', 'plain', simple(outs=[(k, b'\x51') for k in range(n)]), cs_)
        tx_case('tx_count_wit', 'plain', simple(ins=[(P, 0, b'', 0xffffffff, [b'\x51'] * n)]), cs_)
        if n < 65535:
            # (a stack of n EMPTY items costs the library far more than quadratic time: 8000 items take 6 minutes per
            # parse, 65535 would take half a day; the 65535 / 65536 boundary of the item count is crossed with
            # one-byte items only, ~11 minutes per parse)
            tx_case('tx_count_wit', 'plain', simple(ins=[(P, 0, b'', 0xffffffff, [b''] * n)]), cs_)
    # ---- boundary stream: lengths
    for n in [0, 1, 2, 22, 25, 75, 76, 252, 253, 254, 255, 256, 520, 10000] + ([] if widen else [65534, 65535, 65536]) + \
            ([70000] if big and not widen else []):
        for fill in ((plain_script(rng, n), rnd(rng, n)) if (big or n < 60000) else (plain_script(rng, n),)):
            tag = 'plain' if fill == b'' or fill[0] in (0x51, 0x52, 0x60, 0x75, 0x76, 0x87, 0x93, 0xac, 0xb1, 0xff, 0) and \
                all(x >= 0x4f or x == 0 for x in fill) else 'non'
            tx_case('tx_len_out', tag, simple(outs=[(1, fill)]), cs_)
            tx_case('tx_len_in', tag, simple(ins=[(P, 0, fill, 0xffffffff, [])]), cs_)
            tx_case('tx_len_wit', tag, simple(ins=[(P, 0, b'', 0xffffffff, [fill])]), cs_)
            tx_case('tx_len_wit', tag, simple(ins=[(P, 0, b'', 0xffffffff, [b'\x51', fill, b''])]), cs_)
    # ---- every one-byte script / witness item
    for b in range(256):
        one = bytes([b])
        tag = 'plain' if (b >= 0x4f or b == 0) else 'non'
        tx_case('tx_byte_out', tag, simple(outs=[(1, one)]), cs_)
        tx_case('tx_byte_in', tag, simple(ins=[(P, 0, one, 0xffffffff, [])]), cs_)
        tx_case('tx_byte_wit', tag, simple(ins=[(P, 0, b'', 0xffffffff, [one])]), cs_)
    # ---- field extremes
    for a in EDGE32:
        for b in EDGE32[::2]:
            tx_case('tx_fields', 'plain', simple(ins=[(P, a, b'', b, [])], v=b, lt=a), cs_)
            tx_case('tx_fields', 'plain', simple(ins=[(P, b, b'', a, [b'\x51'])], v=a, lt=b), cs_)
    for val in [0, 1, 0xffffffff, 1 << 32, 21 * 10 ** 14, (1 << 63) - 1, 1 << 63, (1 << 64) - 1]:
        tx_case('tx_fields', 'plain', simple(outs=[(val, b'\x51')]), cs_)
    # ---- the recorded classes, a few each (also as second output / second input)
    tx_case('tx_class', 'plain', simple(outs=[(1, b'\x51'), (2, b'\x00')]), cs_)
    tx_case('tx_class', 'plain', simple(ins=[(P, 0, b'', 1, [b'\x51', b'\x00'])]), cs_)
    tx_case('tx_class', 'plain', simple(ins=[(P, 0, b'\x00', 1, []), (P, 1, b'', 2, [b'\x52'])]), cs_)
    tx_case('tx_class', 'non', simple(outs=[(1, b'ab')]), cs_)
    tx_case('tx_class', 'non', simple(outs=[(1, b'12 34\n')]), cs_)
    tx_case('tx_class', 'non', simple(ins=[(b'0123456789abcdefABCDEF0123456789'[::-1], 0, b'', 1, [])]), cs_)
    tx_case('tx_class', 'non', simple(ins=[(P, 0, b'\x51', 1, [b'\x52'])]), cs_)
    for sw in (False, True):
        for _ in range(8 if big else 3):
            tx_case('tx_coinbase', 'std', coinbase_tx(rng, sw), cs_)
    # ---- segwit coinbase: every shape of the witness reserved value (strict mode may refuse what its script layer
    # cannot read: tag non; the block readers and strict=False must give the bytes back)
    for rv in reserved_values(rng):
        tx_case('tx_coinbase_rv', 'std' if rv == b'\x00' * 32 else 'non', coinbase_tx(rng, True, [rv]), cs_)
    for st in odd_reserved(rng):
        tx_case('tx_coinbase_rv', 'non', coinbase_tx(rng, True, st), cs_)
    for _ in range(60 if big else 8):
        b0 = rng.choice([rng.randrange(1, 0x4f), rng.randrange(256)])
        rv = bytes([b0]) + rnd(rng, 31)
        tx_case('tx_coinbase_rv', 'non', coinbase_tx(rng, True, [rv[::-1] if rng.random() < 0.3 else rv]), cs_)
    # segwit flag without any witness (outside the protocol domain; the library accepts and re-writes it)
    cs_.append(Case('tx_superfluous', 'tx non ' + o_ser((1, [(P, 0, b'', 5, [])], [(1, b'\x51')], 0, True)).hex()))
    # ---- structured stream
    nrand = 15000 if big else 1100
    for k in range(nrand):
        kind = ('std', 'plain', 'non')[k % 3]
        tx_case('tx_' + kind, kind, rnd_tx(rng, kind), cs_)
    # ---- mutated stream: trailing bytes, non-canonical CompactSize, odd flag, truncation
    for k in range(400 if big else 60):
        t = rnd_tx(rng, 'plain')
        raw = o_ser(t)
        cs_.append(Case('tx_trailing', 'tx non ' + (raw + rnd(rng, rng.randrange(1, 5))).hex()))
        if not t[4]:
            cs_.append(Case('tx_noncanon', 'tx non ' + (raw[:4] + b'\xfd' + bytes([len(t[1]), 0]) + raw[5:]).hex()))
        else:
            cs_.append(Case('tx_flag', 'tx non ' + (raw[:5] + bytes([rng.choice([0, 2, 3, 0x81])]) + raw[6:]).hex()))
        cut = rng.randrange(5, len(raw))
        cs_.append(Case('tx_trunc', 'tx non ' + raw[:cut].hex()))
    # ---- API-built transactions
    for k in range(3000 if big else 250):
        kd = ('plain', 'std', 'non')[k % 3]
        t = rnd_tx(rng, kd)
        # add_output refuses a non-zero OP_RETURN output; Input() reads a two-item stack as signature + key
        t = (t[0], [(i[0], i[1], i[2], i[3], i[4] + [b'\x51'] if (kd == 'plain' and len(i[4]) == 2) else i[4]) for i in t[1]],
             [((0 if s[:1] == b'\x6a' else v), s) for v, s in t[2]], t[3], t[4])
        if k % 7 == 0:
            t = (0,) + t[1:]
        if k % 11 == 0:
            t = t[:4] + (True,)             # witness_type segwit although nothing carries a witness
        cs_.append(Case('api_' + kd if kd == 'non' else 'api', 'api ' + tok_tx(t)))
    cs_.append(Case('api', 'api ' + tok_tx(simple(ins=[(P, 0, b'\x00', 0xffffffff, [])]))))
    cs_.append(Case('api', 'api ' + tok_tx(simple(ins=[(P, 0, b'', 0xffffffff, [b'', b'\x00'])]))))
    cs_.append(Case('api', 'api ' + tok_tx(simple(outs=[(1, b'\x00')]))))
    cs_.append(Case('api', 'api ' + tok_tx(simple(outs=[(1 << 64, b'\x51')]))))
    cs_.append(Case('api', 'api ' + tok_tx(simple(outs=[(1, b'ab')]))))
    # ---- API-built transactions, the arguments in their alternative forms
    gen_api_forms(rng, big, cs_, big and not widen)
    if not widen:
        target_cases(cs_)
    # ---- pushed data imitating keys / signatures, in every position of the standard forms
    gen_shaped(rng, big, cs_)
    # ---- blocks
    shp_pool = [t for _, t in shaped_txs(rng, [], bad_keys(rng), True)]

    rvs = reserved_values(rng)

    def block(nt, hdr=None, kinds=('std', 'plain'), cb=None):
        txs = [cb or coinbase_tx(rng, rng.random() < 0.5, [rng.choice(rvs)] if rng.random() < 0.7 else None)]
        for _ in range(nt - 1):
            kd = rng.choice(kinds)
            txs.append(rng.choice(shp_pool) if kd == 'shp' else rnd_tx(rng, kd))
        v, bits, nonce = hdr or (rng.choice([1, 2, 0x20000000, 0x3fffe000]), rng.choice([0x1d00ffff, 0x1b0404cb, 0x170b8c8b]),
                                 rng.getrandbits(32))
        raw = v.to_bytes(4, 'little') + rnd(rng, 32) + rnd(rng, 32) + rng.getrandbits(32).to_bytes(4, 'little') + \
            bits.to_bytes(4, 'little') + nonce.to_bytes(4, 'little') + cs(len(txs)) + b''.join(o_ser(t) for t in txs)
        return Case('block', 'block ' + raw.hex())
    # half of the blocks hold only transactions outside the script-layer classes, so that nothing about them
    # is excused by a recorded class
    for k, nt in enumerate([1, 2, 3, 5, 10, 25] + ([] if widen else [50]) + ([252, 253] if big and not widen else [])):
        cs_.append(block(nt, kinds=('plain',) if k % 2 == 0 else ('std', 'plain')))
    for k in range(200 if big else 25):
        cs_.append(block(rng.randrange(1, 51 if big and not widen else 12), kinds=('plain',) if k % 2 == 0 else ('std', 'plain')))
    cs_.append(block(2, hdr=(0x30303030, 0x1d00ffff, 7)))       # version bytes read as text
    cs_.append(block(2, hdr=(2, 0x1d00ffff, 0x20202020)))       # nonce bytes read as text
    cs_.append(block(2, hdr=(2, 0x02008000, 1)))                # exponent below 3
    cs_.append(block(2, hdr=(0, 0, 0)))
    cs_.append(block(2, hdr=(0xffffffff, 0x1d00ffff, 0xffffffff)))
    cs_.append(block(2, hdr=(2, 0x1c80ffff, 1), kinds=('plain',)))     # sign bit of the compact target set
    cs_.append(block(3, hdr=(1, 0x1dffffff, 2), kinds=('plain',)))
    for k in range(20 if big else 3):
        cs_.append(block(rng.randrange(2, 9), kinds=('shp', 'plain')))   # key-shaped data that is no curve point
    # every shape of the coinbase's witness reserved value, through both block readers
    for j, rv in enumerate(reserved_values(rng)):
        if big or j % 2 == 0 or 6 <= j <= 11:
            cs_.append(block(rng.randrange(1, 4), kinds=('plain',), cb=coinbase_tx(rng, True, [rv])))
    for st in odd_reserved(rng)[::(1 if big else 3)]:
        cs_.append(block(2, kinds=('plain',), cb=coinbase_tx(rng, True, st)))
    # ---- sequences of reader calls on one Block object
    gen_sessions(rng, big, cs_)
    return cs_


# ---------------------------------------------------------------- pushed data that IMITATES what the library interprets
# Consensus serialization does not look inside scripts: a 33/65-byte push that is not a curve point, a 0x30.. push
# that is not a DER signature, are just bytes.  The stream below puts such data in every position the script layer
# of the library looks at.  The classes in which the UNCHANGED library fails are decided here from the case alone.
SECP_P = 2 ** 256 - 2 ** 32 - 977
SECP_N = 0xFFFFFFFFFFFFFFFFFFFFFFFFFFFFFFFEBAAEDCE6AF48A03BBFD25E8CD0364141


def on_curve_x(x):
    """is x the abscissa of a point of y^2 = x^3 + 7 over F_p"""
    if x >= SECP_P:
        return False
    y2 = (pow(x, 3, SECP_P) + 7) % SECP_P
    return y2 == 0 or pow(y2, (SECP_P - 1) // 2, SECP_P) == 1


def is_point(k):
    if len(k) == 33 and k[0] in (2, 3):
        return on_curve_x(int.from_bytes(k[1:], 'big'))
    if len(k) == 65 and k[0] == 4:
        x, y = int.from_bytes(k[1:33], 'big'), int.from_bytes(k[33:], 'big')
        return x < SECP_P and y < SECP_P and (y * y - x * x * x - 7) % SECP_P == 0
    return False


def bad_keys(rng):
    """key-shaped pushes (02/03 + 32 bytes, 04 + 64 bytes) that are NOT points of secp256k1"""
    out = []
    x = 5
    while on_curve_x(x):
        x += 1
    out.append(b'\x02' + x.to_bytes(32, 'big'))                       # x without a point
    x = rng.getrandbits(256) % SECP_P
    while on_curve_x(x):
        x = (x + 1) % SECP_P
    out.append(bytes([rng.choice([2, 3])]) + x.to_bytes(32, 'big'))
    out.append(b'\x03' + SECP_P.to_bytes(32, 'big'))                  # x = p
    out.append(b'\x02' + (SECP_P + 1 + rng.randrange(900)).to_bytes(32, 'big'))   # x > p
    out.append(b'\x03' + b'\xff' * 32)
    out.append(b'\x02' + b'\x00' * 32)                                # x = 0
    txt = b'Counterparty style embedded data'
    d = b'\x03' + txt[:31] + b'\x00'
    while on_curve_x(int.from_bytes(d[1:], 'big')):
        d = d[:-1] + bytes([d[-1] + 1])
    out.append(d)                                                     # data carried in a "key"
    out.append(GU[:-1] + bytes([GU[-1] ^ 1]))                         # uncompressed, y wrong
    out.append(b'\x04' + GU[1:33] + SECP_P.to_bytes(32, 'big'))       # uncompressed, y = p
    out.append(b'\x04' + (SECP_P + 7).to_bytes(32, 'big') + GU[33:])  # uncompressed, x > p
    out.append(b'\x04' + rnd(rng, 64))
    out.append(b'\x04' + b'\x00' * 64)
    return [k for k in out if not is_point(k)]


def der_enc(r, s, ht=1):
    def enc(x):
        b = x.to_bytes(max(1, (x.bit_length() + 7) // 8), 'big')
        if b[0] & 0x80:
            b = b'\x00' + b
        return b'\x02' + bytes([len(b)]) + b
    body = enc(r) + enc(s)
    return b'\x30' + bytes([len(body)]) + body + bytes([ht])


def bip66_ok(sig):
    """Bitcoin Core IsValidSignatureEncoding on sig (with its hash-type byte), plus r, s in [1, n)"""
    n = len(sig)
    if n < 9 or n > 73 or sig[0] != 0x30 or sig[1] != n - 3:
        return False
    lr = sig[3]
    if 5 + lr >= n:
        return False
    ls = sig[5 + lr]
    if lr + ls + 7 != n or sig[2] != 2 or lr == 0 or sig[4] & 0x80:
        return False
    if lr > 1 and sig[4] == 0 and not sig[5] & 0x80:
        return False
    if sig[lr + 4] != 2 or ls == 0 or sig[lr + 6] & 0x80:
        return False
    if ls > 1 and sig[lr + 6] == 0 and not sig[lr + 7] & 0x80:
        return False
    r = int.from_bytes(sig[4:4 + lr], 'big')
    s_ = int.from_bytes(sig[6 + lr:6 + lr + ls], 'big')
    return 1 <= r < SECP_N and 1 <= s_ < SECP_N


def bad_sigs(rng):
    """signature-shaped pushes (0x30, 69..74 bytes) that are not valid DER signatures with r, s in [1, n)"""
    r, s_ = rng.randrange(1 << 255, SECP_N), rng.randrange(1 << 254, 1 << 255)
    good = der_enc(r, s_)
    out = [b'\x30' + rnd(rng, rng.randrange(68, 74)),                # junk behind the SEQUENCE tag
           good[:1] + bytes([good[1] + 1]) + good[2:],                # SEQUENCE length one too long
           der_enc(SECP_N, s_), der_enc((1 << 256) - 1, s_),          # r >= n
           der_enc(r, SECP_N + rng.randrange(100)),                   # s >= n
           good[:4] + bytes([good[4] | 0x80]) + good[5:] if not good[4] else good[:5] + bytes([good[5] & 0x7f]) + good[6:],
           good[:-1],                                                 # hash type byte missing
           b'\x30\x44\x02\x20' + b'\x80' + rnd(rng, 31) + b'\x02\x20' + b'\x11' * 32 + b'\x01',   # negative r
           b'\x30\x45\x02\x21\x00\x00' + b'\x7f' * 31 + b'\x02\x20' + b'\x11' * 32 + b'\x01',     # padded r
           b'\x30\x44\x03\x20' + b'\x11' * 32 + b'\x02\x20' + b'\x11' * 32 + b'\x01']             # wrong tag
    return [x for x in out if sigkey_shaped(x) and x[:1] == b'\x30' and not bip66_ok(x)]


def level0(s):
    """data items the script layer meets at the top level of a script (whole-script rule, then pushes); None when a
    push runs past the end"""
    n = len(s)
    if n and ((s[0] == 0x30 and 69 <= n <= 74) or (s[0] in (2, 3) and n == 33) or (s[0] == 4 and n == 65) or n == 64):
        return [s]
    out, i = [], 0
    while i < n:
        op = s[i]
        i += 1
        if 1 <= op <= 75:
            k = op
        elif op == 76:
            k = int.from_bytes(s[i:i + 1], 'little')
            i += 1
        elif op == 77:
            k = int.from_bytes(s[i:i + 2], 'little')
            i += 2
        else:
            continue
        if k == 0:
            continue
        if i + k > n:
            return None
        out.append(s[i:i + k])
        i += k
    return out


def undecodable_sig_items(t):
    """signature-shaped top-level items that are not BIP66 signatures with r, s in range, anywhere the strict script
    layer looks: scriptSig of non-coinbase inputs, output scripts, witness items"""
    scripts = [i[2] for i in t[1] if i[0] != b'\x00' * 32] + [sc for _, sc in t[2]] + [w for i in t[1] for w in i[4]]
    bad = []
    for sc in scripts:
        for d in (level0(sc) or []):
            if d[:1] == b'\x30' and 69 <= len(d) <= 74 and not bip66_ok(d):
                bad.append(d)
    return bad


def multisig_mismatch(sc):
    """OP_m <key>.. OP_n OP_CHECKMULTISIG with m > #keys or #keys != n"""
    if len(sc) < 4 or not (0x51 <= sc[0] <= 0x60) or sc[-1] != 0xae or not (0x51 <= sc[-2] <= 0x60):
        return False
    body, i, k = sc[1:-2], 0, 0
    while i < len(body):
        if body[i] == 33 and body[i + 1:i + 2] in (b'\x02', b'\x03') and i + 34 <= len(body):
            i += 34
        elif body[i] == 65 and body[i + 1:i + 2] == b'\x04' and i + 66 <= len(body):
            i += 66
        else:
            return False
        k += 1
    return k >= 1 and (sc[0] - 80 > k or k != sc[-2] - 80)


def canonical_spend(i):
    """an input in one of the standard signed forms, with a well-formed signature in every signature position (the
    key positions may hold any key-shaped bytes): the script layer re-assembles exactly the bytes it read"""
    s, w = i[2], list(i[4])

    def sig(d):
        return d[:1] == b'\x30' and 69 <= len(d) <= 74 and bip66_ok(d) and d[-1] != 0

    def key(d):
        return sigkey_shaped(d) and d[:1] != b'\x30'

    def ms_parts(sc):
        """(m, n) of OP_m <key>.. OP_n OP_CHECKMULTISIG with consistent counts, else None"""
        if len(sc) < 4 or not (0x51 <= sc[0] <= 0x60) or sc[-1] != 0xae or not (0x51 <= sc[-2] <= 0x60):
            return None
        items = level0(sc[1:-2])
        if not items or b''.join(push(k) for k in items) != sc[1:-2] or not all(key(k) for k in items):
            return None
        m, n = sc[0] - 80, sc[-2] - 80
        return (m, n) if (n == len(items) and m <= n) else None

    def ms_stack(st):
        if len(st) < 3 or st[0] != b'':
            return False
        mn = ms_parts(st[-1])
        return mn is not None and len(st) - 2 == mn[0] and all(sig(x) for x in st[1:-1])
    if not w:
        items = level0(s)
        if items is None:
            return False
        if len(items) == 2 and s == push(items[0]) + push(items[1]):
            return sig(items[0]) and key(items[1])                                      # P2PKH
        if len(items) == 1 and s == push(items[0]):
            return sig(items[0])                                                         # P2PK
        if len(items) >= 2 and s == b'\x00' + b''.join(push(x) for x in items):
            return ms_stack([b''] + items)                                               # P2SH multisig
        return False
    if s == b'':
        return (len(w) == 2 and sig(w[0]) and key(w[1])) or ms_stack(w) or (len(w) == 1 and len(w[0]) == 64)
    if len(w) == 2 and sig(w[0]) and key(w[1]):
        return s == push(b'\x00\x14' + h160(w[1]))                                       # P2SH-P2WPKH
    return ms_stack(w) and s == push(b'\x00\x20' + hashlib.sha256(w[-1]).digest())       # P2SH-P2WSH


def reassembled_inputs(t):
    """inputs that carry signature- / key-shaped data in another arrangement than the standard signed forms: the
    script layer may re-assemble their scriptSig / witness differently (recorded class script_layer_rebuild)"""
    bad = []
    for i in t[1]:
        if i[0] == b'\x00' * 32:
            continue
        items = list(i[4]) + pushes(i[2])
        for w in i[4]:
            if len(w) > 33:
                items += pushes(w, 1)
        if any(sigkey_shaped(d) for d in items) and not canonical_spend(i):
            bad.append(i)
    return bad


def known_status(cid):
    from core import load_known
    for e in load_known(PROP):
        if e.get('id') == cid or e.get('class') == cid:
            return e.get('status')
    return None


def multisig_script(m, keys, n=None):
    return bytes([80 + m]) + b''.join(push(k) for k in keys) + bytes([80 + (len(keys) if n is None else n)]) + b'\xae'


def shaped_txs(rng, sigs, keys, full):
    """one transaction per (template, datum): the datum replaces the signature / key of a standard form"""
    P = bytes(range(1, 33))
    good_sig, good_sig2 = der_sig(rng), der_sig(rng)
    out = []
    for k in keys:
        ms = multisig_script(1, [G1, k])
        ms3 = multisig_script(2, [k, G2, k])
        forms = [
            ('p2pkh_in', simple(ins=[(P, 0, push(good_sig) + push(k), 0xffffffff, [])])),
            ('p2wpkh', simple(ins=[(P, 0, b'', 0xfffffffd, [good_sig, k])])),
            ('p2sh_p2wpkh', simple(ins=[(P, 1, push(b'\x00\x14' + h160(k)), 0xffffffff, [good_sig, k])])),
            ('p2pk_out', simple(outs=[(7, push(k) + b'\xac'), (1, b'\x51')])),
            ('ms_out', simple(outs=[(7800, ms), (2000, b'\x76\xa9\x14' + b'\x22' * 20 + b'\x88\xac')])),
            ('ms_out3', simple(outs=[(1, ms3)])),
            ('p2sh_ms_in', simple(ins=[(P, 0, b'\x00' + push(good_sig) + push(ms), 0xffffffff, [])])),
            ('p2wsh_ms', simple(ins=[(P, 0, b'', 0xffffffff, [b'', good_sig, ms])])),
            ('p2sh_p2wsh_ms', simple(ins=[(P, 0, push(b'\x00\x20' + hashlib.sha256(ms3).digest()), 0xffffffff,
                                           [b'', good_sig, good_sig2, ms3])])),
            ('opret', simple(outs=[(0, b'\x6a' + push(k))])),
            ('mixed', (2, [(P, 0, push(good_sig) + push(k), 1, []), (rnd_prev(rng), 3, b'', 0xfffffffe, [good_sig2, k])],
                       [(5, push(k) + b'\xac'), (6, ms)], 99, True)),
        ]
        out += forms if full else [forms[j] for j in sorted(rng.sample(range(len(forms)), 4))]
    for sg in sigs:
        ms = multisig_script(1, [G1, G2])
        forms = [
            ('p2pkh_in', simple(ins=[(P, 0, push(sg) + push(G1), 0xffffffff, [])])),
            ('p2pk_in', simple(ins=[(P, 0, push(sg), 0xffffffff, [])])),
            ('p2wpkh', simple(ins=[(P, 0, b'', 0xfffffffd, [sg, G2])])),
            ('p2sh_ms_in', simple(ins=[(P, 0, b'\x00' + push(sg) + push(ms), 0xffffffff, [])])),
            ('p2wsh_ms', simple(ins=[(P, 0, b'', 0xffffffff, [b'', sg, ms])])),
            ('opret', simple(outs=[(0, b'\x6a' + push(sg))])),
            ('in_redeem', simple(ins=[(P, 0, b'\x00' + push(good_sig) + push(b'\x51' + push(G1) + push(sg) + b'\x52\xae'),
                                       0xffffffff, [])])),
        ]
        out += forms if full else [forms[j] for j in sorted(rng.sample(range(len(forms)), 3))]
    return out


def gen_shaped(rng, big, cs_):
    keys = bad_keys(rng)
    for name, t in shaped_txs(rng, [], keys, True):
        cs_.append(Case('tx_shp_key', 'tx shp ' + o_ser(t).hex()))
    for _ in range(20 if big else 2):
        for name, t in shaped_txs(rng, [], bad_keys(rng), big):
            cs_.append(Case('tx_shp_key', 'tx shp ' + o_ser(t).hex()))
    # the same transactions assembled through the API (add_input / add_output with the scripts given as bytes)
    for name, t in shaped_txs(rng, [], keys, True)[::(1 if big else 5)]:
        cs_.append(Case('api_shp', 'api ' + tok_tx(t)))
    # valid data in the same templates (controls)
    for name, t in shaped_txs(rng, [der_sig(rng)], [G1, G3, GU], True):
        cs_.append(Case('tx_shp_ok', 'tx shp ' + o_ser(t).hex()))
    # the classes in which the unchanged library fails are exercised once they are recorded
    if known_status('strict_refuses_signature_shaped') == 'known':
        for _ in range(10 if big else 1):
            for name, t in shaped_txs(rng, bad_sigs(rng), [], True):
                cs_.append(Case('tx_shp_sig', 'tx shp ' + o_ser(t).hex()))
    if known_status('multisig_count_mismatch') == 'known':
        for (m, ks, n) in [(1, [G1], 2), (3, [G1, G2], 2), (1, [G1, G2], 3), (1, [G1, keys[0]], 3), (2, [G1], 1),
                           (1, [G1, G2, G3], 16)]:
            cs_.append(Case('tx_shp_ms', 'tx shp ' + o_ser(simple(outs=[(1, multisig_script(m, ks, n))])).hex()))
            cs_.append(Case('tx_shp_ms', 'tx shp ' + o_ser(simple(ins=[(bytes(range(1, 33)), 0, b'', 0xffffffff,
                                                                          [b'', der_sig(rng), multisig_script(m, ks, n)])])).hex()))


# ---------------------------------------------------------------- sessions: reader calls on ONE Block object
# request: bsess <raw> <entry>:<P>:<k> <op> ...      (ops: T<k> parse_transactions(k), t parse_transaction(),
#          D parse_transactions_dict(), d parse_transaction_dict(), S serialize())
# The oracle keeps its own cursor: the readers that consume (the opening call with parse_transactions, T, t, d) must
# deliver the block's transactions each once and in order; D lists what is left without consuming; serialize() of a
# block whose transactions were all delivered as objects gives back the input bytes.
ENTRIES = ['pb', 'p', 'pio', 'pbio']


def sess_walk(n, ptx, lim, ops):
    """the oracle's cursor: yields (op, p, objs, eof) before each op; eof = the op would read past the last transaction"""
    p, objs = 0, []
    if ptx:
        m = n if lim == 0 else min(lim, n)
        p, objs = m, list(range(m))
    out = []
    for op in ops:
        todo = n - len(objs)
        eof = False
        before = (p, list(objs))
        if op[0] == 'T':
            k = int(op[1:])
            m = todo if k == 0 else min(k, todo)
            if p + m > n:
                eof = True
            else:
                objs += list(range(p, p + m))
                p += m
        elif op == 't':
            if todo > 0:
                if p >= n:
                    eof = True
                else:
                    objs.append(p)
                    p += 1
        elif op == 'd':
            if todo > 0 and p < n:
                p += 1
        out.append((op, before, (p, list(objs)), eof))
        if eof:
            break
    return out


def check_session(c, out):
    tk = c.req.split(' ')
    raw = unhx(tk[1])
    f = o_parse_block(raw)
    if f is None or f['count'] == 0:
        return None
    n = f['count']
    ids = [o_txid(t) for t in f['txs']]
    dt = [ids[i] + '/' + hx(f['spans'][i]) for i in range(n)]
    ent, ptx, lim = tk[2].split(':')
    ops = tk[3:]
    if out.startswith('ERR'):
        return 'opening call %s rejects a well-formed block (%s)' % (tk[2], out)
    steps = out.split(' | ')
    if len(steps) != len(ops) + 2:
        return 'unexpected answer %r' % out[:80]
    if steps[-1] != '#' + f['hash']:
        return 'block hash not recovered'
    walk = sess_walk(n, ptx == '1', int(lim), ops)
    states = [('open', None, sess_open(n, ptx == '1', int(lim)), False)] + walk
    for i, (op, before, after, eof) in enumerate(states):
        if eof:
            return None                 # a read past the last transaction: the statement is silent from here on
        res, got, cnt = steps[i].rsplit(';', 2)
        where = 'step %d (%s) of %s' % (i, op, ' '.join(tk[2:]))
        if cnt != str(n):
            return '%s: tx_count %s, the block has %d transactions' % (where, cnt, n)
        p, objs = after
        if got != (','.join(ids[j] for j in objs) or '-'):
            return '%s: Block.transactions are not the transactions delivered so far (each once, in block order)' % where
        if op == 'open':
            want = 'ok'
        else:
            p0, objs0 = before
            todo = n - len(objs0)
            if op[0] == 'T':
                want = 'ok'
            elif op == 't':
                want = ids[p0] if todo > 0 else 'F'
            elif op == 'D':
                want = (','.join(dt[p0:]) or '-') if todo > 0 else '-'
            elif op == 'd':
                want = dt[p0] if (todo > 0 and p0 < n) else 'F'
            else:
                if res == 'NOSER':
                    if objs0 == list(range(n)):
                        return '%s: serialize() refuses a completely parsed block' % where
                    continue
                want = hx(raw)
        if res != want:
            if op == 'S':
                return '%s: serialize() differs from the parsed bytes' % where
            return '%s: the call returns %s, expected %s' % (where, res[:70], want[:70])
    return None


def sess_open(n, ptx, lim):
    if not ptx:
        return (0, [])
    m = n if lim == 0 else min(lim, n)
    return (m, list(range(m)))


def small_tx(rng):
    """a short transaction (60..130 bytes) outside every recorded class"""
    while True:
        sw = rng.random() < 0.4
        ins = []
        for _ in range(rng.choice([1, 1, 2])):
            if sw and rng.random() < 0.7:
                s, w = b'', [plain_script(rng, rng.choice([1, 2, 3, 8])) for _ in range(rng.choice([1, 2]))]
            else:
                s, w = plain_script(rng, rng.choice([0, 1, 2, 5])), []
            ins.append((rnd_prev(rng), rng.choice([0, 1, 0xffffffff]), s, e32(rng), w))
        outs = [(rng.getrandbits(36), plain_script(rng, rng.choice([1, 2, 5, 23]))) for _ in range(rng.choice([1, 1, 2]))]
        t = (rng.choice([1, 2]), ins, outs, rng.choice([0, 0, 500000, 0xffffffff]), any(i[4] for i in ins))
        if not tx_classes(t):
            return t


def sess_block(rng, n):
    while True:
        txs = []
        while not txs or tx_classes(txs[0]):
            txs = [coinbase_tx(rng, rng.random() < 0.45, [rng.choice(reserved_values(rng))] if rng.random() < 0.75 else None)]
        txs += [small_tx(rng) for _ in range(n - 1)]
        for j in range(1, n):
            # transactions with random-byte scripts outside every recorded class (strict mode refuses most of them: the
            # block readers must not care)
            if rng.random() < 0.25:
                for _ in range(20):
                    t = rnd_tx(rng, 'non')
                    if not tx_classes(t) and len(o_ser(t)) < 400:
                        txs[j] = t
                        break
        raw = rng.choice([1, 2, 0x20000000]).to_bytes(4, 'little') + rnd(rng, 32) + rnd(rng, 32) + \
            rng.getrandbits(32).to_bytes(4, 'little') + (0x1d00ffff).to_bytes(4, 'little') + \
            rng.getrandbits(32).to_bytes(4, 'little') + cs(n) + b''.join(o_ser(t) for t in txs)
        f = o_parse_block(raw)
        if f is not None and not block_classes(f):
            return raw


SESSION_SCRIPTS = [
    ['D', 'T0', 'S'], ['T1', 'D', 'T0', 'S'], ['D', 'D', 't', 'D', 'T0', 'S', 'D'], ['t', 't', 'D', 'T2', 'S', 'T0', 'S'],
    ['S', 'T0', 'S', 'S', 't', 'D', 'd'], ['T1', 'T1', 'D', 'T1', 'D', 'T0', 'S'], ['D', 't', 'D', 't', 'D', 'T0', 'S'],
    ['d', 'D', 't', 'S', 'D'], ['D', 'd', 'D', 'T1', 'S'], ['T0', 'T0', 'D', 'S', 'T3', 'S'], ['T2', 'D', 'T0', 'S', 'D', 't'],
    ['D', 'T1', 'D', 'T9', 'S'],
]


def gen_sessions(rng, big, cs_):
    def emit(raw, n, ent, ptx, lim, ops):
        ops = list(ops)
        w = sess_walk(n, ptx, lim, ops)
        if w and w[-1][3]:
            ops = ops[:len(w) - 1]      # never ask for a read past the last transaction
        if ops:
            cs_.append(Case('bsess', 'bsess %s %s:%d:%d %s' % (raw.hex(), ent, 1 if ptx else 0, lim, ' '.join(ops))))
    k = 0
    for n in ([1, 2, 3, 5] if not big else [1, 2, 3, 4, 5, 8, 13, 30]):
        raw = sess_block(rng, n)
        opens = []
        for o in [(False, 0), (False, 3), (True, 0), (True, 1), (True, n - 1), (True, n), (True, n + 1), (True, n + 7)]:
            if o not in opens:
                opens.append(o)
        for (ptx, lim) in opens:
            for j in range(len(SESSION_SCRIPTS) if big else 3):
                emit(raw, n, ENTRIES[k % 4], ptx, lim, SESSION_SCRIPTS[(k + j) % len(SESSION_SCRIPTS)])
                k += 1
    for _ in range(1200 if big else 70):
        n = rng.randrange(2, 31 if big else 9)
        raw = sess_block(rng, n)
        ptx = rng.random() < 0.6
        lim = rng.choice([0, 1, 2, n - 1, n, n + 1, rng.randrange(1, n + 3)]) if ptx else rng.choice([0, 0, 2])
        ops = []
        for _ in range(rng.randrange(3, 11)):
            r = rng.random()
            if r < 0.30:
                ops.append('T%d' % rng.choice([0, 1, 1, 2, 3, n, n + 2]))
            elif r < 0.45:
                ops.append('t')
            elif r < 0.70:
                ops.append('D')
            elif r < 0.78:
                ops.append('d')
            else:
                ops.append('S')
        if rng.random() < 0.7:
            ops += ['T0', 'S']
        emit(raw, n, rng.choice(ENTRIES), ptx, max(lim, 0), ops)


# ---------------------------------------------------------------- API arguments in their alternative forms
# request: apif <form> <fields>     fields as for `api`; form = four letters
#   witnesses:    l list of bytes | t tuple of bytes | h list of hex strings | b ONE bytes string (count + length-prefixed
#                 items, as in a raw transaction)
#   prev_txid:    b bytes | h hex string
#   scripts:      b bytes | h hex strings (unlocking_script, lock_script)
#   construction: a Transaction.add_input / add_output | o Input(..) / Output(..) objects given to Transaction(..)
#   numbers:      i output_n and sequence as int | b output_n as 4 bytes big-endian, sequence as 4 bytes little-endian
# The fields are the same whatever the form: the oracle (and the model, which has no notion of argument form) expect the
# bytes of the `api` request.
API_FORMS = [w + p + s + c + n for w in 'ltbh' for p in 'bh' for s in 'bh' for c in 'ao' for n in 'ib']
WIT_SIZES = [0, 1, 2, 3, 20, 32, 34, 64, 75, 76, 100, 252, 253, 254, 255, 256, 300, 520, 1000]


def wit_item(rng, n):
    s = plain_script(rng, n)
    return s if not sigkey_shaped(s) else s[:-1]


def gen_api_forms(rng, big, cs_, giant):
    P = bytes(range(1, 33))

    def emit(form, t):
        cs_.append(Case('api_form', 'apif %s %s' % (form, tok_tx(t))))

    def stack(sizes):
        return [wit_item(rng, n) for n in sizes]
    # the item with a 1 / 3 / 5-byte length prefix in every position of a stack, every witness form
    shapes = [[71, 253, 34], [64, 300, 32, 1], [252, 1, 1], [253, 1, 1], [1, 253, 1], [1, 1, 253], [1, 0, 252, 1], [0, 1, 0],
              [0, 253, 0, 254, 0], [255, 256, 257, 1], [65535, 1, 2], [1, 520, 0, 1]] + ([[65536, 1, 2], [1, 70000, 3, 65536, 1]] if giant else [])
    for j, sizes in enumerate(shapes):
        for w in 'ltbh':
            emit(w + 'bb' + 'ao'[(j + 'ltbh'.index(w)) % 2] + 'ib'[j % 2], simple(ins=[(P, 3, b'', 0xfffffffd, stack(sizes))], v=2, lt=17))
    # one five-byte prefix in the quick tier (the extracted SHA-256 needs seconds for it)
    if not giant:
        emit('bbbai', simple(ins=[(P, 3, b'', 0xfffffffd, stack([65536, 1, 2]))], v=2, lt=17))
    # item COUNTS with a three-byte prefix, then a longer item
    for w in 'lb':
        emit(w + 'bbai', simple(ins=[(P, 0, b'', 0xffffffff, [b'\x51'] * 253 + stack([3, 253, 1]))]))
        emit(w + 'hhob', simple(ins=[(P, 0, b'', 0xffffffff, [b''] * 252 + stack([253, 2]))]))
    # every combination of forms on a transaction with several inputs and outputs
    for form in API_FORMS:
        ins = [(rnd_prev(rng), rng.choice([0, 1, 7, 0xffffffff]), b'', e32(rng), stack([rng.choice(WIT_SIZES) for _ in range(rng.choice([1, 3, 4, 5]))])),
               (rnd_prev(rng), 1, plain_script(rng, rng.choice([0, 1, 5, 76, 253])), e32(rng), []),
               (rnd_prev(rng), 2, b'', e32(rng), stack([rng.choice([253, 300, 1000]), 1, rng.choice(WIT_SIZES)]))]
        outs = [(rng.getrandbits(40), plain_script(rng, rng.choice([1, 2, 25, 76, 253, 300]))) for _ in range(rng.choice([1, 2, 3]))]
        emit(form, (rng.choice([1, 2, e32(rng)]), ins, outs, e32(rng), True))
    # random stacks in random forms
    for k in range(1500 if big else 120):
        ins = []
        for _ in range(rng.choice([1, 1, 2, 3])):
            r = rng.random()
            if r < 0.75:
                st = stack([rng.choice(WIT_SIZES) for _ in range(rng.choice([1, 3, 3, 4, 5, 7]))])
                ins.append((rnd_prev(rng), rng.choice([0, 1, rng.getrandbits(32)]), b'', e32(rng), st))
            else:
                ins.append((rnd_prev(rng), rng.choice([0, 1, rng.getrandbits(32)]), plain_script(rng, rng.choice([0, 1, 2, 25, 107, 253])),
                            e32(rng), []))
        outs = [(rng.choice([0, 1, 546, rng.getrandbits(40)]), plain_script(rng, rng.choice([1, 2, 22, 25, 34, 76, 253]))) for _ in range(rng.choice([1, 2]))]
        sw = any(i[4] for i in ins)
        form = rng.choice('bbbblth') + rng.choice('bh') + rng.choice('bh') + rng.choice('ao') + rng.choice('iib')
        emit(form, (rng.choice([1, 2, e32(rng)]), ins, outs, e32(rng), sw))
    # the same with standard kinds (sorted out into the recorded classes where the constructor re-assembles)
    for k in range(200 if big else 20):
        emit(rng.choice(API_FORMS), api_adjust(rnd_tx(rng, 'std'), 'std'))


def api_adjust(t, kd):
    # add_output refuses a non-zero OP_RETURN output; Input() reads a two-item stack as signature + key
    return (t[0], [(i[0], i[1], i[2], i[3], i[4] + [b'\x51'] if (kd == 'plain' and len(i[4]) == 2) else i[4]) for i in t[1]],
            [((0 if s[:1] == b'\x6a' else v), s) for v, s in t[2]], t[3], t[4])


# ---------------------------------------------------------------- verdicts
def is_trivial(c, out):
    if c.req.startswith('tx '):
        return 'S:ERR' in out and 'L:ERR' in out
    return out.startswith('ERR')


def split_tx_out(out):
    entry = ' ENTRY-DIFFER' in out
    out = out.split(' ENTRY-DIFFER')[0]
    s, l = out[2:].split(' L:', 1)
    return s, l, entry


def check_parsed(part, raw, t, what):
    if part.startswith('ERR'):
        return '%s: rejected (%s)' % (what, part)
    r, txid, fields = part.split(' ')
    if r != hx(raw):
        return '%s: raw() differs from the parsed bytes (%d -> %d bytes)' % (what, len(raw), len(unhx(r)) if r != 'ERR' else -1)
    if txid != o_txid(t):
        return '%s: txid %s, double-SHA256 of the stripped serialization is %s' % (what, txid, o_txid(t))
    return None


def check_block(tk, out, with_target=True):
    raw = unhx(tk[1])
    f = o_parse_block(raw)
    if f is None:
        return None
    first, second = out.split(' D:', 1)
    if first == 'ERR':
        return 'Block.parse_bytes(parse_transactions=True) rejects a well-formed block'
    p = first.split(' ')
    if p[0] != hx(raw):
        return 'Block.serialize() differs from the parsed bytes'
    want = [f['hash'], str(f['version']), f['prev'], f['merkle'], str(f['time']), str(f['bits']), str(f['nonce'])]
    if p[1:8] != want:
        return 'block header fields / hash not recovered exactly'
    if with_target and p[8] != str(o_target_signed(f['bits'])):
        return 'block target %s, SetCompact gives %d' % (p[8][:70], o_target_signed(f['bits']))
    if p[9] != str(f['count']):
        return 'tx_count %s, expected %d' % (p[9], f['count'])
    ids = ','.join(o_txid(t) for t in f['txs'])
    if p[10] != ids:
        return 'transaction ids of the parsed block differ'
    if second == 'ERR':
        return 'parse_transactions_dict fails on a well-formed block'
    d = second.split(' ')
    if d[0] != ids:
        return 'parse_transactions_dict: transaction ids differ'
    if d[1] != hx(b''.join(f['spans'])):
        return 'parse_transactions_dict: rawtx bytes differ'
    return None


def prop_check(c, out):
    if out.startswith('CRASH') or out == 'BADREQ':
        return 'unexpected answer %r' % out[:100]
    tk = c.req.split(' ')
    if tk[0] == 'tx':
        raw = unhx(tk[2])
        t = o_parse(raw)
        if t is None or not t[2]:
            return None                       # not a well-formed transaction: the statement is silent
        s, l, entry = split_tx_out(out)
        if entry:
            return 'parse / parse_hex / parse_bytes / raw_hex disagree'
        # strict=False first: a failure there is never excused by a class that is about strict mode
        v = check_parsed(l, raw, t, 'Transaction.parse(raw, strict=False)')
        if v:
            return v
        if s.startswith('ERR'):
            if tk[1] in ('std', 'shp'):
                # standard forms, and standard forms whose pushed data merely imitates keys / signatures: the bytes
                # are a well-formed transaction whatever the pushed data is
                return 'Transaction.parse(raw) (strict=True, the default) rejects a well-formed transaction of a ' \
                       'standard form (%s)' % s
            return None                       # documented refusal of what strict mode does not understand
        return check_parsed(s, raw, t, 'Transaction.parse(raw)')
    if tk[0] == 'bsess':
        return check_session(c, out)
    if tk[0] in ('api', 'apif'):
        if out.startswith('ERR'):
            if c.kind == 'api_form' and not case_classes(c):
                return 'the API refuses well-formed fields given in the argument form %s (%s)' % (tk[1], out)
            return None                       # the API declined to build it: nothing was serialized
        r, fields = out.split(' ')
        t = o_parse(unhx(r))
        if t is None:
            return 'independent parser rejects the bytes of an API-built transaction'
        # (witnesses given as ONE bytes string are read as a raw transaction's are: the object holds an empty item as b'\0')
        if tok_tx(t) != fields and not (tk[0] == 'apif' and tk[1][0] == 'b' and tok_tx(t, held=True) == fields):
            return 'independent parser reads fields that differ from the object that produced the bytes'
        # ... and from the fields that were GIVEN to the API (the object's own report could be wrong the same way as
        # its bytes).  The only documented normalisation: version 0 means 1, and version 1 becomes 2 as soon as an
        # input carries a relative-locktime sequence (BIP68).
        want = tx_of_tok(tk[-1])
        v = 1 if want[0] == 0 else want[0]
        if v == 1 and any(0 < i[3] < 0x80000000 for i in want[1]) and not (tk[0] == 'apif' and tk[1][3] == 'o'):
            v = 2                             # (add_input does that; Input objects handed to Transaction() are taken as they are)
        if tok_tx(t) != tok_tx((v,) + tuple(want[1:])):
            return 'independent parser reads fields that differ from the fields given to the API'
        return None
    if tk[0] == 'target':
        bits = int(tk[1])
        want = o_target_signed(bits)
        return None if out == str(want) else 'target of bits %#x is %s, SetCompact gives %d' % (bits, out[:70], want)
    if tk[0] == 'block':
        return check_block(tk, out)
    return None


def case_classes(c):
    tk = c.req.split(' ')
    try:
        if tk[0] == 'tx':
            t = o_parse(unhx(tk[2]))
            return tx_classes(t) if t else set()
        if tk[0] in ('api', 'apif'):
            t = tx_of_tok(tk[-1])
            cl = tx_classes(t)
            if any(len(i[4]) == 2 for i in t[1]):
                cl.add('script_layer_rebuild')     # Input() reads a two-item stack as signature + key
            if t[4] and not any(i[4] for i in t[1]):
                cl.add('segwit_flag_without_witness')
            return cl
        if tk[0] == 'block':
            f = o_parse_block(unhx(tk[1]))
            return block_classes(f) if f else set()
        if tk[0] == 'target':
            bits = int(tk[1])
            return {'target_outside_domain'} if ((bits >> 24) < 3 or bits & 0x00800000) else set()
    except Exception:
        pass
    return set()


def _norm(part):
    return 'ERR' if part.startswith('ERR') else part


def same(c, io, mo):
    tk = c.req.split(' ')
    blind = bool(case_classes(c) & MODEL_BLIND)
    if tk[0] == 'tx':
        mo, sl = mo.rsplit(' SL:', 1)
        main, spec = mo.rsplit(' SPEC:', 1)
        raw = unhx(tk[2])
        t = o_parse(raw)
        # the extracted protocol parser / Gallina SHA-256 against the Python oracle / hashlib
        if (spec != 'reject' and spec != 'trailing') != (t is not None) or (t is not None and spec != o_txid(t) + ':1'):
            return False
        s, l, entry = split_tx_out(io)
        if blind:
            # the object's bookkeeping fields (e.g. witnesses filled in for a legacy P2PKH input) are the script
            # layer's business: compare bytes and id only
            cut = lambda x: ' '.join(x.split(' ')[:2])
            s, l, main = cut(_norm(s)), cut(_norm(l)), cut(main)
        if c.kind == 'tx_trunc' and main == 'ERR':
            return True                       # short reads are outside the model
        if tk[1] == 'shp' and sl in ('00', '01', '10', '11'):
            # shaped-data stream: the model of the script layer (Model/TxStrict.v) says exactly when each mode refuses
            want_s, want_l = ('ERR' if sl[0] == '1' else main), ('ERR' if sl[1] == '1' else main)
            if (_norm(s) == 'ERR') != (want_s == 'ERR') or (_norm(l) == 'ERR') != (want_l == 'ERR'):
                return False
            if _norm(s) == want_s and _norm(l) == want_l:
                return True
            return blind and prop_check(c, io) is not None
        ok_l = _norm(l) == main
        ok_s = _norm(s) == main or (_norm(s) == 'ERR' and tk[1] != 'std')
        if ok_l and ok_s:
            return True
        return blind and prop_check(c, io) is not None
    if tk[0] in ('api', 'apif'):
        m = mo.split(' P:')[0]
        if _norm(io) == m:
            return True
        if tk[0] == 'apif' and tk[1][3] == 'o' and not io.startswith('ERR'):
            # the model's api_build is add_input / add_output (which turns version 1 into 2 at the first relative-locktime
            # sequence); Input objects handed to Transaction() keep the version given: there the independent oracle alone
            # judges (it expects the given version)
            want = tx_of_tok(tk[-1])
            if want[0] in (0, 1) and any(0 < i[3] < 0x80000000 for i in want[1]):
                return prop_check(c, io) is None
        if tk[0] == 'apif' and tk[1][0] == 'b' and not io.startswith('ERR') and m != 'ERR':
            # witnesses given as ONE bytes string: the object holds an empty item as b'\0' (as a parsed transaction does);
            # the bytes must be the model's
            (ri, fi), (rm, fm) = io.split(' '), m.split(' ')
            if ri == rm and fi == tok_tx(tx_of_tok(fm), held=True):
                return True
        if io.startswith('ERR') and (blind or c.kind == 'api_non') and c.kind != 'api_shp':
            return True                       # constructor refuses what its script layer does not understand
        return blind                          # the byte-level model does not predict what Input() re-assembles
    if tk[0] == 'target':
        return io.split(':')[0] == mo.split(' ')[0]
    if tk[0] == 'bsess':
        if o_parse_block(unhx(tk[1])) is None:
            return True                       # truncated / malformed block bytes are outside the model
        a, b = io.split(' | '), mo.split(' | ')
        if 'X' in b:
            # the model stops at a read past the last transaction (outside the model); the implementation raises there
            i = b.index('X')
            return a[:i] == b[:i] and len(a) > i and a[i].startswith('ERR')
        return a == b
    if tk[0] == 'block':
        m, spec = mo.rsplit(' SPEC:', 1)
        f = o_parse_block(unhx(tk[1]))
        if f is not None:
            want = ':'.join([f['hash'], str(o_target(f['bits'])), '1', ','.join(o_txid(t) for t in f['txs'])])
            if spec != want:
                return False
        if io == m:
            return True
        return blind and prop_check(c, io) is not None
    return io == mo


def _in_class(name):
    return lambda c, io, mo: name in case_classes(c)


def _tx_sides(c, io):
    """(strict answer, lenient answer) of a tx request, None otherwise"""
    if not c.req.startswith('tx '):
        return None
    s, l, _ = split_tx_out(io)
    return s, l


def _rebuild(c, io, mo):
    # re-assembly of scriptSig / witness from recognised signatures and keys changes raw() / txid; it never makes a
    # parse FAIL: a refusal is not excused by this class
    if 'script_layer_rebuild' not in case_classes(c):
        return False
    tk = c.req.split(' ')
    if tk[0] == 'block':
        f = o_parse_block(unhx(tk[1]))
        return f is not None and any(reassembled_inputs(t) for t in f['txs'])
    sides = _tx_sides(c, io)
    if sides is None:
        return True
    s, l = sides
    # the standard signed forms are written back exactly as read: only other arrangements are re-assembled
    t = o_parse(unhx(tk[2]))
    if t is None or not reassembled_inputs(t):
        return False
    return not l.startswith('ERR') and not (s.startswith('ERR') and tk[1] in ('std', 'shp'))


def _strict_sig(c, io, mo):
    # strict mode raises ScriptError on a signature-shaped item it cannot decode; strict=False parses the transaction
    if 'strict_refuses_signature_shaped' not in case_classes(c):
        return False
    sides = _tx_sides(c, io)
    if sides is None or sides[0] != 'ERR ScriptError':
        return False
    raw = unhx(c.req.split(' ')[2])
    return check_parsed(sides[1], raw, o_parse(raw), 'lenient') is None


def _ms_mismatch(c, io, mo):
    # both modes raise ScriptError on an output script OP_m <keys> OP_n OP_CHECKMULTISIG with inconsistent counts
    if 'multisig_count_mismatch' not in case_classes(c):
        return False
    sides = _tx_sides(c, io)
    if sides is None:
        return True                           # block readers parse with strict=False and fail the same way
    return sides[1] == 'ERR ScriptError' and sides[0] == 'ERR ScriptError'


def _target_class(c, io, mo):
    # the documented deviation only: exponent below 3 gives a float, the sign bit is read as mantissa bit 23
    if 'target_outside_domain' not in case_classes(c):
        return False
    if c.req.startswith('target '):
        bits = int(c.req.split(' ')[1])
        return io == lib_target_documented(bits)
    if c.req.startswith('block '):
        f = o_parse_block(unhx(c.req.split(' ')[1]))
        p = io.split(' D:')[0].split(' ')
        # only the target may be what fails
        return f is not None and len(p) > 8 and p[8] == lib_target_documented(f['bits'], True) and \
            check_block(c.req.split(' '), io, with_target=False) is None
    return True


KNOWN_CLASSES = {
    'single_zero_byte_item': _in_class('single_zero_byte_item'),
    'ascii_hex_bytes': _in_class('ascii_hex_bytes'),
    'scriptsig_and_witness': _in_class('scriptsig_and_witness'),
    'script_layer_rebuild': _rebuild,
    'malformed_scriptsig': _in_class('malformed_scriptsig'),
    'segwit_flag_without_witness': _in_class('segwit_flag_without_witness'),
    'target_outside_domain': _target_class,
    'strict_refuses_signature_shaped': _strict_sig,
    'multisig_count_mismatch': _ms_mismatch,
}


def reproduce_known(entry, rundir):
    from core import run_impl
    rc, out, err = run_impl(IMPL, [entry['witness']['request']], rundir)
    return len(out) == 1 and out[0] == entry['witness']['impl_answer']
