"""C09 — wallet keys follow BIP44/49/84/48 paths and restore deterministically.

History differential: every request line is a whole scenario (one seed, several wallets, a history of key
operations with Reopen in between, restores from seed / mnemonic / xprv / account xpub).  The implementation
adapter runs it on real wallets (one sqlite file each), the extracted model recomputes every key from the seed
alone, and an independent Python oracle (own BIP32 over hashlib + a pure-Python secp256k1, own address and
extended-key encoders, own reading of the BIP path layouts) judges the implementation's answer against the
property statement.  The flow is core.standard_check's, run in parallel chunks."""
import hashlib, hmac, json, os, random, re, sys, time, concurrent.futures
import core
from core import Case

PROP = 'C09'
COQ_FILES = ['Extract/C09.v', 'Proofs/WalletKeys.v', 'Proofs/WalletKeysBook.v', 'Properties/C09.v']
DRIVER = 'c09'
IMPL = 'harness/impl/c09_impl.py'
ALLOWED_AXIOMS = []
ASSUMPTIONS = [
    'theorems are about coq/Model/WalletKeys.v: lib_* mirrors keys.path_expand, main.get_key_structure_data, '
    'HDKey.child_private/child_public, Wallet.create/keys_for_path/new_keys/_get_key/new_account/public_master and '
    'WalletKey.from_key for single-signature bip32 wallets; spec_* is BIP32/44/45/48/49/84',
    'tie to /repo: WALLET_KEY_STRUCTURES and KEY_PATH_* are regenerated on every run (translator/gen_walletcfg.py -> '
    'Gen/GenWalletCfg.v), coin types and version bytes come from Gen/GenNetworks.v; every other lib_* definition is '
    'tied by the differential correspondence (whole key table of real wallets vs the extracted model, from the seed alone)',
    'modelled, not verified: sqlite/SQLAlchemy persistence (Reopen is the identity in the model and a real re-open in the '
    'correspondence), group laws of secp256k1 / collision resistance (distinct paths are proved distinct, distinct '
    'addresses are checked on every run but not proved), multisig cosigner wallets (C10), import_master_key, '
    'explicit "m/..." paths on account-level wallets',
    'WalletKey.public() is modelled as repaired by fixes/C09-1 (returns a stripped copy)',
]
RULE = ('all networks x witness types at creation; seeded random histories of new_key / new_key_change / new_keys / '
        'get_key(s) / get_key(s)_change / new_account / key_for_path / keys_for_path bulk / public_master / '
        'WalletKey.public / mark-used / Reopen over accounts 0..3, mixed witness types and second networks, followed by '
        'restores from seed, mnemonic, xprv, account xpub (two export paths) and account xprv; table paths for all six '
        'key structures; a case is non-trivial when a wallet was created and keys were handed out; distinct by request')
IMPL_TIMEOUT = 3000
WORKERS = 8

# ------------------------------------------------------------------ independent oracle: curve, BIP32, encoders
_P = 2 ** 256 - 2 ** 32 - 977
_N = 0xFFFFFFFFFFFFFFFFFFFFFFFFFFFFFFFEBAAEDCE6AF48A03BBFD25E8CD0364141
_G = (0x79BE667EF9DCBBAC55A06295CE870B07029BFCDB2DCE28D959F2815B16F81798,
      0x483ADA7726A3C4655DA4FBFC0E1108A8FD17B448A68554199C47D08FFB10D4B8)


def _ec_add(p, q):
    if p is None:
        return q
    if q is None:
        return p
    if p[0] == q[0]:
        if (p[1] + q[1]) % _P == 0:
            return None
        lam = 3 * p[0] * p[0] * pow(2 * p[1], -1, _P) % _P
    else:
        lam = (q[1] - p[1]) * pow(q[0] - p[0], -1, _P) % _P
    x = (lam * lam - p[0] - q[0]) % _P
    return x, (lam * (p[0] - x) - p[1]) % _P


_TABLE = None


def _table():
    global _TABLE
    if _TABLE is None:
        t, base = [], _G
        for _ in range(64):
            row, acc = [None], None
            for _j in range(15):
                acc = _ec_add(acc, base)
                row.append(acc)
            t.append(row)
            base = _ec_add(acc, base)
        _TABLE = t
    return _TABLE


def _mul_g(k):
    k %= _N
    t, acc, i = _table(), None, 0
    while k:
        acc = _ec_add(acc, t[i][k & 15])
        k >>= 4
        i += 1
    return acc


def _ser(pt):
    return bytes([2 + (pt[1] & 1)]) + pt[0].to_bytes(32, 'big')


def _h160(b):
    return hashlib.new('ripemd160', hashlib.sha256(b).digest()).digest()


_B58 = '123456789ABCDEFGHJKLMNPQRSTUVWXYZabcdefghijkmnopqrstuvwxyz'


def _b58check(b):
    b += hashlib.sha256(hashlib.sha256(b).digest()).digest()[:4]
    n, s = int.from_bytes(b, 'big'), ''
    while n:
        n, r = divmod(n, 58)
        s = _B58[r] + s
    return '1' * (len(b) - len(b.lstrip(b'\0'))) + s


_B32 = 'qpzry9x8gf2tvdw0s3jn54khce6mua7l'


def _bech32_polymod(values):
    gen, chk = [0x3b6a57b2, 0x26508e6d, 0x1ea119fa, 0x3d4233dd, 0x2a1462b3], 1
    for v in values:
        b = chk >> 25
        chk = (chk & 0x1ffffff) << 5 ^ v
        for i in range(5):
            chk ^= gen[i] if ((b >> i) & 1) else 0
    return chk


def _segwit_addr(hrp, prog):
    acc, bits, data = 0, 0, [0]
    for v in prog:
        acc = (acc << 8) | v
        bits += 8
        while bits >= 5:
            bits -= 5
            data.append((acc >> bits) & 31)
    if bits:
        data.append((acc << (5 - bits)) & 31)
    hx = [ord(c) >> 5 for c in hrp] + [0] + [ord(c) & 31 for c in hrp]
    pm = _bech32_polymod(hx + data + [0] * 6) ^ 1
    return hrp + '1' + ''.join(_B32[d] for d in data + [(pm >> 5 * (5 - i)) & 31 for i in range(6)])


class XK(object):
    __slots__ = ('k', 'pt', 'c', 'depth', 'fpr', 'child')

    def __init__(self, k, pt, c, depth, fpr, child):
        self.k, self.pt, self.c, self.depth, self.fpr, self.child = k, pt, c, depth, fpr, child


def _master(seed):
    i = hmac.new(b'Bitcoin seed', seed, hashlib.sha512).digest()
    k = int.from_bytes(i[:32], 'big')
    return XK(k, _mul_g(k), i[32:], 0, b'\0\0\0\0', 0)


def _ckd(x, idx, hardened):
    """BIP32 CKDpriv when the parent has a private key, CKDpub otherwise"""
    n = idx + (0x80000000 if hardened else 0)
    if x.k is not None:
        data = (b'\0' + x.k.to_bytes(32, 'big') if hardened else _ser(x.pt)) + n.to_bytes(4, 'big')
    else:
        if hardened:
            return None
        data = _ser(x.pt) + n.to_bytes(4, 'big')
    i = hmac.new(x.c, data, hashlib.sha512).digest()
    il = int.from_bytes(i[:32], 'big')
    fpr = _h160(_ser(x.pt))[:4]
    if x.k is not None:
        k = (il + x.k) % _N
        return XK(k, _mul_g(k), i[32:], x.depth + 1, fpr, n)
    return XK(None, _ec_add(_mul_g(il), x.pt), i[32:], x.depth + 1, fpr, n)


_NETS = None
PURPOSE = {'legacy': 44, 'p2sh-segwit': 49, 'segwit': 84}
WTN = {'l': 'legacy', 'p': 'p2sh-segwit', 's': 'segwit'}


def nets():
    global _NETS
    if _NETS is None:
        _NETS = json.load(open(os.path.join(core.REPO, 'bitcoinlib', 'data', 'networks.json'), encoding='utf8'))
    return _NETS


def _address(net, wt, pt):
    nw, h = nets()[net], _h160(_ser(pt))
    if wt == 'legacy':
        return _b58check(bytes.fromhex(nw['prefix_address']) + h)
    if wt == 'p2sh-segwit':
        return _b58check(bytes.fromhex(nw['prefix_address_p2sh']) + _h160(b'\x00\x14' + h))
    return _segwit_addr(nw['prefix_bech32'], h)


def _version(net, wt, private):
    for r in nets()[net]['prefixes_wif']:
        if r[2] == ('private' if private else 'public') and not r[3] and r[4] == wt:
            return bytes.fromhex(r[0])
    return None


def _xser(net, wt, x, private):
    v = _version(net, wt, private and x.k is not None)
    keydata = (b'\0' + x.k.to_bytes(32, 'big')) if (private and x.k is not None) else _ser(x.pt)
    return _b58check(v + bytes([x.depth]) + x.fpr + x.child.to_bytes(4, 'big') + x.c + keydata)


class Deriver(object):
    """keys below one seed, cached by absolute path"""

    def __init__(self, seed):
        self.cache = {(): _master(seed)}

    def at(self, path):
        path = tuple(path)
        if path not in self.cache:
            parent = self.at(path[:-1])
            self.cache[path] = None if parent is None else _ckd(parent, path[-1][0], path[-1][1])
        return self.cache[path]


def parse_path(s):
    """'m/84'/0'/0'/0/5' -> ('m', [(84, True), ...]); None when malformed"""
    parts = s.split('/')
    if parts[0] not in ('m', 'M'):
        return None
    out = []
    for p in parts[1:]:
        m = re.fullmatch(r"(\d+)('?)", p)
        if not m or int(m.group(1)) >= 0x80000000:
            return None
        out.append((int(m.group(1)), m.group(2) == "'"))
    return parts[0], out


# ------------------------------------------------------------------ generators
def _mnemonic(rng):
    words = open(os.path.join(core.REPO, 'bitcoinlib', 'wordlist', 'english.txt'), encoding='utf8').read().split()
    ent = bytes(rng.randrange(256) for _ in range(rng.choice([16, 20, 24, 32])))
    bits = bin(int.from_bytes(ent, 'big'))[2:].zfill(len(ent) * 8) + \
        bin(hashlib.sha256(ent).digest()[0])[2:].zfill(8)[:len(ent) // 4]
    ws = [words[int(bits[i:i + 11], 2)] for i in range(0, len(bits), 11)]
    seed = hashlib.pbkdf2_hmac('sha512', ' '.join(ws).encode(), b'mnemonic', 2048, 64)
    return ws, seed


def _o(x):
    return '-' if x is None else str(x)


def _second_nets(net):
    """networks whose coin type differs from the wallet's own (a shared coin type is refused / collides by design)"""
    ct = nets()[net]['bip44_cointype']
    seen, out = {ct}, []
    for n, d in nets().items():
        if d['bip44_cointype'] not in seen and not n.startswith('dogecoin'):
            seen.add(d['bip44_cointype'])
            out.append(n)
    return out


def gen_history(rng, net, wt, master, explicit, nops):
    """ops on slot 'a' (the wallet under test)"""
    ops = []
    others = [w for w in 'lps' if w != wt] if (master and not net.startswith('dogecoin')) else []
    nets2 = _second_nets(net) if master else []
    accts = [None]
    have2 = []
    for _ in range(nops):
        r = rng.random()
        acct = rng.choice(accts)
        chg = rng.choice([0, 0, 1])
        owt = rng.choice(others) if (others and rng.random() < 0.2) else None
        onet = rng.choice(have2) if (have2 and rng.random() < 0.2) else None
        if onet is not None:
            acct = rng.choice([None, 0])
        if r < 0.22:
            ops.append('K:a:%s:%d:%s:%s:%d' % (_o(acct), chg, _o(owt), _o(onet), rng.choice([1, 1, 1, 2, 3, 5])))
        elif r < 0.42:
            ops.append('G:a:%s:%d:%s:%s:%d' % (_o(acct), chg, _o(owt), _o(onet), rng.choice([1, 1, 2, 3, 6])))
        elif r < 0.52 and master:
            if nets2 and rng.random() < 0.3:
                n2 = rng.choice(nets2)
                ops.append('A:a:-:%s:%s' % (_o(owt), n2))
                if n2 not in have2:
                    have2.append(n2)
            else:
                a = rng.choice([None, None, rng.randrange(1, 4)])
                ops.append('A:a:%s:%s:-' % (_o(a), _o(owt)))
                for x in (1, 2, 3):
                    if x not in accts and rng.random() < 0.6:
                        accts.append(x)
        elif r < 0.62:
            ops.append('U:a:%d' % rng.randrange(0, 40))
        elif r < 0.70:
            ops.append('R:a')
        elif r < 0.76:
            ops.append('M:a:%s:%s:-' % (_o(acct), _o(owt)))
        elif r < 0.82:
            ops.append('X:a:%d' % rng.randrange(0, 40))
        elif explicit and r < 0.92:
            c, i = rng.choice([0, 1]), rng.choice([0, 1, 2, 5, 9, rng.randrange(0, 30)])
            form = rng.random()
            if form < 0.5:
                ops.append('P:a:r.%d.%d:%s:0:0:%s:-' % (c, i, _o(acct), _o(owt)))
            elif form < 0.75 or not master:
                ops.append('P:a:e:%s:%d:%d:%s:-' % (_o(acct), c, i, _o(owt)))
            else:
                w2 = WTN[owt or wt]
                a = acct or 0
                ops.append("P:a:f.m.%dh.%dh.%dh.%d.%d:%s:0:0:%s:-" % (
                    PURPOSE[w2], nets()[net]['bip44_cointype'], a, c, i, _o(a), _o(owt)))
        elif explicit:
            ops.append('B:a:%s:%d:%d:%s:-:%d' % (_o(acct), rng.choice([0, 1]), rng.randrange(0, 8), _o(owt),
                                                   rng.choice([2, 3, 4])))
        else:
            ops.append('K:a:%s:%d:-:-:1' % (_o(acct), chg))
    return ops


def gen_cases(rng, tier):
    big = tier == 'thorough'
    cs = []
    names = list(nets().keys())
    # --- table paths for every key structure (incl. the multisig ones) on every network
    for wt in 'lps':
        for ms in (0, 1):
            for net in names:
                for (a, c, i, co) in [(0, 0, 0, 0), (3, 1, 7, 2), (rng.randrange(0, 1 << 20), rng.randrange(0, 2),
                                                                  rng.randrange(0, 1 << 31), rng.randrange(0, 15))]:
                    cs.append(Case('expand', 'expand %s %d %d %d %d %d %d %s' % (
                        wt, ms, nets()[net]['bip44_cointype'], a, c, i, co, net), meta=('expand', wt, ms, net, a, c, i, co)))
    # --- every network x witness type: creation, first keys, reopen
    for net in names:
        for wt in 'lps':
            ws, seed = _mnemonic(rng)
            acct = rng.randrange(0, 4)
            cs.append(Case('create', 'run %s %s C:a:seed:%s:%s:%d K:a:-:0:-:-:1 K:a:-:1:-:-:2 R:a G:a:-:0:-:-:3 D:a '
                           'C:b:xpub:%s:%s:%d:a G:b:-:0:-:-:3 D:b' % (seed.hex(), '_'.join(ws), net, wt, acct, net, wt, acct),
                           meta=('run',)))
    # --- histories + restores
    n_hist = 900 if big else 40
    for j in range(n_hist):
        ws, seed = _mnemonic(rng)
        net = rng.choice(names if rng.random() < 0.6 else ['bitcoin', 'testnet', 'litecoin', 'bitcoinlib_test'])
        wt = 'l' if net.startswith('dogecoin') else rng.choice('lps')
        acct = rng.choice([0, 0, 1, 2, 3])
        explicit = rng.random() < 0.5
        first = rng.choice(['seed', 'mnem'])
        cmds = ['C:a:%s:%s:%s:%d' % (first, net, wt, acct)]
        cmds += gen_history(rng, net, wt, True, explicit, rng.randrange(6, 16 if not big else 24))
        cmds.append('D:a')
        # restores of the same wallet; each gets a short history of its own
        kinds = rng.sample(['seed', 'mnem', 'xprv', 'xpub', 'xpubw', 'axprv'], rng.choice([1, 2, 2, 3]))
        for n, kind in enumerate(kinds):
            slot = 'r%d' % n
            racct = acct if kind in ('seed', 'mnem', 'xprv') or rng.random() < 0.7 else rng.randrange(0, 4)
            src = ':a' if kind in ('xprv', 'xpub', 'xpubw', 'axprv') else ''
            cmds.append('C:%s:%s:%s:%s:%d%s' % (slot, kind, net, wt, racct, src))
            h = gen_history(rng, net, wt, kind in ('seed', 'mnem', 'xprv'), explicit and rng.random() < 0.5,
                            rng.randrange(2, 7))
            cmds += [c.replace(':a:', ':%s:' % slot, 1) for c in h]
            cmds.append('G:%s:-:0:-:-:%d' % (slot, rng.choice([2, 4, 6])))
            cmds.append('G:%s:-:1:-:-:2' % slot)
            cmds.append('D:%s' % slot)
        cmds.append('D:a')
        cs.append(Case('history_explicit' if explicit else 'history_implicit',
                       'run %s %s %s' % (seed.hex(), '_'.join(ws), ' '.join(cmds)), meta=('run',)))
    return cs


def is_trivial(c, out):
    return out.startswith('ERR') or out == 'BADREQ' or 'C=ok' not in out and c.kind != 'expand'


# ------------------------------------------------------------------ property-level verdict on the implementation
class OW(object):
    """what the oracle knows about one wallet"""

    def __init__(self, kind, net, wt, acct):
        self.kind, self.net, self.wt, self.acct = kind, net, wt, acct
        self.master = kind in ('seed', 'mnem', 'xprv')
        self.private = kind != 'xpub' and kind != 'xpubw'
        self.base = [] if self.master else [(PURPOSE[wt], True), (nets()[net]['bip44_cointype'], True), (acct, True)]
        self.chains = {}          # (wt, net, acct, chg) -> set of indices known to exist
        self.used = set()         # absolute paths
        self.explicit = False
        self.accounts = {(wt, net): {acct}}
        self.known_ids = {}

    def chain(self, key):
        return self.chains.setdefault(key, set())


def _abs(ow, root, rel):
    if ow.master:
        return None if root != 'm' else list(rel)
    return None if root != 'M' else ow.base + list(rel)


def _check_key(der, ow, tok, want_priv=None):
    """path|address|wif|index of a handed-out key against derivation from the seed; returns (error, abs path, wt, net)"""
    f = tok.split('|')
    if len(f) != 4:
        return 'malformed key token %r' % tok[:80], None
    pp = parse_path(f[0])
    if pp is None:
        return 'path %r is not a BIP32 path' % f[0], None
    ap = _abs(ow, pp[0], pp[1])
    if ap is None:
        return 'path %r has the wrong root for this wallet' % f[0], None
    return None, (ap, f)


def _classify(ow, ap):
    """absolute path -> (wt, net-coin, acct, chg, idx) when it is a documented BIP44/49/84 leaf path"""
    if len(ap) != 5:
        return None
    (p, ph), (c, ch), (a, ah), (g, gh), (i, ih) = ap
    if not (ph and ch and ah) or gh or ih:
        return None
    wts = [w for w, v in PURPOSE.items() if v == p]
    if not wts:
        return None
    return wts[0], c, a, g, i


def _material(der, ow, ap, f, wt, net):
    x = der.at(ap)
    if x is None:
        return 'no key exists at %s' % f[0]
    if not ow.private:
        x = XK(None, x.pt, x.c, x.depth, x.fpr, x.child)
    addr = _address(net, wt, x.pt)
    if f[1] != addr:
        return 'key at %s has address %s, BIP32 derivation from the master gives %s' % (f[0], f[1], addr)
    wif = _xser(net, wt, x, True)
    if f[2] != wif:
        return 'key at %s has extended key %s…, derivation from the master gives %s…' % (f[0], f[2][:24], wif[:24])
    return None


def _leaf(der, ow, tok, wt, net, acct, chg, idx=None):
    """a handed-out address key must lie at m/purpose'/coin'/acct'/chg/idx (M/chg/idx below an account key)"""
    err, r = _check_key(der, ow, tok)
    if err:
        return err, None
    ap, f = r
    cl = _classify(ow, ap)
    want = (wt, nets()[net]['bip44_cointype'], acct, chg)
    if cl is None or cl[:4] != want or (idx is not None and cl[4] != idx):
        return ('handed-out key lies at %s, documented path for (%s, %s, account %d, change %d%s) is m/%d\'/%d\'/%d\'/%d/%s'
                % (f[0], wt, net, acct, chg, '' if idx is None else ', index %d' % idx, PURPOSE[wt], want[1], acct, chg,
                   'i' if idx is None else idx)), None
    if f[3] != str(cl[4]):
        return 'key at %s reports address_index %s' % (f[0], f[3]), None
    e = _material(der, ow, ap, f, wt, net)
    return e, (tuple(ap), cl[4])


def prop_check(c, out):
    if 'CRASH' in out or out == 'BADREQ':
        return 'unexpected answer %r' % out[:160]
    m = c.meta or ('run',)
    if m[0] == 'expand':
        _, wt, ms, net, a, ch, i, co = m
        coin = nets()[net]['bip44_cointype']
        w = WTN[wt]
        if not ms:
            want, enc = "m/%d'/%d'/%d'/%d/%d" % (PURPOSE[w], coin, a, ch, i), ('bech32' if w == 'segwit' else 'base58')
        elif w == 'legacy':
            want, enc = "m/45'/%d/%d/%d" % (co, ch, i), 'base58'
        else:
            want, enc = "m/48'/%d'/%d'/%d'/%d/%d" % (coin, a, 1 if w == 'p2sh-segwit' else 2, ch, i), \
                        ('bech32' if w == 'segwit' else 'base58')
        return None if out == want + ' ' + enc else 'path_expand gives %s, the BIPs give %s %s' % (out, want, enc)
    t = c.req.split(' ')
    seed = bytes.fromhex(t[1])
    der = Deriver(seed)
    cmds, toks = t[3:], out.split(' ')
    if len(toks) != len(cmds):
        return 'answer has %d tokens for %d commands' % (len(toks), len(cmds))
    ws = {}
    for cmd, tok in zip(cmds, toks):
        f = cmd.split(':')
        op, val = tok.split('=', 1)
        if op != f[0]:
            return 'answer token %r does not belong to command %r' % (tok[:40], cmd)
        if f[0] == 'C':
            slot, kind, net, wt, acct = f[1], f[2], f[3], WTN[f[4]], int(f[5])
            refuse = net.startswith('dogecoin') and wt != 'legacy'
            if len(f) > 6 and f[6] not in ws:
                continue
            if val != 'ok':
                if refuse:
                    continue
                return 'Wallet.create refused a valid request (%s)' % cmd
            if refuse:
                return 'Wallet.create accepted %s on %s' % (wt, net)
            ow = OW(kind, net, wt, acct)
            ws[slot] = ow
            ow.chain((wt, net, acct, 0)).add(0)
            if len(f) > 6 and ws[f[6]].master:
                ws[f[6]].accounts.setdefault((wt, net), set()).add(acct)     # exporting creates the account key
            continue
        if f[1] not in ws:
            continue
        ow = ws[f[1]]
        if f[0] in ('K', 'G', 'B'):
            if f[0] == 'B':
                acct, chg, first, wt, net, n = f[2], int(f[3]), int(f[4]), f[5], f[6], int(f[7])
                ow.explicit = True
            else:
                acct, chg, wt, net, n = f[2], int(f[3]), f[4], f[5], int(f[6])
            wt = WTN[wt] if wt != '-' else ow.wt
            net = net if net != '-' else ow.net
            foreign = wt != ow.wt or net != ow.net
            if val == 'ERR':
                if foreign and not ow.master:
                    continue
                return 'a valid key request was refused: %s' % cmd
            if foreign and not ow.master:
                return 'an account-level wallet handed out keys of another witness type / network: %s' % cmd
            keys = [] if val == '-' else val.split(',')
            if len(keys) != n:
                return '%s returned %d keys, %d requested' % (cmd, len(keys), n)
            if acct != '-':
                acct = int(acct)
            elif net == ow.net:
                acct = ow.acct
            else:
                acct = None       # any existing account of that network
            got = []
            for k in keys:
                a = acct
                if a is None:
                    pp = parse_path(k.split('|')[0])
                    a = pp[1][2][0] if pp and len(pp[1]) == 5 else -1
                    if a not in ow.accounts.get((wt, net), set()) and a != 0:
                        return 'key %s handed out for an account that does not exist on %s' % (k.split('|')[0], net)
                if not ow.master and a != ow.acct:
                    a = ow.acct       # an account-level wallet has one account, whatever number is passed
                err, r = _leaf(der, ow, k, wt, net, a, chg)
                if err:
                    return err
                got.append((a, r))
            if len(set(r[0] for _, r in got)) != len(got):
                return '%s returned the same key twice' % cmd
            if f[0] == 'K':
                # fresh indices: 1 + highest index of the chain, consecutive
                a = got[0][0]
                ch = ow.chain((wt, net, a, chg))
                nxt = max(ch) + 1 if ch else 0
                idxs = [r[1] for _, r in got]
                if idxs != list(range(nxt, nxt + n)):
                    return ('new_key(s) issued indices %s on chain (%s, %s, account %d, change %d) whose highest index is %s'
                            % (idxs, wt, net, a, chg, max(ch) if ch else None))
            if f[0] == 'B' and [r[1] for _, r in got] != list(range(first, first + n)):
                return 'keys_for_path(address_index=%d, number_of_keys=%d) returned indices %s' % (
                    first, n, [r[1] for _, r in got])
            if f[0] == 'G':
                for a, r in got:
                    if r[0] in ow.used:
                        return 'get_key(s) handed out the used key at index %d' % r[1]
            for a, r in got:
                ow.chain((wt, net, a, chg)).add(r[1])
                ow.accounts.setdefault((wt, net), set()).add(a)
        elif f[0] in ('A', 'M'):
            acct, wt, net = f[2], f[3], f[4]
            wt = WTN[wt] if wt != '-' else ow.wt
            net = net if net != '-' else ow.net
            foreign = wt != ow.wt or net != ow.net
            if f[0] == 'A':
                exists = acct != '-' and int(acct) in ow.accounts.get((wt, net), set())
                if val == 'ERR':
                    if not ow.master or exists:
                        continue
                    return 'new_account refused a valid request: %s' % cmd
                if not ow.master or exists:
                    return 'new_account succeeded where it must refuse: %s' % cmd
                path_s, addr, wif, idx = val.split('|')
            else:
                if val == 'ERR':
                    if foreign and not ow.master:
                        continue
                    return 'public_master refused: %s' % cmd
                path_s, wif = val.split('|')
            pp = parse_path(path_s)
            ap = _abs(ow, pp[0], pp[1]) if pp else None
            if ap is None or len(ap) != 3 or not all(h for _, h in ap) or ap[0][0] != PURPOSE[wt] or \
                    ap[1][0] != nets()[net]['bip44_cointype']:
                return 'account key of (%s, %s) lies at %s' % (wt, net, path_s)
            a = ap[2][0]
            if acct != '-' and a != int(acct) and ow.master:
                return 'account %s requested, key at %s returned' % (acct, path_s)
            if f[0] == 'A' and a in ow.accounts.get((wt, net), set()):
                return 'new_account returned the existing account %d' % a
            x = der.at(ap)
            if f[0] == 'A':
                e = _material(der, ow, ap, [path_s, addr, wif, idx], wt, net)
                if e:
                    return e
                ow.chain((wt, net, a, 0)).add(0)
                ow.chain((wt, net, a, 1)).add(0)
            else:
                pub = _xser(net, wt, XK(None, x.pt, x.c, x.depth, x.fpr, x.child), False)
                if wif != pub:
                    return 'public_master().wif at %s is %s…, derivation gives %s…' % (path_s, wif[:20], pub[:20])
            ow.accounts.setdefault((wt, net), set()).add(a)
        elif f[0] == 'P':
            ow.explicit = True
            spec, acct, chg, idx, wt, net = f[2], f[3], int(f[4]), int(f[5]), f[6], f[7]
            wt = WTN[wt] if wt != '-' else ow.wt
            net = net if net != '-' else ow.net
            if val == 'ERR':
                if wt != ow.wt and not ow.master:
                    continue
                return 'key_for_path refused: %s' % cmd
            a = int(acct) if acct != '-' else ow.acct
            if not ow.master:
                a = ow.acct
            parts = spec.split('.')
            if parts[0] == 'r':
                chg, idx = int(parts[1]), int(parts[2])
            elif parts[0] == 'f':
                wtp = [w for w, v in PURPOSE.items() if v == int(parts[2][:-1])][0]
                wt, a, chg, idx = wtp, int(parts[4][:-1]), int(parts[5]), int(parts[6])
            err, r = _leaf(der, ow, val, wt, net, a, chg, idx)
            if err:
                return err
            ow.chain((wt, net, a, chg)).add(idx)
            ow.accounts.setdefault((wt, net), set()).add(a)
        elif f[0] == 'X':
            path_s, addr = val.split('|')
            pp = parse_path(path_s)
            ap = _abs(ow, pp[0], pp[1]) if pp else None
            cl = _classify(ow, ap) if ap else None
            if cl is None:
                return 'WalletKey.public() of a key at undocumented path %s' % path_s
        elif f[0] == 'U':
            ow.known_ids.setdefault('used', []).append(int(val))
        elif f[0] == 'D':
            rows = [] if not val else [r.split('|') for r in val.split(',')]
            seen_addr, seen_pos = {}, {}
            chains = {}
            for r in rows:
                (kid, path_s, addr, wif, acct, chg, idx, depth, used, purpose, net, wt, priv, cos) = r
                pp = parse_path(path_s)
                ap = _abs(ow, pp[0], pp[1]) if pp else None
                if ap is None:
                    return 'stored key %s: path %r is not a path of this wallet' % (kid, path_s)
                e = _material(der, ow, ap, [path_s, addr, wif, idx], wt, net)
                if e:
                    return 'stored ' + e
                if int(depth) != len(ap):
                    return 'stored key at %s has depth %s' % (path_s, depth)
                if ap and int(idx) != ap[-1][0]:
                    return 'stored key at %s has address_index %s' % (path_s, idx)
                if bool(int(priv)) != ow.private:
                    return 'stored key at %s is %s in a %s wallet' % (path_s, 'private' if int(priv) else 'public-only',
                                                                      'private' if ow.private else 'watch-only')
                if addr in seen_addr:
                    return 'keys %s and %s share address %s' % (seen_addr[addr], path_s, addr)
                seen_addr[addr] = path_s
                cl = _classify(ow, ap)
                if len(ap) == 5:
                    if cl is None:
                        return 'address key stored at undocumented path %s' % path_s
                    if (cl[0], cl[1]) != (wt, nets()[net]['bip44_cointype']) or int(purpose) != PURPOSE[wt] or \
                            (chg == '-' or int(chg) != cl[3]) or int(acct) != cl[2]:
                        return ('row of %s says (%s, %s, purpose %s, account %s, change %s)' %
                                (path_s, wt, net, purpose, acct, chg))
                    chains.setdefault(cl[:4], set()).add(cl[4])
                    if int(used):
                        ow.used.add(tuple(ap))
            if not ow.explicit:
                for ck, idxs in chains.items():
                    if idxs != set(range(len(idxs))):
                        return 'chain %s has indices %s without any explicit-path request' % (ck, sorted(idxs))
            ow.dump = {r[1]: r[2] for r in rows}
    # restored wallets reproduce the same addresses (same absolute position -> same address)
    pos = {}
    for slot, ow in ws.items():
        for path_s, addr in getattr(ow, 'dump', {}).items():
            pp = parse_path(path_s)
            ap = tuple(_abs(ow, pp[0], pp[1]))
            if len(ap) == 5:
                if ap in pos and pos[ap][0] != addr:
                    return 'wallets %s and %s disagree on the address at %s' % (pos[ap][1], slot, path_s)
                pos[ap] = (addr, slot)
    return None


KNOWN_CLASSES = {}


def reproduce_known(entry, rundir):
    rc, out, err = core.run_impl(IMPL, [entry['witness']['request']], rundir)
    return len(out) == 1 and out[0] == entry['witness']['impl_answer']


def same(c, a, b):
    return a == b


def first_diff(a, b):
    ta, tb = a.split(' '), b.split(' ')
    for i, (x, y) in enumerate(zip(ta, tb)):
        if x != y:
            xs, ys = x.split(','), y.split(',')
            for j, (p, q) in enumerate(zip(xs, ys)):
                if p != q:
                    return 'command %d, item %d: impl %s | model %s' % (i, j, p[:160], q[:160])
            return 'command %d: impl has %d items, model %d' % (i, len(xs), len(ys))
    return 'lengths %d / %d' % (len(ta), len(tb))


# ------------------------------------------------------------------ the flow (core.standard_check, chunked in parallel)
def _chunks(reqs, k):
    idx = [[] for _ in range(k)]
    order = sorted(range(len(reqs)), key=lambda i: -len(reqs[i]))
    load = [0] * k
    for i in order:
        j = load.index(min(load))
        idx[j].append(i)
        load[j] += len(reqs[i])
    return [sorted(x) for x in idx if x]


def _run_parallel(reqs, rundir, exe):
    impl_out, model_out = [None] * len(reqs), [None] * len(reqs)
    errs = []
    chunks = _chunks(reqs, WORKERS)

    def impl_job(n, ix):
        d = os.path.join(rundir, 'chunk%d' % n)
        os.makedirs(os.path.join(d, 'data'), exist_ok=True)
        rc, outs, err = core.run_lines([core.PY, os.path.join(core.VERIF, IMPL)], [reqs[i] for i in ix],
                                       env=core.impl_env(d), timeout=IMPL_TIMEOUT, cwd=d)
        return 'impl', ix, outs, err

    def model_job(n, ix):
        rc, outs, err = core.run_driver(exe, [reqs[i] for i in ix], timeout=IMPL_TIMEOUT)
        return 'model', ix, outs, err

    with concurrent.futures.ThreadPoolExecutor(max_workers=2 * WORKERS) as ex:
        futs = [ex.submit(impl_job, n, ix) for n, ix in enumerate(chunks)]
        if exe:
            futs += [ex.submit(model_job, n, ix) for n, ix in enumerate(chunks)]
        for fu in futs:
            who, ix, outs, err = fu.result()
            if len(outs) != len(ix):
                errs.append('%s produced %d answers for %d requests: %s' % (who, len(outs), len(ix), err[-500:]))
                continue
            for i, o in zip(ix, outs):
                (impl_out if who == 'impl' else model_out)[i] = o
    return impl_out, (model_out if exe else None), errs


def main(tier, seed, replay=None):
    res = core.Result(PROP, tier, seed)
    rundir = core.run_dir(PROP)
    rng = random.Random(seed)
    proof_ok, broken = True, []
    bad = core.scan_forbidden()
    if bad:
        proof_ok = False
        broken.append('forbidden tokens in development: ' + '; '.join(bad[:5]))
    gen_ok, gen_out = core.regenerate(res)
    if not gen_ok:
        proof_ok = False
        broken.append('translator: ' + gen_out[-300:])
    ok, out = core.coq_make(COQ_FILES, timeout=2400)
    if not ok:
        proof_ok = False
        m = re.search(r'File "\./([^"]+)", line (\d+)[^\n]*\n(Error:[^\n]*(?:\n[^\n]*){0,6})', out)
        broken.append('coq build failed: ' + (('%s line %s: %s' % (m.group(1), m.group(2), m.group(3))) if m else out[-600:]))
    else:
        pok, thms, pout = core.check_properties_file(COQ_FILES[-1], ALLOWED_AXIOMS, res)
        if not pok:
            proof_ok = False
            broken.append('Properties file: ' + pout[-400:])
    if proof_ok and tier == 'thorough' and not replay:
        lib = 'Verif.Properties.C09'
        rc_c, out_c = core.sh('timeout 1700 coqchk -o -silent -Q . Verif %s' % lib, cwd=core.COQ, timeout=1730)
        summ = out_c[out_c.find('CONTEXT SUMMARY'):] if 'CONTEXT SUMMARY' in out_c else out_c[-600:]
        res.trusted.append('coqchk -o %s: exit %d; %s' % (lib, rc_c, ' '.join(summ.split())[:900]))
        if rc_c != 0:
            proof_ok = False
            broken.append('coqchk failed: ' + out_c[-300:])
    res.trusted.insert(0, 'Coq 8.16.1 kernel + VM (vm_compute); native_compute not used')
    res.trusted.append(core.EXTRACTION_TB)
    res.trusted.append('translator/gen_all.py (tables regenerated from /repo each run) and harness/*.py; implementation '
                       'adapter calls the public API with PYTHONPATH=/repo and a fresh BCL_DATA_DIR per worker; '
                       'bitcoinlib.wallets.Service replaced by an offline stub')
    res.trusted.append('independent oracle: pure-Python secp256k1 + hashlib BIP32, Base58Check/Bech32 and extended-key '
                       'encoders in harness/props/c09.py (not the library, not the model)')

    exe = None
    exe, dout = core.build_driver(DRIVER)
    if exe is None:
        proof_ok = False
        broken.append('driver build failed: ' + dout[-400:])
    if replay:
        rp = json.load(open(replay))
        cases = [Case(c['kind'], c['req'], c.get('key'), meta=(('expand',) + _expand_meta(c['req'])) if c['kind'] == 'expand'
                      else ('run',)) for c in rp.get('cases', [])]
    else:
        cases = gen_cases(rng, tier if proof_ok else 'thorough')
    failing_input_found = False
    if cases:
        reqs = [c.req for c in cases]
        impl_out, model_out, errs = _run_parallel(reqs, rundir, exe)
        if errs:
            res.notes += errs
            print('note: adapter/driver failure; machinery error', file=sys.stderr)
            core.finish(res, ASSUMPTIONS, RULE)
            sys.exit(2)
        nviol = 0
        nkeys = 0
        for i, c in enumerate(cases):
            res.evaluations += 1
            res.count(c.kind)
            io, mo = impl_out[i], (model_out[i] if model_out is not None else None)
            if not is_trivial(c, io):
                res.distinct.add(c.req)
            nkeys += io.count('|') // 3
            if len(res.samples) < 12 and (i % max(1, len(cases) // 12) == 0):
                res.samples.append({'kind': c.kind, 'request': c.req[:200], 'impl': io[:200],
                                    'model': (mo[:200] if mo is not None else None)})
            try:
                pv = prop_check(c, io)
            except Exception as ex:
                pv = 'oracle could not read the answer (%r): %s' % (ex, io[:120])
            disagree = mo is not None and io != mo
            if pv is None and not disagree:
                continue
            nviol += 1
            if nviol <= 5:
                if pv is not None:
                    failing_input_found = True
                    core.violation(res, 'property fails on the implementation: ' + pv,
                                   {'cases': [{'kind': c.kind, 'req': c.req}], 'impl': io, 'model': mo,
                                    'replay_cmd': './check %s --replay <this file>' % PROP})
                else:
                    core.violation(res, 'correspondence broken (model and implementation differ; property-level check '
                                        'finds no failing input here): kind=%s; %s' % (c.kind, first_diff(io, mo)),
                                   {'cases': [{'kind': c.kind, 'req': c.req}], 'impl': io, 'model': mo,
                                    'obligation': 'correspondence %s/%s' % (PROP, c.kind)}, has_input=False)
        if nviol > 5:
            res.notes.append('%d further disagreements not listed' % (nviol - 5))
        res.cov['key_tokens_compared'] = nkeys
    for e in core.load_known(PROP):
        if e.get('status') != 'known':
            continue
        try:
            rep = reproduce_known(e, rundir)
        except Exception as ex:
            rep = False
            res.notes.append('known finding %s: reproduction crashed: %r' % (e['id'], ex))
        if rep:
            res.known_hits.append(e['id'])
            print('KNOWN-FINDING: property=%s %s' % (PROP, e['what_fails']))
        else:
            res.stale_known.append(e['id'])
    if not proof_ok and not failing_input_found:
        core.violation(res, 'proof obligation no longer checks: ' + ' | '.join(broken),
                       {'obligation': broken, 'note': 'differential + property-level search found no failing input'},
                       has_input=False)
    elif not proof_ok:
        res.notes.append('proof side broken: ' + ' | '.join(broken))
    return core.finish(res, ASSUMPTIONS, RULE)


def _expand_meta(req):
    t = req.split(' ')
    return (t[1], int(t[2]), t[8], int(t[4]), int(t[5]), int(t[6]), int(t[7]))
