"""C09 — wallet keys follow BIP44/49/84/48 paths and restore deterministically.

History differential: every request line is a whole scenario (one seed, several wallets, a history of key
operations with Reopen in between, restores from seed / mnemonic / xprv / account xpub).  The implementation
adapter runs it on real wallets (one sqlite file each), the extracted model recomputes every key from the seed
alone, and an independent Python oracle (own BIP32 over hashlib + a pure-Python secp256k1, own address and
extended-key encoders, own reading of the BIP path layouts) judges the implementation's answer against the
property statement.  The flow is core.standard_check's, run in parallel chunks."""
import hashlib, hmac, json, os, random, re, sys, time, unicodedata, concurrent.futures
import core
from core import Case

PROP = 'C09'
COQ_FILES = ['Extract/C09.v', 'Proofs/WalletKeys.v', 'Proofs/WalletKeysBook.v', 'Proofs/WalletKeysIssue.v',
             'Proofs/WalletKeysTables.v', 'Proofs/WalletKeysReach.v', 'Proofs/WalletKeysPaths.v', 'Properties/C09.v']
DRIVER = 'c09'
IMPL = 'harness/impl/c09_impl.py'
ALLOWED_AXIOMS = []
ASSUMPTIONS = [
    'theorems are about coq/Model/WalletKeys.v: lib_* mirrors keys.path_expand, main.get_key_structure_data, '
    'HDKey.child_private/child_public, Wallet.create/keys_for_path/new_keys/_get_key/new_account/public_master/scan/'
    'keys (+ keys_addresses, keys_address_payment/_change, addresslist) and WalletKey.from_key for single-signature '
    'bip32 wallets; spec_* is BIP32/39/44/45/48/49/84',
    'tie to /repo: WALLET_KEY_STRUCTURES and KEY_PATH_* are regenerated on every run (translator/gen_walletcfg.py -> '
    'Gen/GenWalletCfg.v), coin types and version bytes come from Gen/GenNetworks.v; Proofs/WalletKeysTables.v proves '
    'that these regenerated tables equal a frozen copy of the documented values on every field the model reads; the '
    'tests in front of "cannot use multiple witness types" (Wallet.keys_for_path) and "A master private key of depth 0 '
    'is needed" (Wallet.new_account) are translated from the source text of wallets.py into boolean functions the model '
    'calls (same file) and proved equal to a frozen copy; every '
    'other lib_* definition is tied by the differential correspondence (whole key table of real wallets after EVERY '
    'command vs the extracted model, from the seed alone)',
    'creation from a mnemonic: wallet_from_mnemonic is the wallet of PBKDF2-HMAC-SHA512(sentence, "mnemonic" || '
    'passphrase, 2048, 64) (spec_bip39_seed); the harness evaluates PBKDF2 with hashlib for most scenarios and the '
    'extracted model evaluates it itself for a few per run; NFKD normalisation is done by the harness (unicodedata)',
    'modelled, not verified: sqlite/SQLAlchemy persistence (Reopen is the identity in the model and a real re-open in the '
    'correspondence), group laws of secp256k1 / collision resistance (distinct paths are proved distinct, distinct '
    'addresses are checked on every run but not proved), import_master_key, explicit "m/..." paths on account-level '
    'wallets, custom key_path / purpose arguments',
    'multisig cosigner wallets: only the index bookkeeping of the main wallet is modelled (ms_* in Model/WalletKeys.v; '
    'theorem for one-at-a-time creation, the bulk / explicit-path class is refuted and recorded as a known class); real '
    'multisig wallets are PROBED: their histories are judged by the independent oracle alone (BIP48/BIP45 paths, m-of-n '
    'script addresses over the cosigners\' BIP32 keys, index invariant after every command), not compared with a model',
    'WalletKey.public() is modelled as repaired by fixes/C09-1 (returns a stripped copy)',
    'reach: the book carries the depth and the privacy of the main key (w_root_depth, w_root_private); the guard of '
    'keys_for_path / new_account is modelled literally (public OR below depth 0).  Two switches of the configuration '
    '(w_guard_reach, w_acct_from_path) say whether the library has fixes/C09-5 / C09-6; the harness asks the library once '
    'per run (probe_library: three requests) and passes the answer in every creation command, so the model mirrors the '
    'library it is compared with; the theorems about other networks / accounts hold for w_guard_reach = true and the '
    'unchanged behaviour is refuted by Examples (known classes)',
    'judged by the independent oracle alone (requests `probe`, `msrun`, `kprun`; no model): single-key wallets, level_offset, '
    'cosigner_id on wallets without cosigners, relative paths that name the account level on account-level wallets, '
    'paths rooted at M on master wallets, multisig cosigner wallets, wallets created with a key_path of their own '
    '(levels coin_type\' / account\' / change / address_index, change and index hardened or not; no purpose level): '
    'every stored row is re-derived from the seed along its STORED path (address, extended key), its columns must be the '
    'items of that path, new rows must continue their (account, change) chain; which level new_account hands out on '
    'such wallets is not judged',
    'domain of the reach rule: a second network always has another BIP44 coin type than the wallet\'s (networks that '
    'share a coin type share their paths); change flags 0 / 1; hardened change / index levels only on watch-only '
    'wallets (where they must be refused)',
]
RULE = ('all networks x witness types at creation with rotating ways of creating the wallet (HDKey from seed, sentence + '
        'password, HDKey.from_passphrase, Mnemonic(language).to_seed in nine languages, extended private / account public / '
        'account private key text written by the harness, HDKey objects of those, exports of a live wallet, '
        'wallet_create_or_open, network / witness type left to the key); seeded random histories of new_key / '
        'new_key_change / new_keys / get_key(s) / get_key(s)_change / new_account / key_for_path (list, string, index-only, '
        'full path) / keys_for_path bulk / scan / public_master / WalletKey.public / mark-used / listings / Reopen (also via '
        'wallet_create_or_open) over accounts 0..3, mixed witness types and second networks; issuance histories that name '
        'indices out of order (high before low, repeats, overlapping bulk ranges) before and between new keys; a '
        'creation / restoration matrix per sentence; multisig 1..3-of-2..3 cosigner wallets on eight networks; table paths '
        'for all six key structures; reach streams: every way of creating a wallet (master private key, account-level '
        'private / public key, single key, multisig cosigner sets; every witness type, rotating networks, default accounts '
        '0..3) x every key-handing entry point (new_key, new_key_change, new_keys, get_key(s)(_change), key_for_path in '
        'every path form, keys_for_path bulk, new_account, public_master, account) x arguments that do and do not fit the '
        'configuration (another witness type / network / account, change 1, hardened levels on watch-only wallets, full '
        'paths above the main key, paths deeper than the key path, level offsets above and below the main key, cosigner '
        'positions in and out of range), each misfit asked twice in a row, followed by ordinary requests; '
        'a frozen corpus of seeds with structurally special key material (private key / chain code / public-key x / '
        'fingerprint starting with one or two zero bytes at each level m, purpose, coin type, account, change, index of '
        'the documented path, per witness type; cosigner keys with a leading zero byte at each BIP48 / BIP45 level) and '
        'the BIP32 test-vector seeds 1-4, each with a creation / restoration matrix and a short history; full and '
        'relative paths that name an account with account_id absent / 0 / equal on default accounts 0 and non-zero, '
        'followed by new_key / get_key / listings of that account; '
        'wallets with a custom key_path (Bitcoin Core style m/account\'/change\'/address_index\' and nine more shapes with '
        'hardened / plain change and index levels, with and without coin type and account level) under new_key(s), '
        'get_key(s)(_change) in bulk, key_for_path([change, index]) with hardened items, keys_for_path(number_of_keys), '
        'scan, new_account, mark-used and Reopen; multisig wallets asked by explicit [change, address_index] paths on both '
        'chains and in bulk, interleaved with new_key / new_key_change / get_key / mark-used / Reopen; '
        'a case is non-trivial when a wallet was created and keys were handed out; distinct by request')
IMPL_TIMEOUT = 3000
WORKERS = 10

# ------------------------------------------------------------------ independent oracle: curve, BIP32, encoders
_P = 2 ** 256 - 2 ** 32 - 977
_N = 0xFFFFFFFFFFFFFFFFFFFFFFFFFFFFFFFEBAAEDCE6AF48A03BBFD25E8CD0364141
_G = (0x79BE667EF9DCBBAC55A06295CE870B07029BFCDB2DCE28D959F2815B16F81798,
      0x483ADA7726A3C4655DA4FBFC0E1108A8FD17B448A68554199C47D08FFB10D4B8)


def _ec_add(p, q):
    if p is None:
        return q
    if q is None:
        return p
    if p[0] == q[0]:
        if (p[1] + q[1]) % _P == 0:
            return None
        lam = 3 * p[0] * p[0] * pow(2 * p[1], -1, _P) % _P
    else:
        lam = (q[1] - p[1]) * pow(q[0] - p[0], -1, _P) % _P
    x = (lam * lam - p[0] - q[0]) % _P
    return x, (lam * (p[0] - x) - p[1]) % _P


_TABLE = None


def _table():
    global _TABLE
    if _TABLE is None:
        t, base = [], _G
        for _ in range(64):
            row, acc = [None], None
            for _j in range(15):
                acc = _ec_add(acc, base)
                row.append(acc)
            t.append(row)
            base = _ec_add(acc, base)
        _TABLE = t
    return _TABLE


def _mul_g(k):
    k %= _N
    t, acc, i = _table(), None, 0
    while k:
        acc = _ec_add(acc, t[i][k & 15])
        k >>= 4
        i += 1
    return acc


def _ser(pt):
    return bytes([2 + (pt[1] & 1)]) + pt[0].to_bytes(32, 'big')


def _h160(b):
    return hashlib.new('ripemd160', hashlib.sha256(b).digest()).digest()


_B58 = '123456789ABCDEFGHJKLMNPQRSTUVWXYZabcdefghijkmnopqrstuvwxyz'


def _b58check(b):
    b += hashlib.sha256(hashlib.sha256(b).digest()).digest()[:4]
    n, s = int.from_bytes(b, 'big'), ''
    while n:
        n, r = divmod(n, 58)
        s = _B58[r] + s
    return '1' * (len(b) - len(b.lstrip(b'\0'))) + s


_B32 = 'qpzry9x8gf2tvdw0s3jn54khce6mua7l'


def _bech32_polymod(values):
    gen, chk = [0x3b6a57b2, 0x26508e6d, 0x1ea119fa, 0x3d4233dd, 0x2a1462b3], 1
    for v in values:
        b = chk >> 25
        chk = (chk & 0x1ffffff) << 5 ^ v
        for i in range(5):
            chk ^= gen[i] if ((b >> i) & 1) else 0
    return chk


def _segwit_addr(hrp, prog):
    acc, bits, data = 0, 0, [0]
    for v in prog:
        acc = (acc << 8) | v
        bits += 8
        while bits >= 5:
            bits -= 5
            data.append((acc >> bits) & 31)
    if bits:
        data.append((acc << (5 - bits)) & 31)
    hx = [ord(c) >> 5 for c in hrp] + [0] + [ord(c) & 31 for c in hrp]
    pm = _bech32_polymod(hx + data + [0] * 6) ^ 1
    return hrp + '1' + ''.join(_B32[d] for d in data + [(pm >> 5 * (5 - i)) & 31 for i in range(6)])


class XK(object):
    __slots__ = ('k', 'pt', 'c', 'depth', 'fpr', 'child')

    def __init__(self, k, pt, c, depth, fpr, child):
        self.k, self.pt, self.c, self.depth, self.fpr, self.child = k, pt, c, depth, fpr, child


def _master(seed):
    i = hmac.new(b'Bitcoin seed', seed, hashlib.sha512).digest()
    k = int.from_bytes(i[:32], 'big')
    return XK(k, _mul_g(k), i[32:], 0, b'\0\0\0\0', 0)


def _ckd(x, idx, hardened):
    """BIP32 CKDpriv when the parent has a private key, CKDpub otherwise"""
    n = idx + (0x80000000 if hardened else 0)
    if x.k is not None:
        data = (b'\0' + x.k.to_bytes(32, 'big') if hardened else _ser(x.pt)) + n.to_bytes(4, 'big')
    else:
        if hardened:
            return None
        data = _ser(x.pt) + n.to_bytes(4, 'big')
    i = hmac.new(x.c, data, hashlib.sha512).digest()
    il = int.from_bytes(i[:32], 'big')
    fpr = _h160(_ser(x.pt))[:4]
    if x.k is not None:
        k = (il + x.k) % _N
        return XK(k, _mul_g(k), i[32:], x.depth + 1, fpr, n)
    return XK(None, _ec_add(_mul_g(il), x.pt), i[32:], x.depth + 1, fpr, n)


PURPOSE = {'legacy': 44, 'p2sh-segwit': 49, 'segwit': 84}
WTN = {'l': 'legacy', 'p': 'p2sh-segwit', 's': 'segwit'}
WTL = {v: k for k, v in WTN.items()}

# Frozen protocol constants of the networks the library documents (never read from /repo at run time):
# name -> (BIP44 coin type, P2PKH version byte, P2SH version byte, Bech32 HRP,
#          {witness type: (extended public key version, extended private key version)})
# bitcoin / testnet / signet: Bitcoin Core chainparams + SLIP-132 (x/y/z, t/u/v); litecoin: Ltub/Ltpv + Mtub/Mtpv,
# coin type 2 (SLIP-44); dogecoin coin type 3; regtest and bitcoinlib_test as the library documents them.
FROZEN_NETS = {
    'bitcoinlib_test': (9999999, '90', '95', 'blt', {'legacy': ('2FFFACCC', '2FFFADDD'), 'p2sh-segwit': ('2FFFAEEE', '2FFFB300'), 'segwit': ('2FFFB666', '2FFFB900')}),
    'bitcoin': (0, '00', '05', 'bc', {'legacy': ('0488B21E', '0488ADE4'), 'p2sh-segwit': ('049D7CB2', '049D7878'), 'segwit': ('04B24746', '04B2430C')}),
    'testnet': (1, '6F', 'C4', 'tb', {'legacy': ('043587CF', '04358394'), 'p2sh-segwit': ('044A5262', '044A4E28'), 'segwit': ('045F1CF6', '045F18BC')}),
    'testnet4': (1, '6F', 'C4', 'tb', {'legacy': ('043587CF', '04358394'), 'p2sh-segwit': ('044A5262', '044A4E28'), 'segwit': ('045F1CF6', '045F18BC')}),
    'signet': (1, '6F', 'C4', 'tb', {'legacy': ('043587CF', '04358394'), 'p2sh-segwit': ('044A5262', '044A4E28'), 'segwit': ('045F1CF6', '045F18BC')}),
    'regtest': (0, '00', '05', 'bcrt', {'legacy': ('0488B21E', '0488ADE4'), 'p2sh-segwit': ('049D7CB2', '049D7878'), 'segwit': ('04B24746', '04B2430C')}),
    'litecoin': (2, '30', '32', 'ltc', {'legacy': ('019DA462', '019D9CFE'), 'p2sh-segwit': ('01B26EF6', '01B26792'), 'segwit': ('01B26EF6', '01B26792')}),
    'litecoin_legacy': (2, '30', '05', 'ltc', {'legacy': ('019DA462', '019D9CFE'), 'p2sh-segwit': ('01B26EF6', '01B26792'), 'segwit': ('01B26EF6', '01B26792')}),
    'litecoin_testnet': (1, '6F', '3A', 'tltc', {'legacy': ('0436F6E1', '0436EF7D'), 'p2sh-segwit': ('0436F6E1', '0436EF7D'), 'segwit': ('0436F6E1', '0436EF7D')}),
    'dogecoin': (3, '1E', '16', 'doge', {'legacy': ('0488B21E', '0488ADE4')}),
    'dogecoin_testnet': (1, '71', 'C4', 'tdoge', {'legacy': ('043587CF', '04358394')}),
}
NET_NAMES = list(FROZEN_NETS)


def coin(net):
    return FROZEN_NETS[net][0]


def _address(net, wt, pt):
    _, pkh, sh, hrp, _ = FROZEN_NETS[net]
    h = _h160(_ser(pt))
    if wt == 'legacy':
        return _b58check(bytes.fromhex(pkh) + h)
    if wt == 'p2sh-segwit':
        return _b58check(bytes.fromhex(sh) + _h160(b'\x00\x14' + h))
    return _segwit_addr(hrp, h)


def _version(net, wt, private):
    v = FROZEN_NETS[net][4].get(wt)
    return bytes.fromhex(v[1 if private else 0]) if v else None


def _xser(net, wt, x, private):
    v = _version(net, wt, private and x.k is not None)
    keydata = (b'\0' + x.k.to_bytes(32, 'big')) if (private and x.k is not None) else _ser(x.pt)
    return _b58check(v + bytes([x.depth]) + x.fpr + x.child.to_bytes(4, 'big') + x.c + keydata)


class Deriver(object):
    """keys below one seed, cached by absolute path"""

    def __init__(self, seed):
        self.cache = {(): _master(seed)}

    def at(self, path):
        path = tuple(path)
        if path not in self.cache:
            parent = self.at(path[:-1])
            self.cache[path] = None if parent is None else _ckd(parent, path[-1][0], path[-1][1])
        return self.cache[path]


def parse_path(s):
    """'m/84'/0'/0'/0/5' -> ('m', [(84, True), ...]); None when malformed"""
    parts = s.split('/')
    if parts[0] not in ('m', 'M'):
        return None
    out = []
    for p in parts[1:]:
        m = re.fullmatch(r"(\d+)('?)", p)
        if not m or int(m.group(1)) >= 0x80000000:
            return None
        out.append((int(m.group(1)), m.group(2) == "'"))
    return parts[0], out


# ------------------------------------------------------------------ BIP39 (independent: hashlib + unicodedata)
# SHA-256 of the nine BIP39 word lists (bitcoin/bips bip-0039/*.txt); a list is read from the tree only to pick
# words and only when it has this digest
WORDLIST_SHA256 = {
    'english': '2f5eed53a4727b4bf8880d8f3f199efc90e58503646d9ff8eff3a2ed3b24dbda',
    'chinese_simplified': '5c5942792bd8340cb8b27cd592f1015edf56a8c5b26276ee18a482428e7c5726',
    'chinese_traditional': '417b26b3d8500a4ae3d59717d7011952db6fc2fb84b807f3f94ac734e89c1b5f',
    'dutch': 'c2019fa4d23ee907c2a7bc30949f42aaa4b59714b464a67c5ed97f5505386567',
    'french': 'ebc3959ab7801a1df6bac4fa7d970652f1df76b683cd2f4003c941c63d517e59',
    'italian': 'd392c49fdb700a24cd1fceb237c1f65dcc128f6b34a8aacb58b59384b5c648c2',
    'japanese': '2eed0aef492291e061633d7ad8117f1a2b03eb80a29d0e4e3117ac2528d05ffd',
    'portuguese': '2685e9c194c82ae67e10ba59d9ea5345a23dc093e92276fc5361f6667d79cd3f',
    'spanish': '46846a5a0139d1e3cb77293e521c2865f7bcdb82c44e8d0a06a2cd0ecba48c0b',
}
LANGS = list(WORDLIST_SHA256)
_WORDS = {}
WORDLIST_NOTES = []


def wordlist(lang):
    """the 2048 words of a language, or None when the file in the tree is not the BIP39 list"""
    if lang not in _WORDS:
        try:
            raw = open(os.path.join(core.REPO, 'bitcoinlib', 'wordlist', lang + '.txt'), 'rb').read()
        except OSError:
            raw = b''
        if hashlib.sha256(raw).hexdigest() == WORDLIST_SHA256[lang]:
            _WORDS[lang] = raw.decode('utf8').split()
        else:
            WORDLIST_NOTES.append('word list %s.txt is not the BIP39 list (digest differs); language not exercised' % lang)
            _WORDS[lang] = None
            if lang == 'english':      # the sentence is only PBKDF2 input: any 2048 words do for picking
                _WORDS[lang] = raw.decode('utf8', 'replace').split() or None
    return _WORDS[lang]


def nfkd(s):
    return unicodedata.normalize('NFKD', s)


def bip39_seed(sentence, password):
    """BIP39 'From mnemonic to seed'"""
    return hashlib.pbkdf2_hmac('sha512', nfkd(sentence).encode('utf8'), b'mnemonic' + nfkd(password).encode('utf8'),
                               2048, 64)


def _mnemonic(rng, lang='english'):
    """a valid BIP39 sentence (entropy + checksum) of the language: (list of words, sentence)"""
    words = wordlist(lang)
    ent = bytes(rng.randrange(256) for _ in range(rng.choice([16, 20, 24, 32])))
    bits = bin(int.from_bytes(ent, 'big'))[2:].zfill(len(ent) * 8) + \
        bin(hashlib.sha256(ent).digest()[0])[2:].zfill(8)[:len(ent) // 4]
    ws = [words[int(bits[i:i + 11], 2)] for i in range(0, len(bits), 11)]
    return ws, ' '.join(ws)


PASSWORDS = ['TREZOR', 'pass word', 'pässwörd', 'ｐａｓｓ', 'パスワード', 'x',
             'correct horse battery staple', 'é́ﬁ']


def _password(rng):
    r = rng.random()
    if r < 0.6:
        return rng.choice(PASSWORDS)
    return ''.join(rng.choice('abcdefghijklmnopqrstuvwxyzABCDEFGHIJKLMNOPQRSTUVWXYZ0123456789 !#$%&*') for _ in
                   range(rng.randrange(1, 14)))


def sentence_token(sentence, password):
    try:
        sentence.encode('ascii')
        tok = sentence.replace(' ', '_')
    except UnicodeEncodeError:
        tok = 'hex:' + sentence.encode('utf8').hex()
    if password:
        tok += '+' + password.encode('utf8').hex()
    return tok


def parse_sentence_token(tok):
    pw = ''
    if '+' in tok:
        tok, pwhex = tok.split('+', 1)
        pw = bytes.fromhex(pwhex).decode('utf8')
    if tok.startswith('hex:'):
        return bytes.fromhex(tok[4:]).decode('utf8'), pw
    return tok.replace('_', ' '), pw


class Scn(object):
    """one scenario: a sentence, a password, the BIP39 seed of both, and commands"""

    def __init__(self, rng, lang='english', password=None, model_seed=False):
        self.lang = lang
        self.words, self.sentence = _mnemonic(rng, lang)
        self.password = password if password is not None else ''
        if model_seed:      # the model computes the seed itself from the bytes it is given: hand over NFKD forms
            self.sentence, self.password = nfkd(self.sentence), nfkd(self.password)
        self.seed = bip39_seed(self.sentence, self.password)
        self.model_seed = model_seed
        self.der = Deriver(self.seed)
        self.cmds = []

    def req(self):
        return 'run %s %s %s' % ('-' if self.model_seed else self.seed.hex(), sentence_token(self.sentence, self.password),
                                 ' '.join(self.cmds))

    # extended keys written by the harness (reference serialization, BIP32)
    def xprv(self, net, wt):
        return _xser(net, wt, self.der.at(()), True)

    def account_key(self, net, wt, acct, private):
        x = self.der.at(((PURPOSE[wt], True), (coin(net), True), (acct, True)))
        if not private:
            x = XK(None, x.pt, x.c, x.depth, x.fpr, x.child)
        return _xser(net, wt, x, private)


def _o(x):
    return '-' if x is None else str(x)


def _second_nets(net):
    """networks whose coin type differs from the wallet's own (a shared coin type is refused / collides by design)"""
    seen, out = {coin(net)}, []
    for n in NET_NAMES:
        if coin(n) not in seen and not n.startswith('dogecoin'):
            seen.add(coin(n))
            out.append(n)
    return out


def _listing(rng, accts, nets2):
    """a Wallet.keys / keys_addresses / keys_address_payment / keys_address_change / addresslist query"""
    how = rng.choice('kkkapcl')
    acct = rng.choice([None, None] + [a for a in accts if a is not None] + [0])
    chg = rng.choice([None, 0, 1])
    depth = rng.choice([None, None, None, 5, 3, 4, 0])
    used = rng.choice([None, None, 0, 1])
    wt = rng.choice([None, None, None, 'l', 'p', 's'])
    net = rng.choice([None, None, None] + list(nets2)) if nets2 else None
    return 'L:a:%s:%s:%s:%s:%s:%s:%s' % (how, _o(acct), _o(chg), _o(depth), _o(used), _o(wt), _o(net))


def gen_history(rng, net, wt, master, explicit, nops, issuance=False):
    """ops on slot 'a' (the wallet under test).  issuance=True concentrates on index issuance: most operations hit
    one chain, explicit indices arrive out of order (high before low, repeats, bulk ranges overlapping existing keys)
    and are interleaved with new_key(s) / get_key(s) / mark-used / reopen."""
    ops = []
    others = [w for w in 'lps' if WTN[w] != WTN[wt]] if (master and not net.startswith('dogecoin')) else []
    nets2 = _second_nets(net) if master else []
    accts = [None]
    have2 = []
    focus = (None, rng.choice([0, 0, 1]))
    p_mixed = 0.2 if not issuance else 0.1
    for _ in range(nops):
        r = rng.random()
        acct = rng.choice(accts)
        chg = rng.choice([0, 0, 1])
        if issuance and rng.random() < 0.7:
            acct, chg = focus
        owt = rng.choice(others) if (others and rng.random() < p_mixed) else None
        onet = rng.choice(have2) if (have2 and rng.random() < p_mixed) else None
        if onet is not None:
            acct = rng.choice([None, 0])
        if issuance:
            # remap the draw: 30% explicit single, 8% bulk, 25% new keys, 14% get keys, 6% used, 8% reopen, 4% account,
            # 5% listing
            if r < 0.30:
                kind = 'P'
            elif r < 0.38:
                kind = 'B'
            elif r < 0.63:
                kind = 'K'
            elif r < 0.77:
                kind = 'G'
            elif r < 0.83:
                kind = 'U'
            elif r < 0.90:
                kind = 'R'
            elif r < 0.93:
                kind = 'S'
            elif r < 0.96:
                kind = 'A' if master else 'K'
            else:
                kind = 'L'
        else:
            if r < 0.22:
                kind = 'K'
            elif r < 0.42:
                kind = 'G'
            elif r < 0.52 and master:
                kind = 'A'
            elif r < 0.60:
                kind = 'U'
            elif r < 0.68:
                kind = 'R'
            elif r < 0.73:
                kind = 'M'
            elif r < 0.78:
                kind = 'X'
            elif r < 0.82:
                kind = 'L'
            elif r < 0.85:
                kind = 'S'
            elif explicit and r < 0.93:
                kind = 'P'
            elif explicit:
                kind = 'B'
            else:
                kind = 'K1'
        if kind == 'K':
            ops.append('K:a:%s:%d:%s:%s:%d' % (_o(acct), chg, _o(owt), _o(onet), rng.choice([1, 1, 1, 2, 3, 5])))
        elif kind == 'K1':
            ops.append('K:a:%s:%d:-:-:1' % (_o(acct), chg))
        elif kind == 'G':
            ops.append('G:a:%s:%d:%s:%s:%d' % (_o(acct), chg, _o(owt), _o(onet), rng.choice([1, 1, 2, 3, 6])))
        elif kind == 'A':
            if nets2 and rng.random() < 0.3:
                n2 = rng.choice(nets2)
                ops.append('A:a:-:%s:%s' % (_o(owt), n2))
                if n2 not in have2:
                    have2.append(n2)
            else:
                a = rng.choice([None, None, rng.randrange(1, 4)])
                ops.append('A:a:%s:%s:-' % (_o(a), _o(owt)))
                for x in (1, 2, 3):
                    if x not in accts and rng.random() < 0.6:
                        accts.append(x)
        elif kind == 'S':
            ops.append('S:a:%d:%s:%s:%s' % (rng.choice([2, 3, 5]), _o(acct if onet is None else None),
                                            _o(rng.choice([None, None, 0, 1])), _o(onet)))
        elif kind == 'U':
            ops.append('U:a:%d' % rng.randrange(0, 40))
        elif kind == 'R':
            ops.append('R:a:o' if rng.random() < 0.3 else 'R:a')
        elif kind == 'M':
            ops.append('M:a:%s:%s:-' % (_o(acct), _o(owt)))
        elif kind == 'X':
            ops.append('X:a:%d' % rng.randrange(0, 40))
        elif kind == 'L':
            ops.append(_listing(rng, accts, have2))
        elif kind == 'P':
            if issuance:
                i = rng.choice([rng.randrange(0, 5), rng.randrange(0, 12), rng.randrange(3, 40)])
                c = chg
            else:
                c, i = rng.choice([0, 1]), rng.choice([0, 1, 2, 5, 9, rng.randrange(0, 30)])
            form = rng.random()
            if form < 0.35:
                ops.append('P:a:r.%d.%d:%s:0:0:%s:-' % (c, i, _o(acct), _o(owt)))
            elif form < 0.43:
                ops.append('P:a:s.%d.%d:%s:0:0:%s:-' % (c, i, _o(acct), _o(owt)))
            elif form < 0.5:
                ops.append('P:a:r.%d:%s:%d:0:%s:-' % (i, _o(acct), c, _o(owt)))
            elif form < 0.75 or not master:
                ops.append('P:a:e:%s:%d:%d:%s:-' % (_o(acct), c, i, _o(owt)))
            else:
                w2 = WTN[owt or wt]
                a = acct or 0
                ops.append("P:a:f.m.%dh.%dh.%dh.%d.%d:%s:0:0:%s:-" % (PURPOSE[w2], coin(net), a, c, i, _o(a), _o(owt)))
        elif kind == 'B':
            c = chg if issuance else rng.choice([0, 1])
            ops.append('B:a:%s:%d:%d:%s:-:%d' % (_o(acct), c, rng.randrange(0, 12 if issuance else 8), _o(owt),
                                                   rng.choice([2, 3, 4])))
    return ops


MASTER_KINDS = ('seed', 'mnem', 'mnemk', 'mnems', 'xprv', 'wkey', 'xprvs', 'xprvk')
ACCOUNT_PUB_KINDS = ('xpub', 'xpubw', 'xpubs', 'xpubk')
ACCOUNT_PRIV_KINDS = ('axprv', 'axprvs', 'axprvk')
NEEDS_SRC = ('xprv', 'wkey', 'xpub', 'xpubw', 'axprv')


def create_cmd(rng, scn, slot, kind, net, wt, acct, src=None, flags=None):
    """C:<slot>:<kind>:<net>:<wt>:<acct>:<src|->:<flags>:<extended key text|->:<language>"""
    wtn = WTN[wt]
    if flags is None:
        flags = ''
        if rng.random() < 0.3:
            flags += 'o'                                  # wallet_create_or_open
        objectlike = kind in ('seed', 'mnemk', 'mnems', 'xprvk', 'xpubk', 'axprvk', 'wkey')
        if rng.random() < 0.25 and (objectlike or (kind == 'mnem' and net == 'bitcoin')):
            flags += 'n'                                  # network left to the key object / the default
        if rng.random() < 0.25 and (objectlike or (kind == 'mnem' and wtn == 'segwit')):
            flags += 'w'                                  # witness type left to the key object / the default
    given = '-'
    if wtn not in FROZEN_NETS[net][4]:
        pass                                              # the network has no such keys; the request must be refused
    elif kind in ('xprvs', 'xprvk'):
        given = scn.xprv(net, wtn)
    elif kind in ('xpubs', 'xpubk'):
        given = scn.account_key(net, wtn, acct, False)
    elif kind in ('axprvs', 'axprvk'):
        given = scn.account_key(net, wtn, acct, True)
    flags += ''.join(x for x in LIBFLAGS if x in 'AP')      # which library the model has to mirror (see probe_library)
    return 'C:%s:%s:%s:%s:%d:%s:%s:%s:%s' % (slot, kind, net, wt, acct, src if kind in NEEDS_SRC else '-', flags or '-',
                                            given, scn.lang)


def master_kinds_for(scn, have_src):
    ks = ['seed', 'mnems', 'xprvs', 'xprvk']
    if scn.lang == 'english':
        ks += ['mnem', 'mnem', 'mnemk']
    if have_src:
        ks += ['xprv']
    return ks


# ------------------------------------------------------------------ frozen corpus: structurally special key material
# Seeds drawn at random never produce a key whose 32-byte private key, chain code, public-key x coordinate or
# fingerprint STARTS WITH ZERO BYTES at a given level of a documented path (1 seed in 256 per level and byte): every
# serialisation of fixed width (ser256 in CKDpriv, the 33-byte keys of CKDpub / HASH160, the 78-byte extended key) is
# exercised only with full-width values.  The seeds below were found once by search with the BIP32 of this file
# (candidates sha256("c09 corpus|<tag>|<i>"); index-level entries by walking the address index) and are frozen here;
# corpus_ok() re-checks every claimed feature with the oracle's own derivation before an entry is used.
#   (tag, feature, zero bytes, level L of m/purpose'/coin'/account'/change/index (0 = m), seed, witness type, network,
#    account, change, index)    feature: priv / chain / pubx = private key / chain code / public-key x of the key at level
#    L; fpr = fingerprint of that key (carried by its children)
CORPUS = [
    ('priv1-L0-l', 'priv', 1, 0, '960ef94c754f6c453ea81d02abef65a783d843db45194164a560df8a0e20ee86', 'l', 'bitcoin', 0, 0, 0),
    ('priv1-L0-p', 'priv', 1, 0, 'bbfba2232b7c33bb78aeea216a67d6432f8bd460ab1129b3835b9339c99e8058', 'p', 'testnet', 0, 1, 0),
    ('priv1-L0-s', 'priv', 1, 0, 'aa94945c39318049af28f9334ad195d25dc378a2612be9ee3f748080a4280271', 's', 'litecoin', 1, 0, 0),
    ('priv1-L1-l', 'priv', 1, 1, 'a37c209024f4bce109cf0760668db19e14c99edf9a7420473465616316677fbd', 'l', 'dogecoin', 3, 1, 0),
    ('priv1-L1-p', 'priv', 1, 1, '13ac080ae6c98f83b3661324e92925137c0163cc8aa8c4bc4ec09533cc04f9e5', 'p', 'signet', 2, 0, 0),
    ('priv1-L1-s', 'priv', 1, 1, '9654a29224e225303f01a71517706d547eb2831634e9361839008763d450e45b', 's', 'litecoin_testnet', 0, 1, 0),
    ('priv1-L2-l', 'priv', 1, 2, 'b5c06f4ab40eb05aa8da6f997dd05bdd26112beaaf9750b0656254797ba5d120', 'l', 'dogecoin_testnet', 0, 0, 0),
    ('priv1-L2-p', 'priv', 1, 2, '373c566eaf935cbf197ffa0970d2b1f05c0f480ea2e6da81578f76839862daf4', 'p', 'regtest', 1, 1, 0),
    ('priv1-L2-s', 'priv', 1, 2, '1685cd37441fbfd369f825361ee0aa943a06fbd9d47c74593d5bd49dd0701b77', 's', 'litecoin_legacy', 3, 0, 0),
    ('priv1-L3-l', 'priv', 1, 3, 'aff258f00407415999a47cd7203f16df6d60ed39e7714d00a8205d11483125eb', 'l', 'testnet', 2, 1, 0),
    ('priv1-L3-p', 'priv', 1, 3, 'ea873ee2fb51b9f94bc7476a868b7d3b8e852854eca600e812d691b12c52f1cd', 'p', 'testnet', 0, 0, 0),
    ('priv1-L3-s', 'priv', 1, 3, 'dbc35b57cf777f2a997fadb4ff6a11f9eb005fba3c356a57876989251b686364', 's', 'litecoin', 0, 1, 0),
    ('priv1-L4-l', 'priv', 1, 4, '4a15c607c6ef17d592abd063e24f08347e409917362b23265eb7f45914f042db', 'l', 'bitcoinlib_test', 1, 0, 0),
    ('priv1-L4-p', 'priv', 1, 4, '0b5c5196fe586e417bf088b35854fe59637617682a7d716d56590c97ce2c0455', 'p', 'signet', 3, 1, 0),
    ('priv1-L4-s', 'priv', 1, 4, '3a3da4f4b5d1200ca4b13a48f4971ccaf5430082fff845b6f78c2c0f0d64e34c', 's', 'litecoin_testnet', 2, 0, 0),
    ('priv1-L5-l', 'priv', 1, 5, '1ba73252c78ac7662add600e94b6b024ad791abf76e0155e6d64836d0671b78e', 'l', 'regtest', 0, 1, 965),
    ('priv1-L5-p', 'priv', 1, 5, '71f1e7c34d9fe5b1a9a6d298a94ab153b97de7c1bcbe33af638cb95cb3486422', 'p', 'regtest', 0, 0, 37),
    ('priv1-L5-s', 'priv', 1, 5, '44fddcc78cf39a93e0a89acfb17f08de9e8e5a0e4110018828554473cd18d3d0', 's', 'litecoin_legacy', 1, 1, 296),
    ('priv2-L0-l', 'priv', 2, 0, 'f0e14794c6f7c5d78e2fe5cdc6914006b54dcba6b7669a74a77762ddaaec55bf', 'l', 'litecoin', 3, 0, 0),
    ('priv2-L0-p', 'priv', 2, 0, '05fc46d7287163c5cdae418075ecb21069ab2d50d8d577f3e821043ecd431a5f', 'p', 'testnet', 2, 1, 0),
    ('priv2-L0-s', 'priv', 2, 0, '2b5e26b469c6321c1d73d5a58fcf8491c809248f330f0d9e2e198abab65ae358', 's', 'litecoin', 0, 0, 0),
    ('priv2-L1-l', 'priv', 2, 1, '7b37975cb8632fd8e8376b2086e578a4ea8dd475ad6b2e2b41f9751faa810663', 'l', 'signet', 0, 1, 0),
    ('priv2-L1-p', 'priv', 2, 1, '06e5537312e668e9ad9212ba8730894035e8062b3ea6155321c715d8ad0c260f', 'p', 'signet', 1, 0, 0),
    ('priv2-L1-s', 'priv', 2, 1, 'e89672f614eb41d3bf80c756564490233eaa7bf925f8036117c45dc5917080a9', 's', 'litecoin_testnet', 3, 1, 0),
    ('priv2-L2-l', 'priv', 2, 2, '653397b90e1acc180af94b53beb6377ddc0cc90ec55ccec3907f7b518c64cbd7', 'l', 'bitcoin', 2, 0, 0),
    ('priv2-L2-p', 'priv', 2, 2, 'e6e11e7ad4a5a9d3c09228f2763e4b40ad458e63be7d6d31db68c44d9376e788', 'p', 'regtest', 0, 1, 0),
    ('priv2-L2-s', 'priv', 2, 2, '76d1f792c7a677711da36d7528e63ba0e9ba0b8dc0a08ee8b0f229dab30387ed', 's', 'litecoin_legacy', 0, 0, 0),
    ('priv2-L3-l', 'priv', 2, 3, '906ba1625ad0e387ffc890f0a9f98c680ecde930f39a02f8c13d4e23f5a1cdf5', 'l', 'dogecoin', 1, 1, 0),
    ('priv2-L3-p', 'priv', 2, 3, '216676dcd1c7f42069ea3342e9c308cfd7438738bd41fc164fe4d03ab9c04422', 'p', 'testnet', 3, 0, 0),
    ('priv2-L3-s', 'priv', 2, 3, 'c5e318708c647163dd1cbd8ba4f362b479ff19f9cf24738a582bca757b217086', 's', 'litecoin', 2, 1, 0),
    ('priv2-L5-l', 'priv', 2, 5, '93f2a37ff4ae8c04d5fa17d081b77dc163bc1582dbc50dbffa273f1f01c6d946', 'l', 'dogecoin_testnet', 0, 0, 47763),
    ('priv2-L5-p', 'priv', 2, 5, '3ba275da84a5c299085b8980653b293f216fb485860d98fe9743969cbd0c12f4', 'p', 'signet', 0, 1, 172961),
    ('priv2-L5-s', 'priv', 2, 5, '6e987fe5b1e27ae1bf19685ee05de990fcbe68a8efbf9d317c07396bb42aac4b', 's', 'litecoin_testnet', 1, 0, 78271),
    ('chain1-L0-l', 'chain', 1, 0, '93d7607760a3e1d8d641c5a389841d99da2f913ceb6159c094ceaf8f98fce08d', 'l', 'testnet', 3, 1, 0),
    ('chain1-L0-p', 'chain', 1, 0, '09d5816b11f34ccb836e70f89e22a52591b719ea6999057149678d94fc35a4e1', 'p', 'regtest', 2, 0, 0),
    ('chain1-L0-s', 'chain', 1, 0, 'cdeaefa3cf0f075a58400a0cfe3afa21a8e70fa891470f40148f901343b556ee', 's', 'litecoin_legacy', 0, 1, 0),
    ('chain1-L1-l', 'chain', 1, 1, 'ca26cddb91be0300468d8330ba52e1b90b0c036bf2ff0a6fb551449867da2600', 'l', 'bitcoinlib_test', 0, 0, 0),
    ('chain1-L1-p', 'chain', 1, 1, 'e0d3e3fb605bf9b58185daa885ae667db22ed79736c93baaef5892c26dce0a03', 'p', 'testnet', 1, 1, 0),
    ('chain1-L1-s', 'chain', 1, 1, '4a47d522c58bc9de66acefd84bbf3fdfcf59fc2e247c4b2aa228e643eaec602e', 's', 'litecoin', 3, 0, 0),
    ('chain1-L2-l', 'chain', 1, 2, '0c8e3e0e025fac392f2fc178f07bcc4e192102ef3c25562a277fdf469fecce5b', 'l', 'regtest', 2, 1, 0),
    ('chain1-L2-p', 'chain', 1, 2, '79a04f11a649e5fa21ac075bf7d84ae596f210783c9a2bab8d2f6d4a4dc31106', 'p', 'signet', 0, 0, 0),
    ('chain1-L2-s', 'chain', 1, 2, '409cbd6ede2dad6cc2b388ecb11cdcbaf487dd4f7a488f1c94bb64b21312c945', 's', 'litecoin_testnet', 0, 1, 0),
    ('chain1-L3-l', 'chain', 1, 3, '49712879163a0af96a8125a8bb0b295a794b482fa961df1c6e81e6fc16a59098', 'l', 'litecoin', 1, 0, 0),
    ('chain1-L3-p', 'chain', 1, 3, 'b974a3376e603987d531e1cfbd6d0f21480001b877294c4750aa35b83acb93f9', 'p', 'regtest', 3, 1, 0),
    ('chain1-L3-s', 'chain', 1, 3, 'cd6f0c8fb5d8517f50e0d66bdb485e90ad625ba70c92546dddeeaf171be3d908', 's', 'litecoin_legacy', 2, 0, 0),
    ('chain1-L4-l', 'chain', 1, 4, '6a9de73ae4b1e406b973d6e36dc52d4b9bfed9e3ec061b80735bd24b579f4328', 'l', 'signet', 0, 1, 0),
    ('chain1-L4-p', 'chain', 1, 4, 'e02e6291802c84779dd2f2719af4cd1923cc0287896c3eb42265351ee3787289', 'p', 'testnet', 0, 0, 0),
    ('chain1-L4-s', 'chain', 1, 4, '06aa47fe64edd66f2b4f9df8de0d06743ebd803d6716cb5ad499033be18f601f', 's', 'litecoin', 1, 1, 0),
    ('chain1-L5-l', 'chain', 1, 5, '6bd828922c862f140765f0fa452c7d41d8703e4534608e4f6bd04ed0577eccbd', 'l', 'bitcoin', 3, 0, 42),
    ('chain1-L5-p', 'chain', 1, 5, 'f411c72577a035b81092f411e3f49ee54f6e6a1c3c00d317e5da4ae67c4be025', 'p', 'signet', 2, 1, 120),
    ('chain1-L5-s', 'chain', 1, 5, '5f9c3c64b194465b893057561efdeee8d54c1807fb1ff39011e1fd7c43d801fa', 's', 'litecoin_testnet', 0, 0, 30),
    ('chain2-L0-l', 'chain', 2, 0, 'd26f712ac0589090a0be52e9dbe3b7c0961475b0c0abd48450956d32f446dc8d', 'l', 'dogecoin', 0, 1, 0),
    ('chain2-L0-p', 'chain', 2, 0, '00566d69d884476ab5cc6d9546cf4e7fcabb4817deae9b626e70c1b83c41edce', 'p', 'regtest', 1, 0, 0),
    ('chain2-L0-s', 'chain', 2, 0, '10f9b2f351526bad8488517dc5f1d1848f8257da4b8c4c268d64daa3ed162d29', 's', 'litecoin_legacy', 3, 1, 0),
    ('chain2-L1-l', 'chain', 2, 1, '7c862094b2aa8b802e42c3cfb3cb169a959748fb6b254de17089de380c1f2225', 'l', 'dogecoin_testnet', 2, 0, 0),
    ('chain2-L1-p', 'chain', 2, 1, 'ad92d07087afbba36f79c48e6199411aa5197f31e8b7195b4a8b060a8f0640a3', 'p', 'testnet', 0, 1, 0),
    ('chain2-L1-s', 'chain', 2, 1, 'd10537308317afbf6225bb1de7adddecad6046373744a63c67ad218ae2395577', 's', 'litecoin', 0, 0, 0),
    ('chain2-L2-l', 'chain', 2, 2, '6ca94ca8c567b6d82a3f324a7c9e2784dab2c3d6a6347a1c799683711ce77f60', 'l', 'testnet', 1, 1, 0),
    ('chain2-L2-p', 'chain', 2, 2, 'c1086bed366a2693657d61be52e9176c8a957f6e9e48ae14f3fdde9553249487', 'p', 'signet', 3, 0, 0),
    ('chain2-L2-s', 'chain', 2, 2, 'b1cd2955fd25c2ebcbebc0c3ca166fb394e6abc0f4aa93f15c90d8e6f6ae65ed', 's', 'litecoin_testnet', 2, 1, 0),
    ('chain2-L3-l', 'chain', 2, 3, 'c3addf473f136703beb7e74d57d7d0e080f3f999e32dcc9ef34a96008d813b2c', 'l', 'bitcoinlib_test', 0, 0, 0),
    ('chain2-L3-p', 'chain', 2, 3, '9277d9190b9c4bf19686b68f8da5162e67770f7e1be8140ca41a5ca2e8794704', 'p', 'regtest', 0, 1, 0),
    ('chain2-L3-s', 'chain', 2, 3, '588bd7c8a9e8baa1a5719b4e7ddf3aa48f9cbe93d03b6840c164d5e3a64a1a4e', 's', 'litecoin_legacy', 1, 0, 0),
    ('chain2-L5-l', 'chain', 2, 5, '0193190e5b872bed24f3174c72c354c7c3ba2332f1aabdcb6c78560af207b0c1', 'l', 'regtest', 3, 1, 166345),
    ('chain2-L5-p', 'chain', 2, 5, '0b6dd325d92001361993ed4560c71c752f1ea4dda7e842b0197ad1eab577d1c3', 'p', 'testnet', 2, 0, 139369),
    ('chain2-L5-s', 'chain', 2, 5, '775844f69e88a4a375bebc1bdc01031d36177085180e1f710d97b2e286832173', 's', 'litecoin', 0, 1, 17471),
    ('pubx1-L0-l', 'pubx', 1, 0, '00b2fc8fd16b77624cb7baa74e87fdd625190b0af4365cff68ef62bf8c18086b', 'l', 'litecoin', 0, 0, 0),
    ('pubx1-L0-p', 'pubx', 1, 0, 'b863f115a680cb2e81d95d7e72a065fa748a8152e17d2bbb8070611fd1c147fc', 'p', 'signet', 1, 1, 0),
    ('pubx1-L0-s', 'pubx', 1, 0, 'd3da0dbdeea53d1e84703d237b00e302b0f8f461cba3ef3a6a9d4057f82a1418', 's', 'litecoin_testnet', 3, 0, 0),
    ('pubx1-L1-l', 'pubx', 1, 1, 'a41dac64769e84e59fcfc598b80c88a622c690a59f2bf1330e4b004a66b7af8a', 'l', 'signet', 2, 1, 0),
    ('pubx1-L1-p', 'pubx', 1, 1, '16474c476283e7b9446a39fa1ead72283677f582b7528b5d645b3db96a843b8a', 'p', 'regtest', 0, 0, 0),
    ('pubx1-L1-s', 'pubx', 1, 1, '74a63a731912336ff090de88b9823f95f78c9d9c4b5dea0e58c7bde72359dcd1', 's', 'litecoin_legacy', 0, 1, 0),
    ('pubx1-L2-l', 'pubx', 1, 2, '66efc64a0ae8b79f54efc97d0531ce5ab8b99a5feedac77ac102e581f27aa6ff', 'l', 'bitcoin', 1, 0, 0),
    ('pubx1-L2-p', 'pubx', 1, 2, '0c40954c42bded9dce19c5e2f8de9aa812317da2a7e05e4b205f9353e039f848', 'p', 'testnet', 3, 1, 0),
    ('pubx1-L2-s', 'pubx', 1, 2, 'e603fa0ce033617edefd65dab010a430e53c65dd22a567b07e8755de31dcdfdb', 's', 'litecoin', 2, 0, 0),
    ('pubx1-L3-l', 'pubx', 1, 3, 'cb21754bce3be0d1fd00f7a40035657b0133af6401dbde0e2ee1b58987d0a42c', 'l', 'dogecoin', 0, 1, 0),
    ('pubx1-L3-p', 'pubx', 1, 3, '191e3fedc55d2314253a044e9992a4ad4f2dcc222be21d8224be5d7f62f14787', 'p', 'signet', 0, 0, 0),
    ('pubx1-L3-s', 'pubx', 1, 3, '74e9eedd78d3064a44176d06d2530c1efeebceda84624a99b890197cbccd12ed', 's', 'litecoin_testnet', 1, 1, 0),
    ('pubx1-L4-l', 'pubx', 1, 4, '02fcf8941f6c174d18843cb807f4091264099896bc42bbdf88d83908bf337a4f', 'l', 'dogecoin_testnet', 3, 0, 0),
    ('pubx1-L4-p', 'pubx', 1, 4, '1027ef55f94313f35e4420bb18e84e6042853428e23c8535bbba08c19aeacb7b', 'p', 'regtest', 2, 1, 0),
    ('pubx1-L4-s', 'pubx', 1, 4, '934494bbb97711dfd63edd9f8f3693ee41f06f77846c66d0bf995d196254399e', 's', 'litecoin_legacy', 0, 0, 0),
    ('pubx1-L5-l', 'pubx', 1, 5, 'c081701cf85a7a1951f7df3b222d3128d1723a24cd220d4a172e959db4200b32', 'l', 'testnet', 0, 1, 164),
    ('pubx1-L5-p', 'pubx', 1, 5, 'bec5311968f31097b3af1a22e1e9621a590621ac22ce176bd600fc1e2c80afbc', 'p', 'testnet', 1, 0, 221),
    ('pubx1-L5-s', 'pubx', 1, 5, 'd80d9b1e72bcb280a7bb9d1fc5999152c00566c32f4e03b3e42f584b900acb4d', 's', 'litecoin', 3, 1, 86),
    ('fpr1-L0-l', 'fpr', 1, 0, '23a37d7917d4d8606f7ddb508b72b1958df211bafb6e5809308569c8404270ce', 'l', 'bitcoinlib_test', 2, 0, 0),
    ('fpr1-L0-p', 'fpr', 1, 0, '36e6cf7f4a3650b2c53bb286cad072a8d6f504c596fca6862b8953544df3bcfa', 'p', 'signet', 0, 1, 0),
    ('fpr1-L0-s', 'fpr', 1, 0, '20c1265b50f94b7be9112b3238f188b9c3cdf8bb3ada997560077e979eced592', 's', 'litecoin_testnet', 0, 0, 0),
    ('fpr1-L1-l', 'fpr', 1, 1, 'a44c32e1b8d4bb7ddd8c65de051a8495c3714d7d23db8f1fd8a110a238e616a1', 'l', 'regtest', 1, 1, 0),
    ('fpr1-L1-p', 'fpr', 1, 1, 'e298e00add97d6f22f06cb634b914614da6e56f9f7b0d738981c77560f43d833', 'p', 'regtest', 3, 0, 0),
    ('fpr1-L1-s', 'fpr', 1, 1, '433c88a7ba53d909fbf816eb01798e41c22526a92e00750a910ca68c20d21af8', 's', 'litecoin_legacy', 2, 1, 0),
    ('fpr1-L2-l', 'fpr', 1, 2, 'dfcd0777b98ed821d97c85492c3fe8f9df26641c63e91b473a35cc0086f4f775', 'l', 'litecoin', 0, 0, 0),
    ('fpr1-L2-p', 'fpr', 1, 2, '49cadc301dd218c5eeb4e8f3523fc2ffdfac395ba7276eba90479d0a8f24f004', 'p', 'testnet', 0, 1, 0),
    ('fpr1-L2-s', 'fpr', 1, 2, 'eda063899b646d7c985afdde13d8a0ac416f0d07c7bb7438384eb99959856db2', 's', 'litecoin', 1, 0, 0),
    ('fpr1-L3-l', 'fpr', 1, 3, 'cc6048d7bad7d87520022664b0983364b2600c6fa52e4b5e59bbd9c7ab26c639', 'l', 'signet', 3, 1, 0),
    ('fpr1-L3-p', 'fpr', 1, 3, '3cb11288db337e3438563dd304c706f8f46c8c655ab7bdf8dff8c952ba81456d', 'p', 'signet', 2, 0, 0),
    ('fpr1-L3-s', 'fpr', 1, 3, 'ea90a902777a1be5d25008f91339b8008815f4285243043d48b3ff6ed31f03ec', 's', 'litecoin_testnet', 0, 1, 0),
    ('fpr1-L4-l', 'fpr', 1, 4, '5bddb2377084566b5de5324d9555dcde17958568a854e212db7a832c3be787a4', 'l', 'bitcoin', 0, 0, 0),
    ('fpr1-L4-p', 'fpr', 1, 4, '85c5eb287808e88991f08bc2061441da444add25dfdfb3660fd68fb3382597c2', 'p', 'regtest', 1, 1, 0),
    ('fpr1-L4-s', 'fpr', 1, 4, '8b0d661c0906960d05c4297c3dcf25c4378cb9cf2df5d114b542dd27b1b0ff62', 's', 'litecoin_legacy', 3, 0, 0),
    ('fpr1-L5-l', 'fpr', 1, 5, 'd48906d31d62170be5ef4f207f8aa49cd2f9b478bd0fc85a49b6bd1d81b71caa', 'l', 'dogecoin', 2, 1, 163),
    ('fpr1-L5-p', 'fpr', 1, 5, '6baa0adad9cbb5ba69d914097150e9a9c8a73c031086aaa2b0c9e66906318a60', 'p', 'testnet', 0, 0, 88),
    ('fpr1-L5-s', 'fpr', 1, 5, 'bd96b54a7a6173efa2519e151a1b91b7a5ef382dbe093f033cca0d297caf2888', 's', 'litecoin', 0, 1, 287),
]
# multisig cosigner wallets (msrun): the key of cosigner `who` at level L of m/48'/coin'/0'/script' (BIP45: m/45') starts
# with a zero byte.   (tag, level, base seed, network, witness type, cosigners, required, own position, who)
MS_CORPUS = [
    ('ms-priv1-L0-p-own', 0, 'fb5f4ffdcf880bf85712cfd9b36514985ead7c57cedb5de75e3cf3f83a0dcd89', 'bitcoin', 'p', 3, 2, 1, 1),
    ('ms-priv1-L0-p-other', 0, '18ed5048e34a0df00a28cf7622a05f414cfe7d06385b837eeca9ae37817c5661', 'testnet', 'p', 2, 1, 0, 1),
    ('ms-priv1-L1-p-own', 1, '7b38470d7e55128ec1ec6a87b252f80b318a6168566f1a4e01cd82828e2c3544', 'litecoin', 'p', 3, 1, 0, 0),
    ('ms-priv1-L1-p-other', 1, '81788feac6bfbf712b9bc5b5cc8508b0753ba20bd7254cf00cbb1c2965539e2b', 'bitcoinlib_test', 'p', 2, 1, 0, 1),
    ('ms-priv1-L2-p-own', 2, '8d9884b94e1c74d5a920b1dfc7af450cf4af0c69a1c3105872486846a7cce3bd', 'signet', 'p', 3, 3, 2, 2),
    ('ms-priv1-L2-p-other', 2, 'c120be30d9fa0820796a7594a5621d1853aee2aebaf8a87e6d483b666ea84635', 'regtest', 'p', 2, 1, 0, 1),
    ('ms-priv1-L3-p-own', 3, '322e090060390ed36a1ccc11bba56a59d63b380bb191e167a6fcf1013399a0fa', 'bitcoin', 'p', 3, 2, 1, 1),
    ('ms-priv1-L3-p-other', 3, '60a5e5184e7659a4f53f0a8e57514f71c4ca7d1c168dc009188cce64f8271215', 'testnet', 'p', 2, 1, 0, 1),
    ('ms-priv1-L4-p-own', 4, 'dddd781aaf6fdb72c5ebcd8cf27cc081ea808f8c23b446a4a6aa046b2373691e', 'litecoin', 'p', 3, 1, 0, 0),
    ('ms-priv1-L4-p-other', 4, 'db15be6f71606df994d34cc561e9190bc11bf485cf15c7e6df3561948f611daf', 'bitcoinlib_test', 'p', 2, 1, 0, 1),
    ('ms-priv1-L0-s-own', 0, 'e44aed8f213a8130d5e550f6758869519191392e23b2f70ab3a60896a450d9d7', 'signet', 's', 3, 3, 2, 2),
    ('ms-priv1-L0-s-other', 0, 'b7bf3ebbb730d1cc97041597ceea7797878243276d4cf1fbb20f222fdb9c316e', 'regtest', 's', 2, 1, 0, 1),
    ('ms-priv1-L1-s-own', 1, 'f630adc5b10830dce5d06f3367fd9c6fd04b318e3b780325efd793d928dc0979', 'bitcoin', 's', 3, 2, 1, 1),
    ('ms-priv1-L1-s-other', 1, '1089c62bfd505ce90670079ac938b64f815026c665b796e2d78eb660032d5c9f', 'testnet', 's', 2, 1, 0, 1),
    ('ms-priv1-L2-s-own', 2, '5149c068f730f611e7beb0ec335ea38432a18bf560fde79516cbd77f4c3140c9', 'litecoin', 's', 3, 1, 0, 0),
    ('ms-priv1-L2-s-other', 2, 'd7e6ecb9425058c81f905b5ea1f21cc361b1ce0d01629e57e59e19ab46b4215a', 'bitcoinlib_test', 's', 2, 1, 0, 1),
    ('ms-priv1-L3-s-own', 3, '6ecafa07deddc42190e88c8a0b21b57f28d3a78ff49f1e1eeee119258bfbf8b2', 'signet', 's', 3, 3, 2, 2),
    ('ms-priv1-L3-s-other', 3, 'ef022142412a30464160e70243e582d185dccb0ce022088bce57cc74fa247acc', 'regtest', 's', 2, 1, 0, 1),
    ('ms-priv1-L4-s-own', 4, '60c65f05a6a1682accc3b736d643b92b30b1cdcd81d3226386ca401e7d337a22', 'bitcoin', 's', 3, 2, 1, 1),
    ('ms-priv1-L4-s-other', 4, '2090739d8d0fcf2066e314b85eeeeeec091532cbe98af196b672352afd2966af', 'testnet', 's', 2, 1, 0, 1),
    ('ms-priv1-L0-l-own', 0, '3626f962888f9e375096f284d2024271165ca277f64d0ac114e684164f0ea5ba', 'litecoin', 'l', 3, 1, 0, 0),
    ('ms-priv1-L0-l-other', 0, 'b10044e035e3c8dfcd1f62dc157cfc04ed17076c524bebc7a0166143cfd6cce2', 'bitcoinlib_test', 'l', 2, 1, 0, 1),
    ('ms-priv1-L1-l-own', 1, 'a1a208b35d1163dec0ff4b424413d15a55a84fd07fda3d95f7ae9f10f2eaa210', 'signet', 'l', 3, 3, 2, 2),
    ('ms-priv1-L1-l-other', 1, '9ac55557800aaa4fbadcd6ece937eb7f37b28ac0d785e31519e9af465173d97b', 'regtest', 'l', 2, 1, 0, 1),
]

# BIP32 test vectors 1-4 (vector 5 lists invalid extended keys only, it has no seed).  Vector 3 was added to BIP32 for
# "retention of leading zeros" (master key 00ddb80b...), vector 4 for leading zeros in a hardened child
BIP32_TV_SEEDS = [
    (1, '000102030405060708090a0b0c0d0e0f'),
    (2, 'fffcf9f6f3f0edeae7e4e1dedbd8d5d2cfccc9c6c3c0bdbab7b4b1aeaba8a5a29f9c999693908d8a8784817e7b7875726f6c696663605d5a5754'
        '514e4b484542'),
    (3, '4b381541583be4423346c643850da4b320e46a87ae3d2a4e6da11eba819cd4acba45d239319ac14f863b8d5ab5a0d0c64d2e8a1e7d1457df2e5a'
        '3c51c73235be'),
    (4, '3ddd5602285899a946114506157c7997e5444528f3003f6134712147db19b678'),
]
# chain m/0H of each vector as BIP32 prints it (checked against the oracle's own derivation in corpus_selfcheck)
BIP32_TV_M0H = {
    1: 'xprv9uHRZZhk6KAJC1avXpDAp4MDc3sQKNxDiPvvkX8Br5ngLNv1TxvUxt4cV1rGL5hj6KCesnDYUhd7oWgT11eZG7XnxHrnYeSvkzY7d2bhkJ7',
    3: 'xprv9uPDJpEQgRQfDcW7BkF7eTya6RPxXeJCqCJGHuCJ4GiRVLzkTXBAJMu2qaMWPrS7AANYqdq6vcBcBUdJCVVFceUvJFjaPdGZ2y9WACViL4L',
    4: 'xprv9vB7xEWwNp9kh1wQRfCCQMnZUEG21LpbR9NPCNN1dwhiZkjjeGRnaALmPXCX7SgjFTiCTT6bXes17boXtjq3xLpcDjzEuGLQBM5ohqkao9G',
}


def _feature(x, feat, n):
    z = b'\0' * n
    if feat == 'priv':
        return x.k.to_bytes(32, 'big')[:n] == z
    if feat == 'chain':
        return x.c[:n] == z
    if feat == 'pubx':
        return x.pt[0].to_bytes(32, 'big')[:n] == z
    return feat == 'fpr' and _h160(_ser(x.pt))[:n] == z


def corpus_ok(e):
    """the entry has the feature it claims (oracle's own BIP32)"""
    tag, feat, n, level, seedhex, wt, net, acct, chg, idx = e
    path = [(PURPOSE[WTN[wt]], True), (coin(net), True), (acct, True), (chg, False), (idx, False)]
    return _feature(Deriver(bytes.fromhex(seedhex)).at(path[:level]), feat, n)


def ms_corpus_ok(e):
    tag, level, seedhex, net, wt, ncos, m, own, who = e
    path = [(45, True)] if wt == 'l' else [(48, True), (coin(net), True), (0, True), (1 if wt == 'p' else 2, True)]
    return _feature(Deriver(cosigner_seed(bytes.fromhex(seedhex), who)).at(path[:level]), 'priv', 1)


def corpus_selfcheck():
    """notes about the frozen material that does not check (such entries are left out)"""
    notes = []
    for v, want in BIP32_TV_M0H.items():
        x = Deriver(bytes.fromhex(dict(BIP32_TV_SEEDS)[v])).at(((0, True),))
        if _xser('bitcoin', 'legacy', x, True) != want:
            notes.append('oracle BIP32 does not reproduce test vector %d chain m/0H' % v)
    return notes


class SeedScn(Scn):
    """a scenario on a given seed (no sentence: only the ways of creating a wallet that do not go through BIP39)"""

    def __init__(self, seed):
        self.lang, self.words, self.sentence, self.password = 'english', [], 'seed', ''
        self.seed, self.model_seed, self.der, self.cmds = seed, False, Deriver(seed), []


def corpus_cmds(rng, scn, j, wt, net, acct, chg, idx, big, restores=2, feat='priv'):
    """creation / restoration matrix and a short key history on one special seed (quick: `restores` of the three
    levels of restore, the one the feature bears on first)"""
    doge = net.startswith('dogecoin')
    cmds = [create_cmd(rng, scn, 'a', 'seed', net, wt, acct, flags=''),
            'G:a:-:0:-:-:2', 'G:a:-:1:-:-:1', 'P:a:r.%d.%d:-:0:0:-:-' % (chg, idx), 'K:a:-:%d:-:-:1' % chg, 'M:a:-:-:-']
    if not doge:
        cmds.append('K:a:-:0:%s:-:1' % 'lps'[('lps'.index(wt) + 1 + j % 2) % 3])
    cmds += ['R:a', 'A:a:-:-:-', 'K:a:-:0:-:-:1', 'D:a']
    kinds = [['xprvs', 'xprvk', 'xprv'][j % 3], ['xpubs', 'xpub', 'xpubk', 'xpubw'][j % 4], ['axprvs', 'axprv', 'axprvk'][j % 3]]
    if big:
        kinds += [['xprvk', 'xprv', 'xprvs'][j % 3], ['xpubk', 'xpubw', 'xpubs', 'xpub'][j % 4]]
    elif restores >= 2:
        del kinds[j % 3]          # quick: two of the three levels of restore, rotating
    else:
        # one restore: a public key with leading zeros bears on CKDpub (watch-only account wallets), a private key on
        # the extended private keys
        kinds = [kinds[1]] if feat == 'pubx' else [kinds[(0, 2, 1)[j % 3]]] if feat in ('chain', 'fpr') else [kinds[(0, 2)[j % 2]]]
    for n, kind in enumerate(kinds):
        slot = 'r%d' % n
        cmds += [create_cmd(rng, scn, slot, kind, net, wt, acct, src='a', flags=('o' if (j + n) % 4 == 0 else '')),
                 'G:%s:-:0:-:-:2' % slot, 'P:%s:r.%d.%d:-:0:0:-:-' % (slot, chg, idx)]
        if n % 2 == j % 2:
            cmds.append('R:%s' % slot)
        cmds += ['K:%s:-:%d:-:-:1' % (slot, chg), 'D:%s' % slot]
    return cmds


def gen_corpus(rng, big):
    cs = []
    nets_l = ['bitcoin', 'testnet', 'litecoin', 'dogecoin', 'bitcoinlib_test', 'signet', 'dogecoin_testnet', 'regtest']
    nets_ps = ['bitcoin', 'testnet', 'litecoin', 'bitcoinlib_test', 'signet', 'litecoin_testnet', 'testnet4', 'regtest']
    # quick: a private key with one leading zero byte at each parent of a hardened derivation (m, purpose, coin type,
    # account) for every witness type; of the other (feature, bytes, level, witness type) entries every seventh, a
    # different seventh for different run seeds; thorough: everything
    j = 0
    off = rng.randrange(7 * 4)          # which part of the rest a quick run takes depends on the run's seed
    for i, e in enumerate(CORPUS):
        tag, feat, n, level, seedhex, wt, net, acct, chg, idx = e
        core_entry = feat == 'priv' and n == 1 and level <= 3
        if not big and not core_entry and (i + off) % 7 != 0:
            continue
        if not corpus_ok(e):
            continue
        scn = SeedScn(bytes.fromhex(seedhex))
        scn.cmds = corpus_cmds(rng, scn, j, wt, net, acct, chg, idx, big, restores=2 if core_entry else 1, feat=feat)
        cs.append(Case('corpus_' + feat, scn.req(), meta=('run',)))
        j += 1
    # BIP32 test-vector seeds, every witness type (quick: vector 3 on every witness type, the others rotating)
    for v, seedhex in BIP32_TV_SEEDS:
        for k, wt in enumerate('lps'):
            if not big and v != 3 and (v, k) != ((1, 2, 4)[off % 3], off % 3):
                continue
            net = (nets_l if wt == 'l' else nets_ps)[j % 8]
            scn = SeedScn(bytes.fromhex(seedhex))
            scn.cmds = corpus_cmds(rng, scn, j, wt, net, [0, 1, 0, 2][j % 4], j % 2, rng.randrange(2, 9), big)
            cs.append(Case('corpus_bip32_vector', scn.req(), meta=('run',)))
            j += 1
    for i, e in enumerate(MS_CORPUS):
        tag, level, seedhex, net, wt, ncos, m, own, who = e
        if not big and (i + off) % 4 != 0:
            continue
        if not ms_corpus_ok(e):
            continue
        cmds = ['C:a:%s:%s:%d:%d:%d' % (net, wt, ncos, m, own), 'K:a:0:-:1', 'K:a:1:-:1', 'G:a:0:1', 'R:a', 'K:a:0:-:1',
                'G:a:1:1', 'U:a:0', 'K:a:1:-:1', 'K:a:0:-:1']
        cs.append(Case('corpus_multisig', 'msrun %s %s' % (seedhex, ' '.join(cmds)), meta=('msrun',)))
    return cs


def gen_path_account(rng, big):
    """full / relative paths that NAME an account (documented: values in the path take precedence over arguments), with
    the account_id argument absent, 0 or equal, on wallets whose default account is 0 and non-zero; each followed by
    new_key / get_key(account_id=that account) and listings by account.  (Default account non-zero with another
    account in force is the recorded class explicit_path_account_column: generated in gen_reach.)"""
    cs = []
    nets = ['bitcoin', 'testnet', 'litecoin', 'bitcoinlib_test', 'signet', 'dogecoin', 'litecoin_testnet', 'regtest', 'testnet4']
    for j in range(36 if big else 6):
        net = nets[(j + j // 6) % len(nets)]
        wt = 'l' if net.startswith('dogecoin') else 'lps'[j % 3]
        dflt = [0, 2, 0, 3, 0, 1][j % 6]
        pa, pb, pc = rng.sample([a for a in (1, 2, 3, 4, 5, 7) if a != dflt], 3)
        scn = Scn(rng)
        own = '%dh.%dh' % (PURPOSE[WTN[wt]], coin(net))
        i1, i2, i3 = rng.randrange(1, 9), rng.randrange(0, 9), rng.randrange(1, 9)
        cmds = [create_cmd(rng, scn, 'a', rng.choice(master_kinds_for(scn, False)), net, wt, dflt, flags=''), 'K:a:-:0:-:-:1']
        if dflt == 0:
            # no account_id argument, default account 0: the path alone names the account
            cmds += ['P:a:f.m.%s.%dh.0.%d:-:0:0:-:-' % (own, pa, i1), 'K:a:%d:0:-:-:1' % pa, 'L:a:k:%d:-:-:-:-:-' % pa,
                     'L:a:k:0:-:5:-:-:-', 'G:a:%d:0:-:-:2' % pa]
        else:
            # the argument names the same account as the path
            cmds += ['P:a:f.m.%s.%dh.0.%d:%d:0:0:-:-' % (own, pa, i1, pa), 'K:a:%d:0:-:-:1' % pa, 'L:a:k:%d:-:-:-:-:-' % pa,
                     'L:a:k:%d:-:5:-:-:-' % dflt]
        # account_id=0 given explicitly, the path names another account
        cmds += ['P:a:f.m.%s.%dh.1.%d:0:0:0:-:-' % (own, pb, i2), 'K:a:%d:1:-:-:1' % pb, 'G:a:%d:1:-:-:2' % pb,
                 'L:a:k:%d:1:-:-:-:-' % pb, 'L:a:c:%d:-:-:-:-:-' % pb, 'L:a:a:0:-:-:-:-:-',
                 'P:a:%s.%d.0.%d:0:0:0:-:-' % ('rs'[j % 2], pc, i3), 'K:a:%d:0:-:-:2' % pc, 'L:a:p:%d:-:-:-:-:-' % pc,
                 'R:a', 'K:a:%d:0:-:-:1' % pa, 'K:a:%d:1:-:-:1' % pb, 'L:a:k:%d:-:5:-:-:-' % pa, 'L:a:l:%d:-:-:-:-:-' % pc,
                 'K:a:-:0:-:-:1', 'L:a:k:-:-:5:-:-:-', 'D:a']
        scn.cmds = cmds
        cs.append(Case('path_account', scn.req(), meta=('run',)))
    return cs


# ------------------------------------------------------------------ requests outside the reach of the wallet's key
# What the library of this run does with three kinds of request (asked once per run, see probe_library): the letters
# travel in the flags field of every C command so that the model mirrors the library it is compared with, and a
# replay file is self-contained.
#   A  keys_for_path of an account-level wallet refuses another network / another account        (fixes/C09-5)
#   P  the account_id column of a row created from an explicit path is the account the path names  (fixes/C09-6)
#   C  new_key(s) of a wallet without cosigners refuses a cosigner_id                               (fixes/C09-7)
#   D  a relative path with as many items as the wallet's key path (no room for the root) is refused (fixes/C09-5)
#   L  a positive level_offset at or above the depth of an account-level main key is refused         (fixes/C09-5)
LIBFLAGS = ''
PROBE_SENTENCE = 'legal winner thank year wave sausage worth useful legal winner thank yellow'


def probe_library(rundir):
    scn = Scn(random.Random(1))
    scn.words, scn.sentence = PROBE_SENTENCE.split(' '), PROBE_SENTENCE
    scn.seed = bip39_seed(scn.sentence, '')
    scn.der = Deriver(scn.seed)
    acc = scn.account_key('bitcoin', 'segwit', 0, True)
    req = 'probe %s %s %s' % (scn.seed.hex(), sentence_token(scn.sentence, ''), ' '.join([
        'C:a:axprvs:bitcoin:s:0:-:-:%s:english' % acc, 'K:a:5:0:-:-:1', 'P:a:r.0.9:-:0:0:-:litecoin',
        'C:b:seed:bitcoin:s:2:-:-:-:english', 'P:b:r.7.0.3:-:0:0:-:-', 'K:b:-:0:-:-:1:3',
        'P:a:r.7.0.3:-:0:0:-:-', 'P:a:e:-:0:0:-:-:3', 'P:a:e:-:0:0:-:-:1']))
    rc, out, err = core.run_impl(IMPL, [req], rundir)
    if len(out) != 1:
        return ''
    t = out[0].split(' ')
    if len(t) != 9 or not t[0].startswith('C=ok') or not t[3].startswith('C=ok'):
        return ''
    fl = ''
    if t[1].startswith('K=ERR') and t[2].startswith('P=ERR'):
        fl += 'A'
    for row in t[4].split('~')[-1].split(';'):
        r = row.split('|')
        if len(r) == 14 and r[1] == "m/84'/0'/7'/0/3" and r[4] == '7':
            fl += 'P'
    if t[5].startswith('K=ERR'):
        fl += 'C'
    if t[6].startswith('P=ERR'):
        fl += 'D'
    if t[7].startswith('P=ERR') and t[8].startswith('P=ERR'):
        fl += 'L'
    return fl


# Known classes of the reach streams (requests the UNCHANGED library answers against the rule; generated only while the
# class is recorded as known, see _active_known): class id -> what the request looks like
REACH_KNOWN = ('account_wallet_foreign_account_or_network', 'account_wallet_path_names_account',
               'explicit_path_account_column', 'explicit_path_purpose_mismatch', 'single_key_wallet_ignores_arguments',
               'level_offset_above_main_key', 'cosigner_id_without_cosigners', 'multisig_request_outside_cosigner_keys')
# the letter of LIBFLAGS that says the library answers the requests of a class by the rule
CLASS_FLAG = {'account_wallet_foreign_account_or_network': 'A', 'explicit_path_account_column': 'P',
              'cosigner_id_without_cosigners': 'C', 'account_wallet_path_names_account': 'D',
              'level_offset_above_main_key': 'L'}


# once a fix is recorded (an entry of known_findings.json with status "fixed" that names the patch, or the class), the
# rule is expected whatever the library of the run does: a tree that loses the fix again is a violation, not a known class
FIX_LETTERS = {'C09-5': 'ADL', 'C09-6': 'P', 'C09-7': 'C'}


def _fixed_letters():
    out = set()
    for e in core.load_known(PROP):
        if e.get('status') != 'fixed':
            continue
        for tag, letters in FIX_LETTERS.items():
            if tag + '-' in (e.get('fix_patch') or ''):
                out.update(letters)
        for key in (e.get('class'), e.get('id')):
            if key in CLASS_FLAG:
                out.add(CLASS_FLAG[key])
    return out


def _class_mode(cls):
    """'rule': the library of this run follows the rule on the requests of this class, they belong to the ordinary
    streams; 'known': it does not and the class is recorded as known, they are generated as a stream of their own;
    None: neither (the requests are left out: they would only repeat a finding that is reported but not yet recorded)"""
    if CLASS_FLAG.get(cls, '#') in LIBFLAGS:
        return 'rule'
    return 'known' if cls in _active_known() else None


def _twice(cmd):
    return [cmd, cmd]


def reach_cmds(rng, scn, level, net, wt, acct, incl=()):
    """one wallet configuration x every key-handing entry point x arguments that do and do not fit it.
    level: 'm' master private key (depth 0), 'prv' / 'pub' account-level private / public key (depth 3).
    incl: the classes of REACH_KNOWN whose requests are mixed in."""
    if level == 'm':
        kind = rng.choice(master_kinds_for(scn, False))
    elif level == 'prv':
        kind = rng.choice(['axprvs', 'axprvk'])
    else:
        kind = rng.choice(['xpubs', 'xpubk'])
    cmds = [create_cmd(rng, scn, 'a', kind, net, wt, acct, flags=''), 'K:a:-:0:-:-:1', 'K:a:-:1:-:-:2']
    doge = net.startswith('dogecoin')
    ows = [w for w in 'lps' if w != wt]
    ons = _second_nets(net)
    oa = rng.choice([a for a in (0, 1, 2, 5) if a != acct])
    own = "%dh.%dh.%dh" % (PURPOSE[WTN[wt]], coin(net), acct)
    body = []
    if level == 'm':
        # a private master reaches every purpose / coin type / account: each request must be answered at ITS path
        for ow_ in ([] if doge else rng.sample(ows, 2)):
            body += _twice('K:a:-:0:%s:-:1' % ow_) + ['G:a:-:1:%s:-:2' % ow_, 'P:a:r.0.%d:-:0:0:%s:-' % (rng.randrange(2, 9), ow_),
                                                        'M:a:-:%s:-' % ow_]
        if not doge:
            on = rng.choice(ons)
            body += ['A:a:-:-:%s' % on] + _twice('K:a:-:0:-:%s:1' % on) + ['P:a:r.1.%d:-:0:0:-:%s' % (rng.randrange(0, 6), on),
                                                                            'B:a:0:0:%d:-:%s:2' % (rng.randrange(2, 7), on)]
        body += _twice('K:a:%d:0:-:-:1' % oa) + ['G:a:%d:1:-:-:2' % oa, 'P:a:e:%d:1:%d:-:-' % (oa, rng.randrange(1, 7)),
                                                 'M:a:%d:-:-' % oa, 'Q:a:%d' % oa, 'Q:a:%d' % acct, 'Q:a:11',
                                                 'A:a:%d:-:-' % oa, 'A:a:%d:-:-' % acct, 'P:a:r.1.2.3.4.5.6:-:0:0:-:-',
                                                 'P:a:f.m.%s.1.%d:%d:0:0:-:-' % (own, rng.randrange(0, 9), acct)]
        if acct == 0 or 'explicit_path_account_column' in incl:
            # a relative / full path that names another account: the path wins (documented), the row is account 7's
            # and the next new key of account 7 follows it
            body += ['P:a:r.7.0.0:-:0:0:-:-', 'P:a:r.7.0.1:-:0:0:-:-', 'K:a:7:0:-:-:1', 'L:a:k:7:-:-:-:-:-',
                     'P:a:f.m.%dh.%dh.6h.0.2:6:0:0:-:-' % (PURPOSE[WTN[wt]], coin(net)), 'K:a:6:0:-:-:1']
        if 'explicit_path_account_column' in incl:
            body += ['P:a:f.m.%dh.%dh.8h.1.0:-:0:0:-:-' % (PURPOSE[WTN[wt]], coin(net)), 'K:a:8:1:-:-:1', 'Q:a:7']
        if 'explicit_path_purpose_mismatch' in incl and not doge:
            # a full path under another purpose without naming the witness type
            body += ['P:a:f.m.%dh.%dh.%dh.0.4:-:0:0:-:-' % (PURPOSE[WTN[rng.choice(ows)]], coin(net), acct)]
    else:
        # an account-level key reaches only its own change / index levels
        for ow_ in rng.sample(ows, 2):
            body += _twice('K:a:-:0:%s:-:1' % ow_) + ['K:a:-:1:%s:-:1' % ow_, 'K:a:-:0:%s:-:3' % ow_, 'G:a:-:0:%s:-:1' % ow_,
                                                        'G:a:-:1:%s:-:2' % ow_, 'P:a:r.0.%d:-:0:0:%s:-' % (rng.randrange(0, 9), ow_),
                                                        'P:a:e:-:1:%d:%s:-' % (rng.randrange(0, 9), ow_),
                                                        'P:a:s.1.%d:-:0:0:%s:-' % (rng.randrange(0, 9), ow_),
                                                        'P:a:f.M.0.%d:-:0:0:%s:-' % (rng.randrange(0, 9), ow_),
                                                        'B:a:-:0:%d:%s:-:2' % (rng.randrange(0, 9), ow_), 'M:a:-:%s:-' % ow_,
                                                        'A:a:-:%s:-' % ow_]
        if ons:
            on = rng.choice(ons)
            body += _twice('K:a:-:0:-:%s:1' % on) + ['G:a:-:1:-:%s:1' % on, 'K:a:-:0:-:%s:2' % on, 'M:a:-:-:%s' % on,
                                                      'A:a:-:-:%s' % on]
        body += ['A:a:-:-:-', 'A:a:%d:-:-' % oa, 'Q:a:%d' % acct, 'Q:a:%d' % oa,
                 'P:a:f.m.%s.0.%d:-:0:0:-:-' % (own, rng.randrange(0, 9)), 'P:a:f.M.1.%d:-:0:0:-:-' % rng.randrange(0, 9),
                 'P:a:r.1.2.3.4.5.6:-:0:0:-:-', 'K:a:%d:0:-:-:1' % acct, 'G:a:%d:1:-:-:2' % acct, 'M:a:%d:-:-' % acct]
        if level == 'pub':
            body += ['P:a:r.0.%dh:-:0:0:-:-' % rng.randrange(0, 9), 'P:a:s.1h.%d:-:0:0:-:-' % rng.randrange(0, 9)]
        if 'account_wallet_foreign_account_or_network' in incl:
            kb = _twice('K:a:%d:0:-:-:1' % oa) + ['K:a:%d:1:-:-:2' % oa, 'G:a:%d:0:-:-:2' % oa,
                                                   'P:a:r.0.%d:%d:0:0:-:-' % (rng.randrange(2, 9), oa),
                                                   'B:a:%d:1:%d:-:-:2' % (oa, rng.randrange(2, 9)), 'M:a:%d:-:-' % oa]
            if ons:
                on = rng.choice(ons)
                kb += ['P:a:r.0.%d:-:0:0:-:%s' % (rng.randrange(10, 19), on), 'B:a:-:1:%d:-:%s:2' % (rng.randrange(10, 19), on)]
            body += kb
    rng.shuffle(body)
    if rng.random() < 0.5:
        body.insert(rng.randrange(len(body) + 1), 'R:a')
    # the wallet's own chains are as they were
    cmds += body + ['K:a:-:0:-:-:1', 'K:a:-:1:-:-:1', 'G:a:-:0:-:-:2', 'D:a']
    return cmds


def gen_reach(rng, big):
    cs = []
    active = _active_known()
    n = 0
    combos = []
    for level in ('prv', 'pub', 'm'):
        for net in NET_NAMES:
            for wt in 'lps':
                if net.startswith('dogecoin') and wt != 'l':
                    continue
                combos.append((level, net, wt))
    rng.shuffle(combos)
    # quick: every level x witness type at least twice, networks rotating; thorough: every combination several times
    if not big:
        seen, pick = {}, []
        for cb in combos:
            k = (cb[0], cb[2])
            if seen.get(k, 0) < (3 if cb[0] != 'm' else 1):
                seen[k] = seen.get(k, 0) + 1
                pick.append(cb)
        combos = pick
    else:
        combos = combos * 3
    run_classes = ('account_wallet_foreign_account_or_network', 'explicit_path_account_column',
                   'explicit_path_purpose_mismatch')
    rule = tuple(c for c in run_classes if _class_mode(c) == 'rule')
    for j, (level, net, wt) in enumerate(combos):
        scn = Scn(rng, password='' if rng.random() < 0.8 else _password(rng))
        acct = [0, 2, 1, 0, 3][j % 5]
        scn.cmds = reach_cmds(rng, scn, level, net, wt, acct, incl=rule)
        cs.append(Case('reach_' + level, scn.req(), meta=('run',)))
    for cls in run_classes:
        if _class_mode(cls) != 'known':
            continue
        levels = ('prv', 'pub') if cls.startswith('account_wallet') else ('m',)
        for j in range(40 if big else 3):
            scn = Scn(rng)
            net = rng.choice(['bitcoin', 'testnet', 'litecoin', 'bitcoinlib_test'])
            scn.cmds = reach_cmds(rng, scn, levels[j % len(levels)], net, 'lps'[j % 3], [2, 1, 3][j % 3], incl=rule + (cls,))
            cs.append(Case('reach_known_' + cls, scn.req(), meta=('run',)))
    # --- configurations and arguments outside the key book model: judged by the independent oracle alone
    cs += gen_probe(rng, big)
    return cs


def probe_cmds(rng, scn, what, net, wt, acct, incl=()):
    """requests on configurations / with arguments the key book model does not cover"""
    ows = [w for w in 'lps' if w != wt]
    ons = _second_nets(net)
    oa = rng.choice([a for a in (0, 1, 2, 5) if a != acct])
    if what == 'single':
        cmds = [create_cmd(rng, scn, 'a', 'single', net, wt, acct, flags=''), 'K:a:-:0:-:-:1', 'G:a:-:0:-:-:1', 'M:a:-:-:-',
                'K:a:%d:0:-:-:1' % acct, 'G:a:-:0:-:-:2', 'A:a:-:-:-', 'Q:a:%d' % acct, 'P:a:r.0.3:-:0:0:-:-',
                'P:a:f.m.%dh.%dh.%dh.0.1:-:0:0:-:-' % (PURPOSE[WTN[wt]], coin(net), acct), 'R:a']
        if 'single_key_wallet_ignores_arguments' in incl:
            ow_ = rng.choice(ows)
            cmds += ['K:a:-:0:%s:-:1' % ow_, 'G:a:-:0:%s:-:1' % ow_, 'K:a:%d:0:-:-:1' % oa, 'G:a:%d:0:-:-:1' % oa,
                     'M:a:-:%s:-' % ow_, 'M:a:%d:-:-' % oa, 'K:a:-:0:-:-:1:2']
            if ons:
                cmds += ['K:a:-:0:-:%s:1' % ons[0], 'G:a:-:0:-:%s:1' % ons[0], 'M:a:-:-:%s' % ons[0]]
        return cmds + ['K:a:-:0:-:-:1', 'D:a']
    level = what
    if level == 'm':
        kind = rng.choice(master_kinds_for(scn, False))
    else:
        kind = rng.choice(['axprvs', 'axprvk'] if level == 'prv' else ['xpubs', 'xpubk'])
    cmds = [create_cmd(rng, scn, 'a', kind, net, wt, acct, flags=''), 'K:a:-:0:-:-:1', 'K:a:-:1:-:-:1']
    body = []
    if level == 'm':
        # every level of the documented path, both ways of naming it; a path rooted at M does not exist here
        body += ['P:a:e:-:%d:%d:-:-:%d' % (rng.randrange(0, 2), rng.randrange(0, 5), lo) for lo in (-1, -2, -3, -4, -5, 1, 2, 3, 4, 5, 6)]
        body += ['P:a:e:%d:0:0:%s:-:-2' % (oa, rng.choice(ows) if not net.startswith('dogecoin') else '-'),
                 'P:a:f.M.0.4:-:0:0:-:-']
    else:
        body += ['P:a:e:-:%d:%d:-:-:%d' % (rng.randrange(0, 2), rng.randrange(0, 5), lo) for lo in (-1, -2, -3, 4, 5, 6)]
        body += ['P:a:e:-:0:0:%s:-:-2' % rng.choice(ows), 'P:a:e:-:0:0:%s:-:4' % rng.choice(ows)]
        if 'level_offset_above_main_key' in incl:
            body += ['P:a:e:-:0:%d:-:-:%d' % (rng.randrange(0, 5), lo) for lo in (1, 2, 3)]
        if 'account_wallet_path_names_account' in incl:
            body += ['P:a:r.%d.0.%d:-:0:0:-:-' % (oa, rng.randrange(0, 9)), 'P:a:r.%d.1.%d:-:0:0:-:-' % (acct, rng.randrange(0, 9)),
                     'P:a:s.%dh.0.%d:-:0:0:-:-' % (oa, rng.randrange(0, 9))]
    if 'cosigner_id_without_cosigners' in incl:
        body += _twice('K:a:-:0:-:-:1:%d' % rng.choice([0, 1, 3])) + ['K:a:-:1:-:-:2:1', 'G:a:-:0:-:-:1:%d' % rng.choice([1, 3]),
                                                                         'G:a:-:0:-:-:1:0']
    rng.shuffle(body)
    return cmds + body + ['K:a:-:0:-:-:1', 'K:a:-:1:-:-:1', 'D:a']


def gen_probe(rng, big):
    cs = []
    classes = ('single_key_wallet_ignores_arguments', 'level_offset_above_main_key', 'cosigner_id_without_cosigners',
               'account_wallet_path_names_account')
    rule = tuple(c for c in classes if _class_mode(c) == 'rule')
    nets = ['bitcoin', 'testnet', 'litecoin', 'bitcoinlib_test', 'litecoin_testnet', 'dogecoin', 'regtest', 'signet']
    whats = ['single', 'm', 'prv', 'pub']
    for j in range(120 if big else 8):
        what = whats[j % 4]
        net = nets[(j // 4 + j) % len(nets)]
        wt = 'l' if net.startswith('dogecoin') else 'lps'[(j // 2) % 3]
        scn = Scn(rng)
        scn.cmds = probe_cmds(rng, scn, what, net, wt, [0, 2, 1][j % 3], incl=rule)
        cs.append(Case('probe_' + what, 'probe' + scn.req()[3:], meta=('run',)))
    # main keys at depths the key path has no place for
    for j in range(24 if big else 2):
        scn = Scn(rng)
        net = nets[j % len(nets)]
        wt = 'l' if net.startswith('dogecoin') else 'lps'[j % 3]
        acct = j % 3
        scn.cmds = []
        for n, d in enumerate(rng.sample(['depth1', 'depth2', 'depth4', 'depth5', 'depth1p', 'depth2p', 'depth4p', 'depth5p'], 4)):
            scn.cmds += [create_cmd(rng, scn, 'a%d' % n, d, net, wt, acct, flags=''), 'K:a%d:-:0:-:-:1' % n]
        cs.append(Case('probe_depth', 'probe' + scn.req()[3:], meta=('run',)))
    # multisig cosigner wallets: requests the cosigners' keys cannot reach
    ms_known = _class_mode('multisig_request_outside_cosigner_keys') == 'known'
    for j in range((60 if big else 4) + ((30 if big else 3) if ms_known else 0)):
        known = j >= (60 if big else 4)
        seed = bytes(rng.randrange(256) for _ in range(32))
        net = ['bitcoin', 'testnet', 'litecoin', 'bitcoinlib_test'][j % 4]
        wt = 'lps'[(j // 2 + j) % 3]
        n = rng.choice([2, 3])
        m = rng.randrange(1, n + 1)
        own = rng.randrange(n)
        on = rng.choice(_second_nets(net))
        cmds = ['C:a:%s:%s:%d:%d:%d' % (net, wt, n, m, own), 'K:a:0:-:1', 'K:a:1:-:1', 'G:a:0:1']
        # (BIP45 paths m/45'/cosigner/change/index carry no coin type: another network is not a question of reach there)
        body = ['G:a:0:1:%d' % (n + 1 + rng.randrange(3)), 'K:a:0:-:1', 'R:a']
        if wt != 'l':
            body += _twice('K:a:0:-:1:-:%s' % on) + ['G:a:0:1:-:-:%s' % on]
        if known and wt != 'l':
            body += ['P:a:0:%d:-:%s' % (rng.randrange(1, 6), on)]
        if known:
            ow_ = rng.choice([w for w in 'lps' if w != wt])
            oc = rng.choice([c for c in range(n) if c != own])
            body += _twice('K:a:0:-:1:%s' % ow_) + ['G:a:1:1:-:%s' % ow_, 'P:a:0:%d:%s' % (rng.randrange(1, 6), ow_)] + \
                _twice('K:a:0:-:1:-:-:%d' % rng.randrange(1, 4)) + ['G:a:0:1:-:-:-:2', 'P:a:1:2:-:-:3',
                                                                   'K:a:0:%d:1' % n, 'K:a:0:-1:1', 'G:a:0:1:%d' % n]
            if wt != 'l':
                body += _twice('K:a:0:%d:1' % oc) + ['G:a:0:1:%d' % oc]
        rng.shuffle(body)
        cmds += body + ['K:a:0:-:1', 'K:a:1:-:1']
        cs.append(Case('multisig_reach_known' if known else 'multisig_reach', 'msrun %s %s' % (seed.hex(), ' '.join(cmds)),
                       meta=('msrun',)))
    for cls in classes:
        if _class_mode(cls) != 'known':
            continue
        for j in range(20 if big else 2):
            what = 'single' if cls.startswith('single') else (['prv', 'pub'][j % 2] if cls != 'cosigner_id_without_cosigners'
                                                               else whats[1 + j % 3])
            net = nets[j % 4]
            scn = Scn(rng)
            scn.cmds = probe_cmds(rng, scn, what, net, 'lps'[j % 3], [0, 2][j % 2], incl=rule + (cls,))
            cs.append(Case('probe_known_' + cls, 'probe' + scn.req()[3:], meta=('run',)))
    return cs


def gen_keypath(rng, big):
    """custom key_path wallets (hardened change / address_index levels, with and without coin type / account level) x
    one-at-a-time and BULK key creation (new_keys, get_keys(_change), keys_for_path(number_of_keys), scan) x explicit
    paths x further accounts x reopen"""
    cs = []
    nets = ['bitcoin', 'testnet', 'litecoin', 'bitcoinlib_test', 'regtest', 'signet', 'litecoin_testnet', 'dogecoin']
    for j in range(120 if big else 12):
        spec = KP_SPECS[j % len(KP_SPECS)] if j >= 2 else 'ah.ch.ih'
        net = nets[(j // 2) % len(nets)] if j % 2 else rng.choice(['bitcoin', 'testnet', 'litecoin'])
        wt = 'l' if net.startswith('dogecoin') else 'lps'[(j + j // 3) % 3]
        seed = bytes(rng.randrange(256) for _ in range(rng.choice([16, 32, 64])))
        has_acct = 'a' in spec
        cmds = ['C:a:%s:%s:%s' % (net, wt, spec)]
        accts = [0]

        def acct():
            a = rng.choice(accts)
            return '-' if a == 0 and rng.random() < 0.7 else str(a)
        cmds += ['K:a:-:0:1', 'G:a:-:0:%d' % rng.randrange(2, 6), 'G:a:-:1:%d' % rng.randrange(2, 4)]
        for _ in range(rng.randrange(6, 12) if not big else rng.randrange(6, 20)):
            r = rng.random()
            chg = rng.choice([0, 0, 1])
            if r < 0.22:
                cmds.append('K:a:%s:%d:1' % (acct(), chg))
            elif r < 0.40:
                cmds.append('K:a:%s:%d:%d' % (acct(), chg, rng.randrange(2, 5)))
            elif r < 0.58:
                cmds.append('G:a:%s:%d:%d' % (acct(), chg, rng.choice([1, 2, 3, 5])))
            elif r < 0.68:
                cmds.append('P:a:%s:%d:%d' % (acct(), chg, rng.randrange(0, 30)))
            elif r < 0.76:
                cmds.append('B:a:%s:%d:%d:%d' % (acct(), chg, rng.randrange(0, 30), rng.randrange(2, 5)))
            elif r < 0.84:
                cmds.append('U:a:%d' % rng.randrange(0, 40))
            elif r < 0.92:
                cmds.append('R:a')
            elif r < 0.96 and has_acct and len(accts) < 3:
                cmds.append('A:a')
                accts.append(len(accts))
            else:
                cmds += ['U:a:%d' % rng.randrange(0, 40), 'S:a:%d' % rng.randrange(2, 5)]
        cmds += ['R:a', 'K:a:-:0:2', 'K:a:-:1:1', 'G:a:-:0:3']
        cs.append(Case('keypath_core' if spec == 'ah.ch.ih' else 'keypath', 'kprun %s %s' % (seed.hex(), ' '.join(cmds)),
                       meta=('kprun',)))
    if 'keypath_no_account_level' in _active_known():
        # recorded class: an account_id on a wallet whose key path has no account level (ignored instead of refused)
        for j, spec in enumerate(['c.i', 'ch.ih'] if not big else ['c.i', 'ch.ih', 'c.ih', 'th.c.i'] * 4):
            seed = bytes(rng.randrange(256) for _ in range(32))
            a = rng.randrange(1, 4)
            cmds = ['C:a:%s:%s:%s' % (rng.choice(['bitcoin', 'testnet', 'litecoin']), 'slp'[j % 3], spec), 'K:a:-:0:1',
                    'K:a:%d:0:1' % a, 'K:a:%d:0:1' % a, 'G:a:%d:1:2' % a, 'P:a:%d:0:5' % a, 'K:a:-:0:1', 'K:a:-:1:1']
            cs.append(Case('keypath_known_account', 'kprun %s %s' % (seed.hex(), ' '.join(cmds)), meta=('kprun',)))
    return cs


def gen_ms_explicit(rng, big):
    """multisig cosigner wallets asked by explicit [change, address_index] paths and for several keys at once,
    interleaved with new_key / new_key_change / get_key / mark-used / reopen (the class multisig_address_index, a rule
    since fixes/C09-4: every key is filed at its own position, later keys continue above it)"""
    cs = []
    if 'multisig_address_index' in _active_known():
        return cs
    ms_nets = ['bitcoin', 'testnet', 'litecoin', 'bitcoinlib_test', 'dogecoin', 'litecoin_testnet', 'regtest', 'signet']
    for j in range(120 if big else 10):
        seed = bytes(rng.randrange(256) for _ in range(32))
        net = ms_nets[(j * 3 + 1) % len(ms_nets)] if j % 2 else rng.choice(['bitcoin', 'testnet', 'litecoin'])
        wt = 'l' if net.startswith('dogecoin') else 'spl'[j % 3]
        n = rng.choice([2, 2, 3])
        m = rng.randrange(1, n + 1)
        cmds = ['C:a:%s:%s:%d:%d:%d' % (net, wt, n, m, rng.randrange(n))]
        if j % 2:
            cmds += ['K:a:0:-:1', 'G:a:1:1']
        hi = rng.randrange(2, 9)
        c0 = rng.choice([0, 1, 1])
        cmds += ['P:a:%d:%d' % (c0, hi), 'K:a:%d:-:1' % c0, 'P:a:%d:%d' % (1 - c0, rng.randrange(1, 6))]
        for _ in range(rng.randrange(5, 11)):
            r = rng.random()
            chg = rng.choice([0, 1])
            if r < 0.30:
                cmds.append('K:a:%d:-:1' % chg)
            elif r < 0.45:
                cmds.append('G:a:%d:%d' % (chg, rng.choice([1, 1, 2, 3])))
            elif r < 0.60:
                cmds.append('P:a:%d:%d' % (chg, rng.randrange(0, 16)))
            elif r < 0.72:
                cmds.append('K:a:%d:-:%d' % (chg, rng.randrange(2, 4)))
            elif r < 0.84:
                cmds.append('U:a:%d' % rng.randrange(0, 20))
            else:
                cmds.append('R:a')
        cmds += ['R:a', 'K:a:0:-:1', 'K:a:1:-:1', 'K:a:0:-:1']
        cs.append(Case('multisig_explicit', 'msrun %s %s' % (seed.hex(), ' '.join(cmds)), meta=('msrun',)))
    return cs


def gen_cases(rng, tier):
    big = tier == 'thorough'
    cs = []
    names = NET_NAMES
    for lang in LANGS:
        wordlist(lang)
    langs = [l for l in LANGS if wordlist(l)]
    # --- table paths for every key structure (incl. the multisig ones) on every network
    for wt in 'lps':
        for ms in (0, 1):
            for net in names:
                for (a, c, i, co) in [(0, 0, 0, 0), (3, 1, 7, 2), (rng.randrange(0, 1 << 20), rng.randrange(0, 2),
                                                                  rng.randrange(0, 1 << 31), rng.randrange(0, 15))]:
                    cs.append(Case('expand', 'expand %s %d %d %d %d %d %d %s' % (
                        wt, ms, coin(net), a, c, i, co, net), meta=('expand', wt, ms, net, a, c, i, co)))
    # --- every network x witness type: creation (the way of creating rotates), first keys, reopen, out-of-order
    #     explicit indices followed by new keys, watch-only restore
    n = 0
    for net in names:
        for wt in 'lps':
            pw = '' if n % 3 == 0 else _password(rng)
            scn = Scn(rng, password=pw)
            acct = rng.randrange(0, 4)
            mk = ['seed', 'mnem', 'mnemk', 'xprvs', 'mnem', 'xprvk', 'mnems'][n % 7]
            ak = ['xpub', 'xpubs', 'xpubk', 'xpubw', 'axprvs'][n % 5]
            hi = rng.randrange(4, 12)
            lo = rng.randrange(1, hi)
            scn.cmds = [create_cmd(rng, scn, 'a', mk, net, wt, acct),
                        'K:a:-:0:-:-:1', 'K:a:-:1:-:-:2', 'R:a', 'G:a:-:0:-:-:3',
                        'P:a:r.0.%d:-:0:0:-:-' % hi, 'P:a:r.0.%d:-:0:0:-:-' % lo, 'K:a:-:0:-:-:1', 'R:a', 'K:a:-:0:-:-:2',
                        'L:a:p:-:-:-:-:-:-', 'D:a',
                        create_cmd(rng, scn, 'b', ak, net, wt, acct, src='a'),
                        'G:b:-:0:-:-:3', 'P:b:r.1.%d:-:0:0:-:-' % hi, 'P:b:r.1.%d:-:0:0:-:-' % lo, 'K:b:-:1:-:-:2', 'D:b']
            cs.append(Case('create', scn.req(), meta=('run',)))
            n += 1
    # --- creation / restoration matrix: one sentence (+ password), many ways to make the wallet, all must agree
    n_matrix = 300 if big else 27
    for j in range(n_matrix):
        lang = 'english' if j % 3 != 2 else langs[(j // 3) % len(langs)]
        pw = '' if j % 4 == 3 else _password(rng)
        scn = Scn(rng, lang=lang, password=pw)
        net = names[j % len(names)] if j % 2 == 0 else rng.choice(['bitcoin', 'testnet', 'litecoin', 'bitcoinlib_test'])
        wt = 'l' if net.startswith('dogecoin') else 'lps'[(j // 2) % 3]
        acct = rng.choice([0, 0, 1, 2])
        scn.cmds = [create_cmd(rng, scn, 'a', 'seed', net, wt, acct, flags=''),
                    'G:a:-:0:-:-:3', 'G:a:-:1:-:-:2', 'M:a:-:-:-', 'D:a']
        pool = master_kinds_for(scn, True) + list(ACCOUNT_PUB_KINDS) + list(ACCOUNT_PRIV_KINDS)
        must = ['mnem'] if lang == 'english' else ['mnems']
        kinds = must + rng.sample(pool, 4 if not big else 6)
        for i, kind in enumerate(kinds):
            slot = 'r%d' % i
            racct = acct if (kind in MASTER_KINDS or rng.random() < 0.5) else rng.randrange(0, 4)
            scn.cmds.append(create_cmd(rng, scn, slot, kind, net, wt, racct, src='a'))
            scn.cmds += ['G:%s:-:0:-:-:3' % slot, 'G:%s:-:1:-:-:2' % slot]
            if rng.random() < 0.5:
                scn.cmds.append('R:%s:o' % slot if rng.random() < 0.5 else 'R:%s' % slot)
            scn.cmds += ['K:%s:-:0:-:-:1' % slot, 'D:%s' % slot]
        cs.append(Case('restore_matrix', scn.req(), meta=('run',)))
    # --- the model computes the BIP39 seed itself (PBKDF2 in the extracted model: slow, a few cases)
    for j in range(16 if big else 3):
        scn = Scn(rng, password=['TREZOR', '', _password(rng)][j % 3], model_seed=True)
        net, wt = rng.choice(['bitcoin', 'litecoin', 'testnet']), rng.choice('lps')
        scn.cmds = [create_cmd(rng, scn, 'a', ['mnem', 'mnemk', 'mnem'][j % 3], net, wt, 0, flags=''),
                    'G:a:-:0:-:-:2', 'K:a:-:1:-:-:1', 'D:a',
                    create_cmd(rng, scn, 'b', 'seed', net, wt, 0, flags=''), 'G:b:-:0:-:-:2', 'D:b']
        cs.append(Case('bip39_model_seed', scn.req(), meta=('run',)))
    # --- Wallet.create(keys=<WalletKey object>): the main key object of a live wallet (must copy the wallet) and of a
    #     wallet that was just re-opened (known finding create_from_walletkey until fixes/C09-3 is in)
    for j in range(40 if big else 4):
        scn = Scn(rng)
        net, wt = rng.choice(['bitcoin', 'testnet', 'bitcoinlib_test']), 'lps'[j % 3]
        acct = rng.choice([0, 1])
        scn.cmds = [create_cmd(rng, scn, 'a', rng.choice(['seed', 'mnem', 'xprvs']), net, wt, acct, flags=''),
                    'K:a:-:0:-:-:1']
        if j % 2:
            scn.cmds.append('R:a')
        scn.cmds += [create_cmd(rng, scn, 'b', 'wkey', net, wt, acct, src='a', flags=''), 'G:b:-:0:-:-:2',
                     'K:b:-:1:-:-:1', 'D:b', 'D:a']
        cs.append(Case('create_from_walletkey', scn.req(), meta=('run',)))
    # --- multisig cosigner wallets (BIP48 / BIP45 key books): probe judged by the independent oracle
    ms_nets = ['bitcoin', 'testnet', 'litecoin', 'bitcoinlib_test', 'dogecoin', 'litecoin_testnet', 'regtest', 'signet']
    for j in range(200 if big else 14):
        seed = bytes(rng.randrange(256) for _ in range(32))
        net = ms_nets[j % len(ms_nets)]
        wt = 'l' if net.startswith('dogecoin') else 'lps'[(j // 2) % 3]
        n = rng.choice([2, 2, 3])
        m = rng.randrange(1, n + 1)
        own = rng.randrange(n)
        cmds = ['C:a:%s:%s:%d:%d:%d' % (net, wt, n, m, own)]
        known_class = j % 7 == 6          # bulk / explicit-path requests: recorded class multisig_address_index
        for _ in range(rng.randrange(6, 14)):
            r = rng.random()
            if r < 0.45:
                # BIP45 paths carry the cosigner index: another cosigner's chain is a chain of its own there
                cos = rng.randrange(n) if (wt == 'l' and rng.random() < 0.3) else None
                cmds.append('K:a:%d:%s:1' % (rng.choice([0, 0, 1]), _o(cos)))
            elif r < 0.70:
                cmds.append('G:a:%d:1' % rng.choice([0, 0, 1]))
            elif r < 0.82:
                cmds.append('U:a:%d' % rng.randrange(0, 20))
            elif r < 0.92:
                cmds.append('R:a')
            elif known_class:
                cmds.append(rng.choice(['K:a:0:-:3', 'G:a:0:3', 'P:a:0:%d' % rng.randrange(2, 9)]))
            else:
                cmds.append('K:a:1:-:1')
        if known_class:
            cmds += [rng.choice(['G:a:0:3', 'P:a:0:7']), 'K:a:0:-:1', 'K:a:0:-:1']
        cmds += ['K:a:0:-:1', 'K:a:1:-:1']
        cs.append(Case('multisig_known_class' if known_class else 'multisig', 'msrun %s %s' % (seed.hex(), ' '.join(cmds)),
                       meta=('msrun',)))
    # --- index issuance: out-of-order explicit indices interleaved with new_key / get_key / reopen on one chain
    n_iss = 600 if big else 44
    for j in range(n_iss):
        scn = Scn(rng, password='' if rng.random() < 0.7 else _password(rng))
        net = names[j % len(names)]
        wt = 'l' if net.startswith('dogecoin') else 'lps'[(j // len(names)) % 3]
        acct = rng.choice([0, 0, 1, 3])
        level = rng.choice(['m', 'm', 'm', 'pub', 'prv'])
        if level == 'm':
            scn.cmds = [create_cmd(rng, scn, 'a', rng.choice(master_kinds_for(scn, False)), net, wt, acct)]
        else:
            scn.cmds = [create_cmd(rng, scn, 'a', rng.choice(['xpubs', 'xpubk'] if level == 'pub' else
                                                           ['axprvs', 'axprvk']), net, wt, acct)]
        # the pattern every index rule must survive: a high index first, then a lower one, then new keys
        hi = rng.randrange(3, 14)
        lo = rng.randrange(0, hi)
        c0 = rng.choice([0, 0, 1])
        scn.cmds += ['P:a:r.%d.%d:-:0:0:-:-' % (c0, hi), 'P:a:r.%d.%d:-:0:0:-:-' % (c0, lo)]
        if rng.random() < 0.5:
            scn.cmds.append('R:a')
        scn.cmds += ['K:a:-:%d:-:-:%d' % (c0, rng.choice([1, 1, 2])), 'K:a:-:%d:-:-:1' % c0]
        scn.cmds += gen_history(rng, net, wt, level == 'm', True, rng.randrange(10, 22 if not big else 40), issuance=True)
        scn.cmds += ['K:a:-:0:-:-:1', 'K:a:-:1:-:-:1', 'D:a']
        # a restore of the same wallet continues independently; both must agree wherever they overlap
        if level == 'm':
            rk = rng.choice(master_kinds_for(scn, True) + ['xpub', 'xpubs', 'axprvs'])
        else:
            rk = rng.choice(['xpubs', 'xpubk', 'axprvs'])
        scn.cmds.append(create_cmd(rng, scn, 'r0', rk, net, wt, acct, src='a'))
        scn.cmds += ['P:r0:r.%d.%d:-:0:0:-:-' % (c0, lo), 'K:r0:-:%d:-:-:2' % c0, 'G:r0:-:0:-:-:4', 'D:r0']
        cs.append(Case('issuance', scn.req(), meta=('run',)))
    # --- general histories + restores
    n_hist = 600 if big else 30
    for j in range(n_hist):
        scn = Scn(rng, password='' if rng.random() < 0.6 else _password(rng))
        net = rng.choice(names if rng.random() < 0.6 else ['bitcoin', 'testnet', 'litecoin', 'bitcoinlib_test'])
        wt = 'l' if net.startswith('dogecoin') else rng.choice('lps')
        acct = rng.choice([0, 0, 1, 2, 3])
        explicit = rng.random() < 0.5
        scn.cmds = [create_cmd(rng, scn, 'a', rng.choice(['seed', 'mnem', 'mnemk', 'xprvs']), net, wt, acct)]
        scn.cmds += gen_history(rng, net, wt, True, explicit, rng.randrange(6, 16 if not big else 24))
        scn.cmds.append('D:a')
        # restores of the same wallet; each gets a short history of its own
        kinds = rng.sample(['seed', 'mnem', 'xprv', 'xpub', 'xpubw', 'axprv', 'xpubs', 'axprvk', 'mnemk', 'xprvk'],
                           rng.choice([1, 2, 2, 3]))
        for n, kind in enumerate(kinds):
            slot = 'r%d' % n
            is_master = kind in MASTER_KINDS
            racct = acct if is_master or rng.random() < 0.7 else rng.randrange(0, 4)
            scn.cmds.append(create_cmd(rng, scn, slot, kind, net, wt, racct, src='a'))
            h = gen_history(rng, net, wt, is_master, explicit and rng.random() < 0.5, rng.randrange(2, 7))
            scn.cmds += [c.replace(':a:', ':%s:' % slot, 1) if not c.startswith('R:a') else
                         c.replace('R:a', 'R:%s' % slot, 1) for c in h]
            scn.cmds.append('G:%s:-:0:-:-:%d' % (slot, rng.choice([2, 4, 6])))
            scn.cmds.append('G:%s:-:1:-:-:2' % slot)
            scn.cmds.append('D:%s' % slot)
        scn.cmds.append('D:a')
        cs.append(Case('history_explicit' if explicit else 'history_implicit', scn.req(), meta=('run',)))
    # --- structurally special key material (frozen corpus of seeds, BIP32 test vectors) and paths that name an account;
    #     drawn from a generator of their own so that the older streams keep their cases
    # --- wallet configurations x entry points x arguments that do not fit the configuration (must be refused)
    cs += gen_reach(rng, big)
    rng2 = random.Random(rng.randrange(1 << 30))
    cs += gen_corpus(rng2, big)
    cs += gen_path_account(rng2, big)
    # --- custom key_path wallets x bulk creation; multisig wallets x explicit paths / bulk (own generator again)
    rng3 = random.Random(rng2.randrange(1 << 30))
    cs += gen_keypath(rng3, big)
    cs += gen_ms_explicit(rng3, big)
    return cs


def is_trivial(c, out):
    if c.req.startswith('msrun '):
        return out.startswith('C=ERR') or out == 'BADREQ'
    if c.req.startswith('kprun '):
        return not out.startswith('C=ok') or out.count('|') < 10
    if c.kind == 'probe_depth':
        return 'C=' not in out
    return out.startswith('ERR') or out == 'BADREQ' or 'C=ok' not in out and c.kind != 'expand'


# ------------------------------------------------------------------ property-level verdict on the implementation
class Row(object):
    __slots__ = ('id', 'path_s', 'ap', 'addr', 'wif', 'acct', 'chg', 'idx', 'depth', 'used', 'purpose', 'net', 'wt',
                 'priv', 'cos')


class OW(object):
    """what the oracle knows about one wallet: its own copy of the key table (built from the rows the wallet
    reported, each checked against BIP32 derivation from the seed when it first appeared) and the index sets it
    expects on every chain"""

    def __init__(self, kind, net, wt, acct):
        self.kind, self.net, self.wt, self.acct = kind, net, wt, acct
        self.master = kind in MASTER_KINDS
        self.private = kind not in ACCOUNT_PUB_KINDS
        self.base = [] if self.master else [(PURPOSE[wt], True), (coin(net), True), (acct, True)]
        self.rows = {}            # id -> Row
        self.by_path = {}         # absolute path -> id
        self.by_addr = {}         # address -> id
        self.expect = {}          # (wt, net, acct, chg) -> set of indices that must exist (exactly)
        self.requested = {}       # (wt, net, acct, chg) -> indices named explicitly by a request
        self.accounts = {(wt, net): {acct}}
        self.dump = {}

    def chain(self, key):
        return self.expect.setdefault(key, set())

    def doc_path(self, wt, net, acct, chg=None, idx=None):
        """the documented BIP44/49/84 path of a request"""
        p = [(PURPOSE[wt], True), (coin(net), True), (acct, True)]
        if chg is not None:
            p += [(chg, False), (idx if idx is not None else 'i', False)]
        return p

    def reach(self, wt, net, acct):
        """BIP32 alone decides what a wallet can hand out: a key can be derived only from key material held ABOVE its
        path.  A private master key of depth 0 lies above every purpose' / coin_type' / account' branch; an
        account-level key (m/purpose'/coin'/account') lies above nothing but its own change / index levels, so a
        request for another witness type (purpose), network (coin type) or account must be refused."""
        if self.master:
            return True
        return wt == self.wt and net == self.net and acct == self.acct

    def outside(self, cmd, wt, net, acct, got):
        a = 'a\'' if acct is None else '%d\'' % acct
        return ('%s: the wallet holds only the %s account key m/%d\'/%d\'/%d\' and cannot derive m/%d\'/%d\'/%s/...; the '
                'request must be refused, it returned %s' % (cmd, 'private' if self.private else 'public', PURPOSE[self.wt],
                                                             coin(self.net), self.acct, PURPOSE[wt], coin(net), a, got[:90]))

    def used_paths(self):
        return set(r.ap for r in self.rows.values() if r.used)


def _abs(ow, root, rel):
    if ow.master:
        return None if root != 'm' else list(rel)
    return None if root != 'M' else ow.base + list(rel)


def _check_key(der, ow, tok, want_priv=None):
    """path|address|wif|index of a handed-out key against derivation from the seed; returns (error, abs path, wt, net)"""
    f = tok.split('|')
    if len(f) != 4:
        return 'malformed key token %r' % tok[:80], None
    pp = parse_path(f[0])
    if pp is None:
        return 'path %r is not a BIP32 path' % f[0], None
    ap = _abs(ow, pp[0], pp[1])
    if ap is None:
        return 'path %r has the wrong root for this wallet' % f[0], None
    return None, (ap, f)


def _classify(ow, ap):
    """absolute path -> (wt, net-coin, acct, chg, idx) when it is a documented BIP44/49/84 leaf path"""
    if len(ap) != 5:
        return None
    (p, ph), (c, ch), (a, ah), (g, gh), (i, ih) = ap
    if not (ph and ch and ah) or gh or ih:
        return None
    wts = [w for w, v in PURPOSE.items() if v == p]
    if not wts:
        return None
    return wts[0], c, a, g, i


def _prefix_ok(ap, wt, net):
    """a row above the address level lies on a documented path: m, m/p', m/p'/c', m/p'/c'/a', m/p'/c'/a'/chg"""
    if len(ap) > 4:
        return False
    for n, (v, h) in enumerate(ap):
        if h != (n < 3):
            return False
        if n == 0 and v != PURPOSE[wt]:
            return False
        if n == 1 and v != coin(net):
            return False
        if n == 3 and v not in (0, 1):
            return False
    return True


def _material(der, ow, ap, f, wt, net):
    x = der.at(ap)
    if x is None:
        return 'no key exists at %s' % f[0]
    if not ow.private:
        x = XK(None, x.pt, x.c, x.depth, x.fpr, x.child)
    addr = _address(net, wt, x.pt)
    if f[1] != addr:
        return 'key at %s has address %s, BIP32 derivation from the master gives %s' % (f[0], f[1], addr)
    wif = _xser(net, wt, x, True)
    if f[2] != wif:
        return 'key at %s has extended key %s…, derivation from the master gives %s…' % (f[0], f[2][:24], wif[:24])
    return None


def _leaf(der, ow, tok, wt, net, acct, chg, idx=None):
    """a handed-out address key must lie at m/purpose'/coin'/acct'/chg/idx (M/chg/idx below an account key)"""
    err, r = _check_key(der, ow, tok)
    if err:
        return err, None
    ap, f = r
    cl = _classify(ow, ap)
    want = (wt, coin(net), acct, chg)
    if cl is None or cl[:4] != want or (idx is not None and cl[4] != idx):
        return ('handed-out key lies at %s, documented path for (%s, %s, account %d, change %d%s) is m/%d\'/%d\'/%d\'/%d/%s'
                % (f[0], wt, net, acct, chg, '' if idx is None else ', index %d' % idx, PURPOSE[wt], want[1], acct, chg,
                   'i' if idx is None else idx)), None
    if f[3] != str(cl[4]):
        return 'key at %s reports address_index %s' % (f[0], f[3]), None
    e = _material(der, ow, ap, f, wt, net)
    return e, (tuple(ap), cl[4])


def _full_row(der, ow, r):
    """a row reported for the first time: checked against the seed and the documented layout, then filed"""
    if len(r) != 14:
        return 'malformed row %r' % ('|'.join(r)[:80],), None
    (kid, path_s, addr, wif, acct, chg, idx, depth, used, purpose, net, wt, priv, cos) = r
    pp = parse_path(path_s)
    ap = _abs(ow, pp[0], pp[1]) if pp else None
    if ap is None:
        return 'stored key %s: path %r is not a path of this wallet' % (kid, path_s), None
    if net not in FROZEN_NETS or wt not in PURPOSE:
        return 'stored key at %s has network %s / witness type %s' % (path_s, net, wt), None
    e = _material(der, ow, ap, [path_s, addr, wif, idx], wt, net)
    if e:
        return 'stored ' + e, None
    if int(depth) != len(ap):
        return 'stored key at %s has depth %s' % (path_s, depth), None
    if ap and int(idx) != ap[-1][0]:
        return 'stored key at %s has address_index %s' % (path_s, idx), None
    if bool(int(priv)) != ow.private:
        return 'stored key at %s is %s in a %s wallet' % (path_s, 'private' if int(priv) else 'public-only',
                                                          'private' if ow.private else 'watch-only'), None
    if len(ap) == 5:
        cl = _classify(ow, ap)
        if cl is None:
            return 'address key stored at undocumented path %s' % path_s, None
        if (cl[0], cl[1]) != (wt, coin(net)) or int(purpose) != PURPOSE[wt] or \
                (chg == '-' or int(chg) != cl[3]) or int(acct) != cl[2]:
            return ('row of %s says (%s, %s, purpose %s, account %s, change %s)' %
                    (path_s, wt, net, purpose, acct, chg)), None
    elif len(ap) > 5:
        return 'key stored below the address level at %s' % path_s, None
    elif ap and not _prefix_ok(ap, wt, net):
        return 'key stored at %s is on no documented path of (%s, %s)' % (path_s, wt, net), None
    row = Row()
    row.id, row.path_s, row.ap, row.addr, row.wif = int(kid), path_s, tuple(ap), addr, wif
    row.acct, row.chg, row.idx, row.depth, row.used = int(acct), chg, int(idx), int(depth), bool(int(used))
    row.purpose, row.net, row.wt, row.priv, row.cos = int(purpose), net, wt, bool(int(priv)), cos
    return None, row


def _snapshot(der, ow, snap, expect_new, used_id):
    """the key table after one command.  New rows are checked and filed; known rows must not have moved; the set of
    new address keys must be exactly what the command was entitled to create; then the index invariant."""
    if snap.startswith('CRASH'):
        return 'Wallet.keys() failed after the command: %s' % snap
    items = [] if not snap else snap.split(';')
    present, new_leaves, last_id = set(), set(), 0
    known_max = max(ow.rows) if ow.rows else 0
    for it in items:
        if '|' in it:
            err, row = _full_row(der, ow, it.split('|'))
            if err:
                return err
            if row.id in ow.rows:
                return 'row id %d reported as new twice' % row.id
            if row.id <= known_max:
                return 'new row at %s got id %d, below the highest existing id %d' % (row.path_s, row.id, known_max)
            if row.ap in ow.by_path:
                return 'two rows at one position %s (ids %d and %d)' % (row.path_s, ow.by_path[row.ap], row.id)
            if row.addr in ow.by_addr:
                return 'keys %s and %s share address %s' % (ow.rows[ow.by_addr[row.addr]].path_s, row.path_s, row.addr)
            if row.ap and tuple(row.ap[:-1]) not in ow.by_path and len(row.ap) > len(ow.base):
                return 'key at %s stored without its parent' % row.path_s
            if row.used:
                return 'a new key at %s is born used' % row.path_s
            ow.rows[row.id] = row
            ow.by_path[row.ap] = row.id
            ow.by_addr[row.addr] = row.id
            if len(row.ap) == 5:
                new_leaves.add(row.ap)
            kid = row.id
        else:
            f = it.split('/')
            if len(f) != 8:
                return 'malformed compact row %r' % it[:60]
            kid = int(f[0])
            row = ow.rows.get(kid)
            if row is None:
                return 'row id %d appears without ever having been created' % kid
            got = (int(f[1]), f[2], int(f[3]), int(f[4]), WTN.get(f[6]), f[7])
            if got != (row.acct, row.chg, row.idx, row.depth, row.wt, row.net):
                return ('stored key at %s changed its columns (account, change, index, depth, witness type, network): '
                        '%s -> %s' % (row.path_s, (row.acct, row.chg, row.idx, row.depth, row.wt, row.net), got))
            u = bool(int(f[5]))
            if u != row.used:
                if u and kid == used_id:
                    row.used = True
                else:
                    return 'used flag of the key at %s changed to %d without a transaction on it' % (row.path_s, u)
        if kid <= last_id:
            return 'Wallet.keys() is not in id order'
        last_id = kid
        present.add(kid)
    gone = set(ow.rows) - present
    if gone:
        return 'stored key at %s disappeared' % ow.rows[min(gone)].path_s
    if new_leaves != expect_new:
        extra, missing = new_leaves - expect_new, expect_new - new_leaves
        if extra:
            return ('address key %s was created although no request named it and it is not the next index of its chain'
                    % ow.rows[ow.by_path[sorted(extra)[0]]].path_s)
        return 'address key at %s was handed out but is not stored' % (sorted(missing)[0],)
    # the index invariant, from the table alone: per chain no index twice, and every index that was not named
    # explicitly by a request directly follows an existing one (no gaps relative to the highest issued index)
    chains = {}
    for row in ow.rows.values():
        if len(row.ap) == 5:
            cl = _classify(ow, row.ap)
            key = (cl[0], row.net, cl[2], cl[3])
            if cl[4] in chains.setdefault(key, set()):
                return 'index %d issued twice on chain %s' % (cl[4], key)
            chains[key].add(cl[4])
    for key, idxs in chains.items():
        want = ow.expect.get(key, set())
        if idxs != want:
            return 'chain %s holds indices %s, the requests so far call for %s' % (key, sorted(idxs), sorted(want))
        named = ow.requested.get(key, set())
        for i in idxs:
            if i > 0 and i not in named and (i - 1) not in idxs:
                return 'chain %s has a gap below index %d that no request asked for' % (key, i)
    for key, want in ow.expect.items():
        if want and key not in chains:
            return 'chain %s is empty, the requests so far call for %s' % (key, sorted(want))
    return None


def _single_check(sw, f, cmd, val, snap):
    """a single-key wallet (scheme 'single'): it can hand out its one key and nothing else; a request that names
    another witness type, network, account, cosigner, or any path / index / account operation must be refused"""
    _, net, wt, acct, kid, path_s, addr = sw
    if snap is not None:
        rows = snap.split(';')
        if len(rows) != 1 or rows[0].split('/')[0] != kid or '|' in rows[0]:
            return 'after %s the single-key wallet holds the key table %s' % (cmd, snap[:120])
    if f[0] in ('R', 'D', 'L', 'U', 'X', 'S'):
        return None
    if val == 'ERR':
        return None
    fits = False
    if f[0] in 'KG':
        fits = (f[2] in ('-', str(acct)) and f[4] in ('-', WTL[wt]) and f[5] in ('-', net) and
                (len(f) < 8 or f[7] == '-'))
    elif f[0] == 'M':
        fits = f[2] in ('-', str(acct)) and f[3] in ('-', WTL[wt]) and f[4] in ('-', net)
    elif f[0] == 'P':
        fits = f[2] == 'e' and f[3] in ('-', str(acct)) and f[6] in ('-', WTL[wt]) and f[7] in ('-', net) and \
            (len(f) < 9 or f[8] == '-')
    if not fits:
        return ('%s: a single-key wallet (%s, %s, account %d) holds one key and derives nothing; the request does not '
                'fit it and must be refused, it returned %s' % (cmd, wt, net, acct, val[:90]))
    for k in val.split(','):
        kf = k.split('|')
        if kf[0] not in ('m', 'M') or (f[0] != 'M' and kf[1] != addr):
            return '%s: the single-key wallet handed out %s' % (cmd, k[:90])
    return None


def _level_offset_check(der, ow, f, cmd, val):
    """key_for_path([], level_offset=lo): the documented path cut to a level - lo < 0 drops the last |lo| levels, lo > 0
    keeps the first lo items of m/purpose'/coin_type'/account'/change/address_index counting the root (1 = the master
    key, 4 = the account key).  The wallet can hand that key out only if it lies at or below its main key."""
    lo = int(f[8])
    kind, D, wt, net, a, chg, idx, conflict = _p_target(ow, f, val)
    if f[2] != 'e' or kind != 'leaf':
        return None if val == 'ERR' else '%s: a path together with a level offset was answered with %s' % (cmd, val[:80])
    depth = 5 + lo if lo < 0 else lo - 1
    if depth < 0 or depth > 5:
        return None if val == 'ERR' else '%s names no level of the key path, it returned %s' % (cmd, val[:90])
    T = D[:depth]
    ok = ow.reach(wt, net, a) and depth >= len(ow.base)
    if not ow.master and depth < 3:
        ok = False
    if not ok:
        if val != 'ERR':
            return ('%s: level %d of the key path (%s) lies above the wallet\'s main key (depth %d); the request must be '
                    'refused, it returned %s' % (cmd, depth, 'm/' + '/'.join('%d%s' % (v, "'" if h else '') for v, h in T),
                                                 len(ow.base), val[:90]))
        return None
    if val == 'ERR':
        return '%s refused' % cmd
    kf = val.split('|')
    pp = parse_path(kf[0])
    ap = _abs(ow, pp[0], pp[1]) if pp else None
    if ap is None or tuple(ap) != tuple(T):
        return '%s returned the key at %s, level %d of the documented path is m/%s' % (
            cmd, kf[0], depth, '/'.join('%d%s' % (v, "'" if h else '') for v, h in T))
    if depth == 5:
        return _leaf(der, ow, val, wt, net, a, chg, idx)[0]
    return _material(der, ow, ap, kf, wt, net)


def _p_items(tokens):
    return [(int(t[:-1]), True) if t.endswith('h') else (int(t), False) for t in tokens]


def _p_target(ow, f, val='ERR'):
    """What a key_for_path request names, from the documented rules alone: a relative path replaces the LAST levels of
    the wallet's key path (m/purpose'/coin_type'/account'/change/address_index for a wallet with a master key,
    M/change/address_index below an account-level key), the other levels come from the arguments; a level is hardened
    when the path says so or the key path has it hardened; values in the path take precedence over arguments.
    Returns (kind, D, witness type, network, account, change, index, conflict): kind 'refuse' when the request names
    no address key of the wallet's key path at all, else 'leaf' with D the absolute documented position."""
    spec, acct, chg, idx, wt_arg, net_arg = f[2], f[3], int(f[4]), int(f[5]), f[6], f[7]
    wt = WTN[wt_arg] if wt_arg != '-' else ow.wt
    net = net_arg if net_arg != '-' else ow.net
    if acct != '-':
        a = int(acct)
    elif net == ow.net:
        a = ow.acct
    else:
        # another network without an account number: "the first account it finds" on that network, 0 when none
        a = 0
        pp = parse_path(val.split('|')[0]) if val != 'ERR' else None
        if pp and len(pp[1]) == 5 and pp[1][2][0] in ow.accounts.get((wt, net), set()):
            a = pp[1][2][0]
    parts = spec.split('.')
    levels = 5 if ow.master else 2
    if parts[0] == 'f':
        root, items = parts[1], _p_items(parts[2:])
        if root != ('m' if ow.master else 'M') or len(items) != levels:
            return 'refuse', spec, wt, net, a, chg, idx, False
    else:
        items = _p_items(parts[1:]) if parts[0] in 'rs' else []
        if len(items) > levels:
            return 'refuse', spec, wt, net, a, chg, idx, False
    full = [(PURPOSE[wt], True), (coin(net), True), (a, True), (chg, False), (idx, False)]
    k = 5 - len(items)
    D = full[:k] + [(v, h or full[k + j][1]) for j, (v, h) in enumerate(items)]
    (p, ph), (c, ch), (a2, ah), (g, gh), (i, ih) = D
    conflict = False
    if gh or ih:
        # hardened change / index levels are no documented BIP44 position; below a public key they cannot be derived at all
        return 'refuse', D, wt, net, a, chg, idx, False
    wts = [w for w, v in PURPOSE.items() if v == p]
    if not wts:
        return 'refuse', D, wt, net, a, chg, idx, False
    if wts[0] != wt or c != coin(net):
        conflict = True           # the path names another purpose / coin type than the arguments: refusing is fine
    return 'leaf', D, wts[0], net, a2, g, i, conflict


def _compact(row):
    return [str(row.id), str(row.acct), row.chg, str(row.idx), str(row.depth), str(int(row.used)), WTL[row.wt], row.net]


def _ap_of_tok(ow, tok):
    pp = parse_path(tok.split('|')[0])
    ap = _abs(ow, pp[0], pp[1]) if pp else None
    return tuple(ap) if ap is not None else None


def prop_check(c, out):
    if out == 'BADREQ' or 'BADKEY' in out or out.startswith('CRASH'):
        return 'unexpected answer %r' % out[:160]
    m = c.meta or ('run',)
    if c.req.startswith('msrun '):
        return ms_check(c, out)
    if c.req.startswith('kprun '):
        return kp_check(c, out)
    if m[0] == 'expand' and 'CRASH' in out:
        return 'unexpected answer %r' % out[:160]
    if m[0] == 'expand':
        _, wt, ms, net, a, ch, i, co = m
        cn = coin(net)
        w = WTN[wt]
        if not ms:
            want, enc = "m/%d'/%d'/%d'/%d/%d" % (PURPOSE[w], cn, a, ch, i), ('bech32' if w == 'segwit' else 'base58')
        elif w == 'legacy':
            want, enc = "m/45'/%d/%d/%d" % (co, ch, i), 'base58'
        else:
            want, enc = "m/48'/%d'/%d'/%d'/%d/%d" % (cn, a, 1 if w == 'p2sh-segwit' else 2, ch, i), \
                        ('bech32' if w == 'segwit' else 'base58')
        return None if out == want + ' ' + enc else 'path_expand gives %s, the BIPs give %s %s' % (out, want, enc)
    t = c.req.split(' ')
    sentence, password = parse_sentence_token(t[2])
    # the seed every wallet of the scenario must have: BIP39 of sentence AND password (the request's own seed field
    # was computed the same way by the generator; recomputing keeps replays honest)
    seed = bip39_seed(sentence, password)
    if t[1] != '-' and bytes.fromhex(t[1]) != seed:
        seed = bytes.fromhex(t[1])          # replay files written before the password field existed
    der = Deriver(seed)
    cmds, toks = t[3:], out.split(' ')
    if len(toks) != len(cmds):
        return 'answer has %d tokens for %d commands' % (len(toks), len(cmds))
    ws = {}
    for cmd, tok in zip(cmds, toks):
        f = cmd.split(':')
        op, val = tok.split('=', 1)
        if op != f[0]:
            return 'answer token %r does not belong to command %r' % (tok[:40], cmd)
        if val.startswith('CRASH'):
            # judged where it happens: everything before it was checked command by command
            return 'the library failed with an unexpected exception on %s: %s' % (cmd, val[:60])
        snap = None
        if '~' in val:
            val, snap = val.split('~', 1)
        expect_new, used_id = set(), None
        if f[0] == 'C':
            slot, kind, net, wt, acct = f[1], f[2], f[3], WTN[f[4]], int(f[5])
            refuse = net.startswith('dogecoin') and wt != 'legacy'
            srcname = f[6] if len(f) > 6 and f[6] != '-' else None
            if srcname and srcname not in ws:
                continue
            if kind.startswith('depth'):
                # the main key of a BIP32 wallet is a master key (depth 0) or an account key (depth 3): the key path
                # of the wallet has no other place for it
                if val == 'ok' and int(kind[5]) not in (0, 3):
                    return ('Wallet.create accepted a key of depth %s (%s) as the main key of a %s wallet; its key path '
                            'starts at the master key or at the account key' % (kind[5], kind, wt))
                continue
            if val != 'ok':
                if refuse:
                    continue
                return 'Wallet.create refused a valid request (%s)' % cmd[:120]
            if refuse:
                return 'Wallet.create accepted %s on %s' % (wt, net)
            if kind == 'single':
                # one key, no derivation: the table is that key for ever
                rows = (snap or '').split(';')
                first = rows[0].split('|')
                x0 = der.at(())
                if len(rows) != 1 or len(first) != 14 or first[1] not in ('m', 'M'):
                    return 'a single-key wallet was created with the key table %s' % (snap or '')[:120]
                if first[2] != _address(net, wt, x0.pt):
                    return 'single-key wallet has address %s, the key gives %s' % (first[2], _address(net, wt, x0.pt))
                ws[slot] = ('single', net, wt, acct, first[0], first[1], first[2])
                continue
            ow = OW(kind, net, wt, acct)
            ws[slot] = ow
            ow.chain((wt, net, acct, 0)).add(0)
            expect_new = {tuple([(PURPOSE[wt], True), (coin(net), True), (acct, True), (0, False), (0, False)])}
            if srcname and ws[srcname].master:
                ws[srcname].accounts.setdefault((wt, net), set()).add(acct)     # exporting creates the account key
            if snap is None:
                return 'no key table reported after %s' % cmd[:60]
            e = _snapshot(der, ow, snap, expect_new, None)
            if e:
                if kind.startswith('mnem') and password:
                    # say so when the wallet is the one of the sentence WITHOUT its password
                    x0 = _master(bip39_seed(sentence, ''))
                    first = snap.split(';')[0].split('|')
                    if len(first) == 14 and first[2] == _address(net, wt, x0.pt):
                        e += ' - the wallet has the master key of the sentence without the password %r' % password
                return 'after %s: %s' % (cmd[:60], e)
            # the main key of the wallet is the key the request named
            mainrow = ow.rows.get(ow.by_path.get(tuple(ow.base)))
            if mainrow is None:
                return 'wallet created by %s has no main key row' % cmd[:60]
            continue
        if f[1] not in ws:
            continue
        ow = ws[f[1]]
        if isinstance(ow, tuple):
            e = _single_check(ow, f, cmd, val, snap)
            if e:
                return e
            continue
        if f[0] in 'KG' and len(f) > 7 and f[7] != '-':
            # a wallet without cosigners has no cosigner positions: whatever number is passed is out of range
            if val != 'ERR':
                return ('%s: cosigner_id %s on a wallet that has no cosigners must be refused, it returned %s' %
                        (cmd, f[7], val[:90]))
        elif f[0] == 'P' and len(f) > 8 and f[8] != '-' and int(f[8]) not in (0, 6):      # 6 = the whole key path
            e = _level_offset_check(der, ow, f, cmd, val)
            if e:
                return e
        elif f[0] in ('K', 'G', 'B'):
            if f[0] == 'B':
                acct, chg, first, wt, net, n = f[2], int(f[3]), int(f[4]), f[5], f[6], int(f[7])
            else:
                acct, chg, wt, net, n = f[2], int(f[3]), f[4], f[5], int(f[6])
            wt = WTN[wt] if wt != '-' else ow.wt
            net = net if net != '-' else ow.net
            if acct != '-':
                acct = int(acct)
            elif net == ow.net:
                acct = ow.acct
            else:
                acct = None       # any existing account of that network
            reachable = ow.reach(wt, net, acct)
            if val == 'ERR':
                if reachable:
                    return 'a valid key request was refused: %s' % cmd
            elif not reachable:
                return ow.outside(cmd, wt, net, acct, val)
            else:
                keys = [] if val == '-' else val.split(',')
                if len(keys) != n:
                    return '%s returned %d keys, %d requested' % (cmd, len(keys), n)
                got = []
                for k in keys:
                    a = acct
                    if a is None:
                        pp = parse_path(k.split('|')[0])
                        a = pp[1][2][0] if pp and len(pp[1]) == 5 else -1
                        if a not in ow.accounts.get((wt, net), set()) and a != 0:
                            return 'key %s handed out for an account that does not exist on %s' % (k.split('|')[0], net)
                    err, r = _leaf(der, ow, k, wt, net, a, chg)
                    if err:
                        return err
                    got.append((a, r))
                if len(set(r[0] for _, r in got)) != len(got):
                    return '%s returned the same key twice' % cmd
                if f[0] == 'K':
                    # fresh indices: 1 + highest index of the chain, consecutive; never a key that exists already
                    a = got[0][0]
                    ch = ow.chain((wt, net, a, chg))
                    nxt = max(ch) + 1 if ch else 0
                    idxs = [r[1] for _, r in got]
                    if idxs != list(range(nxt, nxt + n)):
                        return ('new_key(s) issued indices %s on chain (%s, %s, account %d, change %d) whose highest '
                                'index is %s' % (idxs, wt, net, a, chg, max(ch) if ch else None))
                    for _, r in got:
                        if r[0] in ow.by_path:
                            return 'new_key(s) returned the key at index %d, which was handed out before' % r[1]
                if f[0] == 'B':
                    if [r[1] for _, r in got] != list(range(first, first + n)):
                        return 'keys_for_path(address_index=%d, number_of_keys=%d) returned indices %s' % (
                            first, n, [r[1] for _, r in got])
                    for a, r in got:
                        ow.requested.setdefault((wt, net, a, chg), set()).add(r[1])
                if f[0] == 'G':
                    used = ow.used_paths()
                    fresh = []
                    for a, r in got:
                        if r[0] in used:
                            return 'get_key(s) handed out the used key at index %d' % r[1]
                        if r[0] not in ow.by_path:
                            fresh.append(r[1])
                    if fresh:
                        ch = ow.chain((wt, net, got[0][0], chg))
                        nxt = max(ch) + 1 if ch else 0
                        if fresh != list(range(nxt, nxt + len(fresh))):
                            return ('get_key(s) created indices %s on chain (%s, %s, account %d, change %d) whose highest '
                                    'index is %s' % (fresh, wt, net, got[0][0], chg, max(ch) if ch else None))
                for a, r in got:
                    if r[0] not in ow.by_path:
                        expect_new.add(r[0])
                    ow.chain((wt, net, a, chg)).add(r[1])
                    ow.accounts.setdefault((wt, net), set()).add(a)
        elif f[0] in ('A', 'M'):
            acct, wt, net = f[2], f[3], f[4]
            wt = WTN[wt] if wt != '-' else ow.wt
            net = net if net != '-' else ow.net
            ok = True
            if f[0] == 'A':
                # a new account key m/purpose'/coin'/n' is a hardened child two levels below the purpose key: only a
                # wallet that holds the private master can make one
                exists = acct != '-' and int(acct) in ow.accounts.get((wt, net), set())
                if val == 'ERR':
                    if not (not ow.master or exists):
                        return 'new_account refused a valid request: %s' % cmd
                    ok = False
                elif not ow.master or exists:
                    return 'new_account succeeded where it must refuse: %s -> %s' % (cmd, val[:80])
                else:
                    path_s, addr, wif, idx = val.split('|')
            else:
                a_req = int(acct) if acct != '-' else (ow.acct if net == ow.net else None)
                reachable = ow.reach(wt, net, a_req)
                if val == 'ERR':
                    if reachable:
                        return 'public_master refused: %s' % cmd
                    ok = False
                elif not reachable:
                    return ow.outside(cmd, wt, net, a_req, val)
                else:
                    path_s, wif = val.split('|')
            if ok:
                pp = parse_path(path_s)
                ap = _abs(ow, pp[0], pp[1]) if pp else None
                if ap is None or len(ap) != 3 or not all(h for _, h in ap) or ap[0][0] != PURPOSE[wt] or \
                        ap[1][0] != coin(net):
                    return 'account key of (%s, %s) lies at %s' % (wt, net, path_s)
                a = ap[2][0]
                if acct != '-' and a != int(acct):
                    return 'account %s requested, key at %s returned' % (acct, path_s)
                if f[0] == 'A' and a in ow.accounts.get((wt, net), set()):
                    return 'new_account returned the existing account %d' % a
                if f[0] == 'A' and acct == '-':
                    # documented default: the last account of that witness type and network + 1 (0 when there is none)
                    have = ow.accounts.get((wt, net), set())
                    want_a = max(have) + 1 if have else 0
                    if a != want_a:
                        return ('new_account() created account %d for (%s, %s); the accounts so far are %s, the next one '
                                'is %d' % (a, wt, net, sorted(have), want_a))
                x = der.at(ap)
                if f[0] == 'A':
                    e = _material(der, ow, ap, [path_s, addr, wif, idx], wt, net)
                    if e:
                        return e
                    for g in (0, 1):
                        ow.chain((wt, net, a, g)).add(0)
                        leaf = tuple(ap) + ((g, False), (0, False))
                        if leaf not in ow.by_path:
                            expect_new.add(leaf)
                else:
                    pub = _xser(net, wt, XK(None, x.pt, x.c, x.depth, x.fpr, x.child), False)
                    if wif != pub:
                        return 'public_master().wif at %s is %s…, derivation gives %s…' % (path_s, wif[:20], pub[:20])
                ow.accounts.setdefault((wt, net), set()).add(a)
        elif f[0] == 'P':
            kind, D, wt, net, a, chg, idx, conflict = _p_target(ow, f, val)
            if kind == 'refuse':
                if val != 'ERR':
                    return ('key_for_path(%s) names no documented key path of this wallet (%s) and must be refused; it '
                            'returned %s' % (cmd, D, val[:90]))
            elif not ow.reach(wt, net, a):
                if val != 'ERR':
                    return ow.outside(cmd, wt, net, a, val)
            elif val == 'ERR':
                if not conflict:
                    return 'key_for_path refused: %s' % cmd
            else:
                err, r = _leaf(der, ow, val, wt, net, a, chg, idx)
                if err:
                    return err
                if r[0] not in ow.by_path:
                    expect_new.add(r[0])
                ow.chain((wt, net, a, chg)).add(idx)
                ow.requested.setdefault((wt, net, a, chg), set()).add(idx)
                ow.accounts.setdefault((wt, net), set()).add(a)
        elif f[0] == 'Q':
            # Wallet.account(n): the account key m/purpose'/coin'/n' of the wallet's own witness type and network, when
            # the wallet has that account; never a new key
            a = int(f[2])
            if val != 'ERR':
                path_s = val.split('|')[0]
                pp = parse_path(path_s)
                ap = _abs(ow, pp[0], pp[1]) if pp else None
                if ap is None or tuple(ap) != tuple(ow.doc_path(ow.wt, ow.net, a)):
                    return 'account(%d) returned the key at %s' % (a, path_s)
                if not ow.reach(ow.wt, ow.net, a):
                    return ow.outside(cmd, ow.wt, ow.net, a, val)
                e = _material(der, ow, ap, val.split('|'), ow.wt, ow.net)
                if e:
                    return e
            elif ow.master and a in ow.accounts.get((ow.wt, ow.net), set()) and \
                    tuple(ow.doc_path(ow.wt, ow.net, a)) in ow.by_path:
                return 'account(%d) refused although the wallet has that account' % a
        elif f[0] == 'X':
            path_s, addr = val.split('|')
            pp = parse_path(path_s)
            ap = _abs(ow, pp[0], pp[1]) if pp else None
            cl = _classify(ow, ap) if ap else None
            if cl is None:
                return 'WalletKey.public() of a key at undocumented path %s' % path_s
            row = ow.rows.get(ow.by_path.get(tuple(ap)))
            if row is None or row.addr != addr:
                return 'WalletKey.public() at %s shows address %s, the stored key has %s' % (
                    path_s, addr, row.addr if row else None)
        elif f[0] == 'U':
            if val != 'ERR':
                used_id = int(val)
                row = ow.rows.get(used_id)
                if row is None or len(row.ap) != 5:
                    return 'a transaction was filed on key id %s, which is no address key of the wallet' % val
        elif f[0] == 'S':
            # scan with silent providers: on every chain (witness type in use, network, account, requested change
            # flags) at least <gap> unused keys follow the last used one; whatever it creates continues its chain
            gap, acct, chg, net = int(f[2]), f[3], f[4], f[5]
            net = net if net != '-' else ow.net
            if val != 'ok':
                return 'scan failed: %s' % cmd
            if acct != '-':
                a = int(acct)
            elif net == ow.net:
                a = ow.acct
            else:
                a = None
            if not ow.master:
                a = ow.acct
            new_by_chain = {}
            for it in (snap or '').split(';'):
                if '|' not in it:
                    continue
                r = it.split('|')
                pp = parse_path(r[1]) if len(r) == 14 else None
                ap = _abs(ow, pp[0], pp[1]) if pp else None
                cl = _classify(ow, ap) if ap else None
                if cl is None:
                    continue            # rows above the address level; the snapshot check files them
                key = (cl[0], r[10], cl[2], cl[3])
                if (a is not None and cl[2] != a) or r[10] != net or (chg != '-' and cl[3] != int(chg)):
                    return 'scan(%s) created the key at %s, outside the chains it was asked to scan' % (cmd, r[1])
                new_by_chain.setdefault(key, []).append((cl[4], tuple(ap)))
            for key, lst in new_by_chain.items():
                ch = ow.chain(key)
                nxt = max(ch) + 1 if ch else 0
                idxs = sorted(i for i, _ in lst)
                if idxs != list(range(nxt, nxt + len(idxs))):
                    return 'scan created indices %s on chain %s whose highest index is %s' % (
                        idxs, key, max(ch) if ch else None)
                for i, ap in lst:
                    ch.add(i)
                    expect_new.add(ap)
                ow.accounts.setdefault((key[0], key[1]), set()).add(key[2])
            ow.scanned = (gap, a, chg, net)
        elif f[0] == 'R':
            if val != 'ok':
                return 'the wallet could not be opened again: %s' % tok[:60]
        elif f[0] == 'L':
            e = _listing_check(ow, f, val)
            if e:
                return e
        elif f[0] == 'D':
            # the full table: rows seen before must be unchanged in every column; rows not seen before (an export
            # for another wallet may have created an account key) are checked like any new row, and none of them may
            # be an address key
            rows = [] if not val else [r.split('|') for r in val.split(',')]
            for r in rows:
                if len(r) != 14:
                    return 'malformed row in Wallet.keys(): %r' % ('|'.join(r)[:80],)
            if any(int(r[0]) not in ow.rows for r in rows):
                e = _snapshot(der, ow, ';'.join('/'.join(_compact(ow.rows[int(r[0])])) if int(r[0]) in ow.rows
                                                else '|'.join(r) for r in rows), set(), None)
                if e:
                    return 'after %s: %s' % (cmd, e)
            seen_ids = set()
            for r in rows:
                row = ow.rows[int(r[0])]
                now = (r[1], r[2], r[3], int(r[4]), r[5], int(r[6]), int(r[7]), bool(int(r[8])), int(r[9]), r[10], r[11],
                       bool(int(r[12])), r[13])
                was = (row.path_s, row.addr, row.wif, row.acct, row.chg, row.idx, row.depth, row.used, row.purpose, row.net,
                       row.wt, row.priv, row.cos)
                if now != was:
                    return 'stored key %s changed: %s -> %s' % (row.path_s, was, now)
                seen_ids.add(row.id)
            if seen_ids != set(ow.rows):
                return 'Wallet.keys() no longer lists the key at %s' % ow.rows[min(set(ow.rows) - seen_ids)].path_s
            ow.dump = {r[1]: r[2] for r in rows}
        if snap is not None:
            e = _snapshot(der, ow, snap, expect_new, used_id)
            if e:
                return 'after %s: %s' % (cmd[:60], e)
            if f[0] == 'S':
                gap, a, chg, net = ow.scanned
                wts = set(r.wt for r in ow.rows.values() if r.net == net) or {ow.wt}
                for wt in wts:
                    for g in ((0, 1) if chg == '-' else (int(chg),)):
                        known_accts = sorted(ow.accounts.get((wt, net), set()))
                        accts = [a] if a is not None else (known_accts if len(known_accts) == 1 else [])
                        for a1 in accts:
                            rows = sorted((r for r in ow.rows.values() if len(r.ap) == 5 and r.wt == wt and r.net == net
                                           and r.acct == a1 and r.chg == str(g)), key=lambda r: r.id)
                            last_used = max([r.id for r in rows if r.used] or [0])
                            free = [r for r in rows if not r.used and r.id > last_used]
                            if len(free) < gap:
                                return ('after %s: chain (%s, %s, account %d, change %d) has %d unused keys after its last '
                                        'used one, the gap limit is %d' % (cmd, wt, net, a1, g, len(free), gap))
        elif f[0] in 'KGBAPMURS':
            return 'no key table reported after %s' % cmd[:60]
    # restored wallets reproduce the same addresses (same absolute position -> same address)
    pos = {}
    for slot, ow in ws.items():
        if isinstance(ow, tuple):
            continue
        for row in ow.rows.values():
            if len(row.ap) == 5:
                key = (row.ap, row.wt, row.net)
                if key in pos and pos[key][0] != row.addr:
                    return 'wallets %s and %s disagree on the address at %s' % (pos[key][1], slot, row.path_s)
                pos[key] = (row.addr, slot)
    return None


# ------------------------------------------------------------------ wallets with a custom key_path (request kprun)
KP_SPECS = ['ah.ch.ih',            # Bitcoin Core: m/account'/change'/address_index'
            'ah.c.i', 'ah.c.ih', 'ah.ch.i', 'th.ah.c.ih', 'th.ah.ch.ih', 'th.ah.c.i', 'ch.ih', 'c.i',
            'c.ih']


def kp_check(c, out):
    """history of a wallet created with its own key_path (levels coin_type' / account' / change['] / address_index[']):
    every stored key lies at a path of that shape, its address and extended key are what BIP32 gives for the STORED
    path from the seed, its account / change / address_index columns are the items of its path, indices of every
    (account, change) chain are issued without gaps or repeats (named ones excepted), no address twice; the keys handed
    out are the ones the request names"""
    if out == 'BADREQ' or out.startswith('CRASH'):
        return 'unexpected answer %r' % out[:160]
    t = c.req.split(' ')
    der = Deriver(bytes.fromhex(t[1]))
    cmds, toks = t[2:], out.split(' ')
    if len(toks) != len(cmds):
        return 'answer has %d tokens for %d commands' % (len(toks), len(cmds))
    W = None
    for cmd, tok in zip(cmds, toks):
        f = cmd.split(':')
        op, val = tok.split('=', 1)
        if op != f[0]:
            return 'answer token %r does not belong to command %r' % (tok[:40], cmd)
        if 'CRASH' in val:
            return 'the library failed with an unexpected exception on %s: %s' % (cmd, val[:60])
        snap = None
        if '~' in val:
            val, snap = val.split('~', 1)
        if f[0] == 'C':
            if val != 'ok':
                return 'Wallet.create refused the key path of %s' % cmd
            levels = [(x[0], x.endswith('h')) for x in f[4].split('.')]
            W = dict(net=f[2], wt=WTN[f[3]], levels=levels, names=[l for l, _ in levels], rows={}, by_addr={},
                     by_path={}, named={})
        if W is None:
            continue
        names, levels, net, wt = W['names'], W['levels'], W['net'], W['wt']
        has_acct = 'a' in names

        def doc(acct, chg, idx, upto=None):
            vals = {'t': coin(net), 'a': acct, 'c': chg, 'i': idx}
            ap = [(vals[l], h) for l, h in levels]
            return tuple(ap if upto is None else ap[:names.index(upto) + 1])

        def path_s(ap):
            return 'm' + ''.join('/%d%s' % (v, "'" if h else '') for v, h in ap)

        def chain_idx(key):
            return set(r['idx'] for r in W['rows'].values() if r['leaf'] and (r['acct'], r['chg']) == key)
        before = {}
        for r in W['rows'].values():
            if r['leaf']:
                before.setdefault((r['acct'], r['chg']), set()).add(r['idx'])
        handed, used_id, named_now = [], None, {}
        misfit = f[0] in 'KGPB' and not has_acct and f[2] != '-' and int(f[2]) != 0
        if misfit and val != 'ERR':
            # BIP32 files keys by path: a key path without account level has one account only
            return ('%s asks for account %s of a wallet whose key path has no account level; it must be refused, it '
                    'returned %s' % (cmd, f[2], val[:100]))
        if f[0] in 'KGPBA' and val == 'ERR' and not misfit:
            return 'a valid key request was refused: %s' % cmd
        if f[0] in 'KGPB' and not misfit:
            acct = 0 if f[2] == '-' else int(f[2])
            chg = int(f[3])
            chain = before.get((acct, chg), set())
            nxt = max(chain) + 1 if chain else 0
            keys = [k.split('|') for k in val.split(',')]
            if any(len(k) != 6 for k in keys):
                return 'malformed key in %r' % val[:80]
            n = {'K': lambda: int(f[4]), 'G': lambda: int(f[4]), 'P': lambda: 1, 'B': lambda: int(f[5])}[f[0]]()
            if len(keys) != n:
                return '%s returned %d keys' % (cmd, len(keys))
            if len(set(k[0] for k in keys)) != n:
                return '%s handed out a key twice: %s' % (cmd, [k[0] for k in keys])
            fresh = 0
            for j, k in enumerate(keys):
                kpath, kaddr, kwif, kidx, kchg, kacct = k
                known = W['by_path'].get(kpath)
                if f[0] == 'P':
                    want = int(f[4])
                elif f[0] == 'B':
                    want = int(f[4]) + j
                elif f[0] == 'G' and known is not None:
                    row = W['rows'][known]
                    if row['used']:
                        return 'get_key handed out the used key at %s' % kpath
                    if not row['leaf'] or (row['acct'], row['chg']) != (acct, chg):
                        return '%s handed out %s' % (cmd, kpath)
                    want = row['idx']
                else:
                    if known is not None:
                        return ('%s returned the key at %s, which exists already (highest index of the chain is %s)'
                                % (cmd, kpath, max(chain) if chain else None))
                    want = nxt + fresh
                    fresh += 1
                if f[0] in 'PB':
                    named_now.setdefault((acct, chg), set()).add(want)
                want_ap = doc(acct, chg, want)
                if kpath != path_s(want_ap):
                    return '%s handed out the key at %s, expected %s' % (cmd, kpath, path_s(want_ap))
                if (kidx, kchg, kacct) != (str(want), str(chg), str(acct)):
                    return 'key at %s reports (address_index, change, account) = (%s, %s, %s)' % (kpath, kidx, kchg, kacct)
                handed.append((kpath, kaddr, kwif))
        elif f[0] == 'A':
            k = val.split('|')
            if len(k) != 6:
                return 'malformed key in %r' % val[:80]
            accts = set(r['acct'] for r in W['rows'].values() if r['acct'] is not None and len(r['ap']) > names.index('a'))
            # the key of the next account: the account key itself or (key paths whose deeper levels are hardened, where
            # the library's "public master" level lies deeper) the first key below it at change 0 / index 0
            full = doc(max(accts) + 1 if accts else 0, 0, 0)
            if k[0] not in [path_s(full[:n]) for n in range(names.index('a') + 1, len(full) + 1)]:
                return 'new_account handed out %s, expected %s or the first keys below it' % (
                    k[0], path_s(full[:names.index('a') + 1]))
            handed.append((k[0], k[1], k[2]))
        elif f[0] == 'U':
            if val != 'ERR':
                used_id = int(val)
        elif f[0] == 'R' and val != 'ok':
            return 'the wallet could not be opened again'
        for key, v in named_now.items():
            W['named'].setdefault(key, set()).update(v)
        # the key table after the command
        if snap is None:
            return 'no key table after %s' % cmd
        seen, new_leaf = set(), {}
        for it in ([] if not snap else snap.split(';')):
            r = it.split('/')
            if len(r) != 13:
                return 'malformed row %r' % it[:80]
            kid, rpath, addr, wif = int(r[0]), r[1].replace('.', '/'), r[2], r[3]
            now = dict(path=rpath, addr=addr, wif=wif, idx=r[4], chg=r[5], acct=r[6], depth=r[7], used=r[8] == '1',
                       net=r[9], wt=r[10], priv=r[11], ktype=r[12])
            seen.add(kid)
            old = W['rows'].get(kid)
            if old is not None:
                if old['raw'] != now:
                    if now['used'] and not old['used'] and kid == used_id and dict(old['raw'], used=True) == now:
                        old['used'] = True
                        old['raw'] = now
                        continue
                    return 'stored key %s changed: %s -> %s' % (rpath, old['raw'], now)
                continue
            pp = parse_path(rpath)
            if pp is None or pp[0] != 'm':
                return 'stored key has the malformed path %r' % rpath
            ap = tuple(pp[1])
            if len(ap) > len(levels):
                return 'stored key at %s lies below the key path of the wallet' % rpath
            for (v, h), (l, lh) in zip(ap, levels):
                if h != lh:
                    return ('stored key at %s: the %s level of the key path is %shardened' %
                            (rpath, {'t': 'coin_type', 'a': 'account', 'c': 'change', 'i': 'address_index'}[l],
                             '' if lh else 'not '))
                if l == 't' and v != coin(net):
                    return 'stored key at %s: coin type of %s is %d' % (rpath, net, coin(net))
                if l == 'c' and v not in (0, 1):
                    return 'stored key at %s has change level %d' % (rpath, v)
            x = der.at(ap)
            if x is None:
                return 'no key derives at %s' % rpath
            if addr != _address(net, wt, x.pt):
                return ('stored key at %s has address %s, BIP32 derivation of that path gives %s' %
                        (rpath, addr, _address(net, wt, x.pt)))
            if wif != _xser(net, wt, x, True):
                return 'stored key at %s: its extended key is not the BIP32 key of that path' % rpath
            leaf = len(ap) == len(levels)
            vals = {l: ap[i][0] for i, (l, _) in enumerate(levels) if i < len(ap)}
            racct = vals.get('a', 0)
            if now['depth'] != str(len(ap)) or now['net'] != net or now['wt'] != WTL[wt] or now['priv'] != '1' \
                    or now['ktype'] != 'bip32' or now['used']:
                return 'stored key at %s is filed as %s' % (rpath, now)
            if now['acct'] != str(racct):
                return 'stored key at %s is filed under account %s' % (rpath, now['acct'])
            if 'c' in vals and now['chg'] != str(vals['c']):
                return 'stored key at %s is filed under change %s' % (rpath, now['chg'])
            if leaf and now['idx'] != str(vals['i']):
                return 'stored key at %s is filed under address_index %s' % (rpath, now['idx'])
            if addr in W['by_addr']:
                return 'keys %s and %s share address %s' % (W['rows'][W['by_addr'][addr]]['path'], rpath, addr)
            W['rows'][kid] = dict(raw=now, path=rpath, ap=ap, leaf=leaf, acct=racct, chg=vals.get('c'), idx=vals.get('i'),
                                  used=False)
            W['by_addr'][addr] = kid
            W['by_path'][rpath] = kid
            if leaf:
                new_leaf.setdefault((racct, vals['c']), set()).add(vals['i'])
            if f[0] in 'UR':
                return 'key at %s appeared after %s' % (rpath, cmd)
        if set(W['rows']) - seen:
            return 'stored key %s disappeared' % W['rows'][min(set(W['rows']) - seen)]['path']
        for kpath, kaddr, kwif in handed:
            kid = W['by_path'].get(kpath)
            if kid is None:
                return 'key at %s was handed out but is not stored' % kpath
            if (W['rows'][kid]['raw']['addr'], W['rows'][kid]['raw']['wif']) != (kaddr, kwif):
                return 'key handed out at %s differs from the stored one' % kpath
        # new keys of a chain continue it: no gaps, no repeats (indices named by the request excepted)
        for key, idxs in new_leaf.items():
            old = before.get(key, set())
            named = named_now.get(key, set())
            rest = sorted(idxs - named)
            base = (max(old) + 1) if old else 0
            if f[0] in 'PB' and rest:
                return '%s created the unnamed keys %s on chain (account %d, change %d)' % (cmd, rest, key[0], key[1])
            if rest and rest != list(range(base, base + len(rest))):
                return ('%s created indices %s on chain (account %d, change %d) whose highest index was %s' %
                        (cmd, rest, key[0], key[1], max(old) if old else None))
            if not has_acct and key[0] != 0:
                return 'key filed under account %d in a wallet without account level' % key[0]
    return None


def cosigner_seed(seed, i):
    return hmac.new(b'c09 cosigner', seed + bytes([i]), hashlib.sha512).digest()[:32]


def _ms_script(m, pubs):
    """BIP11 / BIP67: OP_m <33-byte key> ... OP_n OP_CHECKMULTISIG over the lexicographically sorted keys"""
    return bytes([0x50 + m]) + b''.join(b'\x21' + p for p in sorted(pubs)) + bytes([0x50 + len(pubs), 0xae])


def _ms_address(net, wt, script):
    _, _, sh, hrp, _ = FROZEN_NETS[net]
    if wt == 'legacy':
        return _b58check(bytes.fromhex(sh) + _h160(script))                                   # P2SH
    wsh = hashlib.sha256(script).digest()
    if wt == 'p2sh-segwit':
        return _b58check(bytes.fromhex(sh) + _h160(b'\x00\x20' + wsh))                        # P2SH-P2WSH (BIP141)
    return _segwit_addr(hrp, wsh)                                                             # P2WSH


def ms_check(c, out):
    """multisig cosigner wallet history: every handed-out key lies at the BIP48 / BIP45 path of (network, script
    type, account 0, change, index[, cosigner]), its address is the m-of-n script address over the cosigners' BIP32
    keys at that path, indices are issued without gaps or repeats, no two keys share an address; checked on the
    wallet's whole key table after every command"""
    if out == 'BADREQ' or out.startswith('CRASH'):
        return 'unexpected answer %r' % out[:160]
    t = c.req.split(' ')
    seed = bytes.fromhex(t[1])
    cmds, toks = t[2:], out.split(' ')
    if len(toks) != len(cmds):
        return 'answer has %d tokens for %d commands' % (len(toks), len(cmds))
    W = None
    for cmd, tok in zip(cmds, toks):
        f = cmd.split(':')
        op, val = tok.split('=', 1)
        if 'CRASH' in val:
            return 'the library failed with an unexpected exception on %s: %s' % (cmd, val[:60])
        snap = None
        if '~' in val:
            val, snap = val.split('~', 1)
        if f[0] == 'C':
            net, wt, n, m, own = f[2], WTN[f[3]], int(f[4]), int(f[5]), int(f[6])
            if val == 'ERR':
                return 'Wallet.create refused a valid multisig request: %s' % cmd
            ders = [Deriver(cosigner_seed(seed, i)) for i in range(n)]
            bip45 = wt == 'legacy'
            acct_path = [(45, True)] if bip45 else [(48, True), (coin(net), True), (0, True),
                                                     (1 if wt == 'p2sh-segwit' else 2, True)]
            # the cosigner order is the order of the supplied keys' public keys (own: master key; others: the
            # account-level public key they hand over)
            supplied = [_ser(ders[i].at(() if i == own else tuple(acct_path)).pt) for i in range(n)]
            order = sorted(range(n), key=lambda i: supplied[i])
            W = dict(net=net, wt=wt, n=n, m=m, own=order.index(own), ders=[ders[i] for i in order], bip45=bip45,
                     acct_path=acct_path, rows={}, by_addr={}, by_path={}, chains={}, named={})
            if int(val) != W['own']:
                return 'the wallet says it is cosigner %s, its key sorts at position %d' % (val, W['own'])
            if snap:
                return 'a new multisig wallet already holds keys: %s' % snap[:80]
            continue
        if W is None:
            continue

        def expected(chg, idx, cos):
            rel = [(cos, False), (chg, False), (idx, False)] if W['bip45'] else [(chg, False), (idx, False)]
            ap = tuple(W['acct_path'] + rel)
            pubs = [_ser(d.at(ap).pt) for d in W['ders']]
            path_s = 'm/' + '/'.join('%d%s' % (v, "'" if h else '') for v, h in ap)
            return path_s, _ms_address(W['net'], W['wt'], _ms_script(W['m'], pubs))
        new_expected, used_id = {}, None       # path -> (idx, chg, cos) of the rows this command may add
        misfit = None
        if f[0] in ('K', 'G', 'P'):
            # optional arguments: another witness type / network / account, a cosigner position.  The wallet holds ONE
            # master key (its own) and account-level PUBLIC keys of the other cosigners (m/48'/coin'/0'/script' or
            # m/45'): keys of another script type, coin type or account cannot be derived from those, and a cosigner
            # position outside 0..n-1 does not exist
            xi = {'K': 5, 'G': 5, 'P': 4}[f[0]]
            xs = (f[xi:xi + 3] + ['-', '-', '-'])[:3]
            cos_s = f[3] if f[0] == 'K' else (f[4] if f[0] == 'G' and len(f) > 4 else '-')
            if xs[0] != '-' and WTN[xs[0]] != W['wt']:
                misfit = 'witness type %s' % WTN[xs[0]]
            elif xs[1] != '-' and xs[1] != W['net']:
                misfit = 'network %s' % xs[1]
            elif xs[2] != '-' and int(xs[2]) != 0:
                misfit = 'account %s' % xs[2]
            elif cos_s != '-' and not (0 <= int(cos_s) < W['n']):
                misfit = 'cosigner position %s of %d' % (cos_s, W['n'])
        if misfit:
            if val != 'ERR':
                return ('%s asks for %s, which the cosigner keys of this wallet cannot reach; it must be refused, it '
                        'returned %s' % (cmd, misfit, val[:100]))
        elif f[0] in ('K', 'G', 'P'):
            if val == 'ERR':
                return 'a valid key request was refused: %s' % cmd
            keys = [k.split('|') for k in val.split(',')]
            if f[0] == 'K':
                chg, cos, n = int(f[2]), (W['own'] if f[3] == '-' else int(f[3])), int(f[4])
            elif f[0] == 'G':
                chg, cos, n = int(f[2]), (W['own'] if cos_s == '-' else int(cos_s)), int(f[3])
            else:
                chg, cos, n = int(f[2]), W['own'], 1
            named_cos = cos
            if not W['bip45']:
                cos = W['own']      # BIP48 paths have no cosigner level: one chain per change flag, whoever is named
            if len(keys) != n:
                return '%s returned %d keys' % (cmd, len(keys))
            chain = W['chains'].setdefault((chg, cos), set())
            nxt = max(chain) + 1 if chain else 0
            fresh = []
            for k in keys:
                if len(k) != 6:
                    return 'malformed key %r' % (k,)
                path_s, addr, idx, kchg, kacct, kcos = k
                known = W['by_path'].get(path_s)
                if f[0] == 'P':
                    want_idx = int(f[3])
                    W['named'].setdefault((chg, cos), set()).add(want_idx)
                elif known is not None and f[0] == 'G':
                    want_idx = W['rows'][known]['idx']
                    if W['rows'][known]['used']:
                        return 'get_key handed out the used key at %s' % path_s
                    if (W['rows'][known]['chg'], W['rows'][known]['cos']) != (chg, cos):
                        return 'get_key(change=%d) handed out %s' % (chg, path_s)
                else:
                    want_idx = nxt + len(fresh)
                    if known is not None:
                        return ('new_key returned the key at %s, which was handed out before (highest index of the chain '
                                'is %s)' % (path_s, max(chain) if chain else None))
                want_path, want_addr = expected(chg, want_idx, cos)
                if path_s != want_path:
                    return '%s handed out the key at %s, expected %s' % (cmd, path_s, want_path)
                if addr != want_addr:
                    return 'multisig key at %s has address %s, the cosigner keys at that path give %s' % (
                        path_s, addr, want_addr)
                if (int(idx), int(kchg), int(kacct)) != (want_idx, chg, 0) or int(kcos) not in (cos, named_cos):
                    return ('key at %s reports (address_index, change, account, cosigner) = (%s, %s, %s, %s)' %
                            (path_s, idx, kchg, kacct, kcos))
                if known is None:
                    fresh.append(want_idx)
                    new_expected[path_s] = (want_idx, chg, int(kcos), addr)
                chain.add(want_idx)
        elif f[0] == 'U':
            if val != 'ERR':
                used_id = int(val)
        elif f[0] == 'R':
            if val != 'ok':
                return 'the wallet could not be opened again'
        # the key table after the command
        if snap is None:
            return 'no key table after %s' % cmd
        seen = set()
        for it in ([] if not snap else snap.split(';')):
            r = it.split('/')
            if len(r) != 13:
                return 'malformed row %r' % it[:80]
            kid, path_s, addr, idx, chg, acct = int(r[0]), r[1].replace('.', '/'), r[2], int(r[3]), int(r[4]), int(r[5])
            cos, wt, net, used, depth, ktype, purpose = int(r[6]), WTN.get(r[7]), r[8], bool(int(r[9])), int(r[10]), r[11], int(r[12])
            seen.add(kid)
            old = W['rows'].get(kid)
            now = dict(path=path_s, addr=addr, idx=idx, chg=chg, acct=acct, cos=cos, wt=wt, net=net, used=used,
                       depth=depth, ktype=ktype, purpose=purpose)
            if old is not None:
                if old != now:
                    if used and not old['used'] and kid == used_id and dict(old, used=True) == now:
                        old['used'] = True
                        continue
                    return 'stored multisig key %s changed: %s -> %s' % (path_s, old, now)
                continue
            if path_s not in new_expected:
                return 'multisig key at %s appeared although no request created it' % path_s
            widx, wchg, wcos, waddr = new_expected.pop(path_s)
            want = dict(path=path_s, addr=waddr, idx=widx, chg=wchg, acct=0, cos=wcos, wt=W['wt'], net=W['net'],
                        used=False, depth=len(W['acct_path']) + (3 if W['bip45'] else 2), ktype='multisig',
                        purpose=45 if W['bip45'] else 48)
            if now != want:
                return 'stored multisig key at %s is %s, expected %s' % (path_s, now, want)
            if addr in W['by_addr']:
                return 'keys %s and %s share address %s' % (W['rows'][W['by_addr'][addr]]['path'], path_s, addr)
            W['rows'][kid] = now
            W['by_addr'][addr] = kid
            W['by_path'][path_s] = kid
        if new_expected:
            return 'key at %s was handed out but is not stored' % sorted(new_expected)[0]
        if set(W['rows']) - seen:
            return 'stored multisig key %s disappeared' % W['rows'][min(set(W['rows']) - seen)]['path']
        # index invariant from the table alone (BIP48: one chain per change flag, BIP45: one per cosigner position)
        chains = {}
        for row in W['rows'].values():
            key = (row['chg'], row['cos'] if W['bip45'] else W['own'])
            if row['idx'] in chains.setdefault(key, set()):
                return 'address_index %d stored twice on chain (change %d, cosigner %d)' % (row['idx'], key[0], key[1])
            chains[key].add(row['idx'])
        for key, idxs in chains.items():
            named = W['named'].get(key, set())
            for i in idxs:
                if i > 0 and i not in named and i - 1 not in idxs:
                    return 'chain (change %d, cosigner %d) has a gap below index %d' % (key[0], key[1], i)
    return None


def _listing_check(ow, f, val):
    """Wallet.keys(...) and its wrappers against the oracle's own copy of the table: nothing outside the filter is
    listed, and every ADDRESS key that passes every given filter is listed, in id order, once"""
    how, acct, chg, depth, used, wt, net = f[2:9]
    if val == 'ERR':
        return 'listing refused: %s' % ':'.join(f)
    items = [] if val == '-' else val.split(';')
    key_depth = 5
    if how == 'a':
        wt = '-'
        depth = depth if depth != '-' else str(key_depth)
    elif how in 'pc':
        wt, chg, depth = '-', ('0' if how == 'p' else '1'), str(key_depth)
    elif how == 'l':
        wt = '-'
        depth = str(key_depth) if depth == '-' else ('-' if depth == '-1' else depth)

    def passes(row):
        return ((acct == '-' or row.acct == int(acct)) and (chg == '-' or row.chg == chg)
                and (depth == '-' or row.depth == int(depth)) and (used == '-' or row.used == (used == '1'))
                and (wt == '-' or row.wt == WTN[wt]) and (net == '-' or row.net == net))
    if how == 'l':
        rows = []
        for a in items:
            if a not in ow.by_addr:
                return 'addresslist shows %s, which is no address of the wallet' % a
            rows.append(ow.rows[ow.by_addr[a]])
    else:
        rows = []
        for i in items:
            if int(i) not in ow.rows:
                return 'a listing shows row id %s, which the wallet never created' % i
            rows.append(ow.rows[int(i)])
    ids = [r.id for r in rows]
    if ids != sorted(set(ids)):
        return 'listing %s is not in id order or shows a key twice: %s' % (':'.join(f[2:]), ids)
    for r in rows:
        if not passes(r):
            return 'listing %s shows the key at %s (account %d, change %s, depth %d, used %d, %s, %s)' % (
                ':'.join(f[2:]), r.path_s, r.acct, r.chg, r.depth, r.used, r.wt, r.net)
    shown = set(ids)
    for r in ow.rows.values():
        if len(r.ap) == 5 and passes(r) and r.id not in shown:
            return 'listing %s misses the address key at %s' % (':'.join(f[2:]), r.path_s)
    return None


def _wkey_after_reopen(c, io=None, mo=None):
    """the request hands the main WalletKey of a wallet that was re-opened and not used since to Wallet.create"""
    cmds = c.req.split(' ')[3:]
    fresh = {}            # slot -> True while its main key object has not been touched since the last reopen
    for cmd in cmds:
        f = cmd.split(':')
        if f[0] == 'R':
            fresh[f[1]] = True
        elif f[0] == 'C' and f[2] == 'wkey' and len(f) > 6 and fresh.get(f[6]):
            return True
        elif f[0] in ('K', 'G', 'A', 'P', 'B', 'M', 'U') :
            fresh[f[1]] = fresh.get(f[1], False)      # these do not build the main key object
    return False


def _ms_bulk_or_explicit(c, io=None, mo=None):
    """a multisig wallet is asked for several keys at once or for an explicit path (their address_index column)"""
    if not c.req.startswith('msrun '):
        return False
    for cmd in c.req.split(' ')[2:]:
        f = cmd.split(':')
        if f[0] == 'P' or (f[0] == 'K' and int(f[4]) > 1) or (f[0] == 'G' and int(f[3]) > 1):
            return True
    return False


def _walk(c):
    """(slot configuration, command fields) for every command of a run / probe case on a created slot"""
    t = c.req.split(' ')
    if t[0] not in ('run', 'probe'):
        return
    slots = {}
    for cmd in t[3:]:
        f = cmd.split(':')
        if f[0] == 'C':
            slots[f[1]] = dict(kind=f[2], net=f[3], wt=WTN.get(f[4]), acct=int(f[5]),
                               level=('m' if f[2] in MASTER_KINDS else 'single' if f[2] == 'single' else
                                      'pub' if f[2] in ACCOUNT_PUB_KINDS else 'prv'))
        elif len(f) > 1 and f[1] in slots:
            yield slots[f[1]], f


def _args(f):
    """(account, witness type, network) fields of a key request, '-' when absent"""
    if f[0] in 'KG':
        return f[2], f[4], f[5]
    if f[0] == 'B':
        return f[2], f[5], f[6]
    if f[0] == 'P':
        return f[3], f[6], f[7]
    if f[0] in 'MA':
        return f[2], f[3], f[4]
    return '-', '-', '-'


def _kc_account_wallet(c, io=None, mo=None):
    """an account-level wallet is asked for another account (any entry point) or, by explicit path / bulk request,
    for another network"""
    for w, f in _walk(c):
        if w['level'] in ('prv', 'pub') and f[0] in 'KGBPM':
            a, wt, net = _args(f)
            if (a != '-' and int(a) != w['acct']) or (f[0] in 'PB' and net not in ('-', w['net'])):
                return True
    return False


def _rel_items(f):
    parts = f[2].split('.')
    return parts[1:] if parts[0] in 'rs' else []


def _kc_path_names_account(c, io=None, mo=None):
    """an account-level wallet is given a relative path that names the account level (three items)"""
    return any(w['level'] in ('prv', 'pub') and f[0] == 'P' and len(_rel_items(f)) == 3 for w, f in _walk(c))


def _path_account(w, f):
    parts = f[2].split('.')
    if parts[0] in 'rs' and len(parts) - 1 >= 3:
        return int(parts[-3].rstrip('h'))
    if parts[0] == 'f' and len(parts) == 7:
        return int(parts[4].rstrip('h'))
    return None


def _kc_path_account_column(c, io=None, mo=None):
    """a wallet with a master key is given a path that names another account than the (non-zero) account_id in force"""
    for w, f in _walk(c):
        if w['level'] == 'm' and f[0] == 'P':
            pa = _path_account(w, f)
            eff = int(f[3]) if f[3] != '-' else w['acct']
            if pa is not None and pa != eff and eff != 0:
                return True
    return False


def _kc_path_purpose(c, io=None, mo=None):
    """a full path under another purpose than the witness type in force"""
    for w, f in _walk(c):
        parts = f[2].split('.') if f[0] == 'P' else []
        if w['level'] == 'm' and parts[:1] == ['f'] and len(parts) == 7:
            wt = WTN[f[6]] if f[6] != '-' else w['wt']
            if int(parts[2].rstrip('h')) != PURPOSE[wt]:
                return True
    return False


def _kc_single(c, io=None, mo=None):
    """a single-key wallet is asked with arguments that do not fit it"""
    for w, f in _walk(c):
        if w['level'] == 'single' and f[0] in 'KGMBP':
            a, wt, net = _args(f)
            if (a not in ('-', str(w['acct']))) or (wt != '-' and WTN[wt] != w['wt']) or net not in ('-', w['net']) \
                    or (f[0] in 'KG' and len(f) > 7 and f[7] != '-') or f[0] == 'B' or (f[0] == 'P' and f[2] != 'e'):
                return True
    return False


def _kc_level_offset(c, io=None, mo=None):
    """an account-level wallet is asked for a level at or above its main key by a positive level_offset"""
    return any(w['level'] in ('prv', 'pub') and f[0] == 'P' and len(f) > 8 and f[8] not in ('-',) and 0 < int(f[8]) <= 3
               for w, f in _walk(c))


def _kc_cosigner(c, io=None, mo=None):
    """a wallet without cosigners is given a cosigner_id"""
    return any(w['level'] != 'single' and f[0] in 'KG' and len(f) > 7 and f[7] != '-' for w, f in _walk(c))


def _kc_keypath_account(c, io=None, mo=None):
    """a wallet whose own key_path has no account level is asked for an account other than 0"""
    t = c.req.split(' ')
    if t[0] != 'kprun':
        return False
    noacct = set()
    for cmd in t[2:]:
        f = cmd.split(':')
        if f[0] == 'C' and 'a' not in [x[0] for x in f[4].split('.')]:
            noacct.add(f[1])
        elif f[0] in 'KGPB' and f[1] in noacct and f[2] not in ('-', '0'):
            return True
    return False


def _kc_multisig_reach(c, io=None, mo=None):
    """a multisig wallet is asked for another witness type / network / account or another cosigner position"""
    if not c.req.startswith('msrun '):
        return False
    for cmd in c.req.split(' ')[2:]:
        f = cmd.split(':')
        if f[0] == 'K' and (f[3] != '-' or any(x != '-' for x in f[5:8])):
            return True
        if f[0] == 'G' and any(x != '-' for x in f[4:8]):
            return True
        if f[0] == 'P' and any(x != '-' for x in f[4:7]):
            return True
    return False


# class id -> predicate deciding from the case alone that it lies in a recorded class of defects
KNOWN_CLASSES = {'create_from_walletkey': _wkey_after_reopen, 'multisig_address_index': _ms_bulk_or_explicit,
                 'account_wallet_foreign_account_or_network': _kc_account_wallet,
                 'account_wallet_path_names_account': _kc_path_names_account,
                 'explicit_path_account_column': _kc_path_account_column,
                 'explicit_path_purpose_mismatch': _kc_path_purpose,
                 'single_key_wallet_ignores_arguments': _kc_single,
                 'level_offset_above_main_key': _kc_level_offset,
                 'cosigner_id_without_cosigners': _kc_cosigner,
                 'multisig_request_outside_cosigner_keys': _kc_multisig_reach,
                 'keypath_no_account_level': _kc_keypath_account}


_ACTIVE = None


def _active_known():
    global _ACTIVE
    if _ACTIVE is None:
        _ACTIVE = set()
        for e in core.load_known(PROP):
            if e.get('status') == 'known':
                _ACTIVE.add(e.get('class') or e.get('id'))
                _ACTIVE.add(e.get('id'))
    return _ACTIVE


def _main_wifs(out):
    """wif of the main key row (path m / M) reported by each C=ok token"""
    res = []
    for tok in out.split(' '):
        if tok.startswith('C=ok~'):
            first = tok[5:].split(';')[0].split('|')
            res.append(first[3] if len(first) == 14 else None)
    return res


_WITNESS_OUT = {}


def reproduce_known(entry, rundir):
    req = entry['witness']['request']
    if req in _WITNESS_OUT:
        out = [_WITNESS_OUT[req]]
    else:
        rc, out, err = core.run_impl(IMPL, [req], rundir)
    if len(out) != 1:
        return False
    if 'impl_answer' in entry['witness']:
        return out[0] == entry['witness']['impl_answer']
    if entry.get('class') == 'create_from_walletkey':
        w = _main_wifs(out[0])
        return len(w) == 2 and None not in w and w[0] != w[1]
    if entry.get('class') == 'multisig_address_index':
        ks = [t.split('~')[0] for t in out[0].split(' ') if t.startswith('K=')]
        return len(ks) >= 2 and ks[-1] == ks[-2] and 'ERR' not in ks[-1]
    if entry.get('class') == 'keypath_no_account_level':
        return prop_check(Case('witness', req, meta=('kprun',)), out[0]) is not None
    if entry.get('class') in REACH_KNOWN:
        # the witness reproduces when the independent oracle still rejects the library's answer to it
        r = entry['witness']['request']
        return prop_check(Case('witness', r, meta=('msrun',) if r.startswith('msrun') else ('run',)), out[0]) is not None
    return False


def same(c, a, b):
    return a == b


def first_diff(a, b):
    ta, tb = a.split(' '), b.split(' ')
    for i, (x, y) in enumerate(zip(ta, tb)):
        if x != y:
            xs, ys = x.split(','), y.split(',')
            for j, (p, q) in enumerate(zip(xs, ys)):
                if p != q:
                    return 'command %d, item %d: impl %s | model %s' % (i, j, p[:160], q[:160])
            return 'command %d: impl has %d items, model %d' % (i, len(xs), len(ys))
    return 'lengths %d / %d' % (len(ta), len(tb))


# ------------------------------------------------------------------ the flow (core.standard_check, chunked in parallel)
def _chunks(reqs, k):
    idx = [[] for _ in range(k)]
    order = sorted(range(len(reqs)), key=lambda i: -len(reqs[i]))
    load = [0] * k
    for i in order:
        j = load.index(min(load))
        idx[j].append(i)
        load[j] += len(reqs[i])
    return [sorted(x) for x in idx if x]


def _run_parallel(reqs, rundir, exe):
    impl_out, model_out = [None] * len(reqs), [None] * len(reqs)
    errs = []
    chunks = _chunks(reqs, WORKERS)

    def impl_job(n, ix):
        d = os.path.join(rundir, 'chunk%d' % n)
        os.makedirs(os.path.join(d, 'data'), exist_ok=True)
        rc, outs, err = core.run_lines([core.PY, os.path.join(core.VERIF, IMPL)], [reqs[i] for i in ix],
                                       env=core.impl_env(d), timeout=IMPL_TIMEOUT, cwd=d)
        return 'impl', ix, outs, err

    def model_job(n, ix):
        rc, outs, err = core.run_driver(exe, [reqs[i] for i in ix], timeout=IMPL_TIMEOUT)
        return 'model', ix, outs, err

    with concurrent.futures.ThreadPoolExecutor(max_workers=2 * WORKERS) as ex:
        futs = [ex.submit(impl_job, n, ix) for n, ix in enumerate(chunks)]
        if exe:
            futs += [ex.submit(model_job, n, ix) for n, ix in enumerate(chunks)]
        for fu in futs:
            who, ix, outs, err = fu.result()
            if len(outs) != len(ix):
                errs.append('%s produced %d answers for %d requests: %s' % (who, len(outs), len(ix), err[-500:]))
                continue
            for i, o in zip(ix, outs):
                (impl_out if who == 'impl' else model_out)[i] = o
    return impl_out, (model_out if exe else None), errs


def main(tier, seed, replay=None):
    res = core.Result(PROP, tier, seed)
    rundir = core.run_dir(PROP)
    rng = random.Random(seed)
    proof_ok, broken = True, []
    bad = core.scan_forbidden()
    if bad:
        proof_ok = False
        broken.append('forbidden tokens in development: ' + '; '.join(bad[:5]))
    gen_ok, gen_out = core.regenerate(res)
    if not gen_ok:
        proof_ok = False
        broken.append('translator: ' + gen_out[-300:])
    ok, out = core.coq_make(COQ_FILES, timeout=2400)
    if not ok:
        proof_ok = False
        m = re.search(r'File "\./([^"]+)", line (\d+)[^\n]*\n(Error:[^\n]*(?:\n[^\n]*){0,6})', out)
        broken.append('coq build failed: ' + (('%s line %s: %s' % (m.group(1), m.group(2), m.group(3))) if m else out[-600:]))
    else:
        pok, thms, pout = core.check_properties_file(COQ_FILES[-1], ALLOWED_AXIOMS, res)
        if not pok:
            proof_ok = False
            broken.append('Properties file: ' + pout[-400:])
    if proof_ok and tier == 'thorough' and not replay:
        lib = 'Verif.Properties.C09'
        rc_c, out_c = core.sh('timeout 1700 coqchk -o -silent -Q . Verif %s' % lib, cwd=core.COQ, timeout=1730)
        summ = out_c[out_c.find('CONTEXT SUMMARY'):] if 'CONTEXT SUMMARY' in out_c else out_c[-600:]
        res.trusted.append('coqchk -o %s: exit %d; %s' % (lib, rc_c, ' '.join(summ.split())[:900]))
        if rc_c != 0:
            proof_ok = False
            broken.append('coqchk failed: ' + out_c[-300:])
    res.trusted.insert(0, 'Coq 8.16.1 kernel + VM (vm_compute); native_compute not used')
    res.trusted.append(core.EXTRACTION_TB)
    res.trusted.append('translator/gen_all.py (tables regenerated from /repo each run) and harness/*.py; implementation '
                       'adapter calls the public API with PYTHONPATH=/repo and a fresh BCL_DATA_DIR per worker; '
                       'bitcoinlib.wallets.Service replaced by an offline stub')
    res.trusted.append('independent oracle: pure-Python secp256k1 + hashlib BIP32/BIP39, Base58Check/Bech32, extended-key and '
                       'multisig script address encoders, frozen network constants and word list digests in '
                       'harness/props/c09.py (not the library, not the model, nothing read from /repo but the words '
                       'of digest-checked BIP39 lists)')
    for nt in WORDLIST_NOTES:
        res.notes.append(nt)
    res.notes += corpus_selfcheck()

    exe = None
    exe, dout = core.build_driver(DRIVER)
    if exe is None:
        proof_ok = False
        broken.append('driver build failed: ' + dout[-400:])
    if replay:
        rp = json.load(open(replay))
        cases = [Case(c['kind'], c['req'], c.get('key'), meta=(('expand',) + _expand_meta(c['req'])) if c['kind'] == 'expand'
                      else ('run',)) for c in rp.get('cases', [])]
    else:
        global LIBFLAGS
        asked = probe_library(rundir)
        LIBFLAGS = ''.join(x for x in 'APCDL' if x in asked or x in _fixed_letters())
        res.notes.append('library behaviour asked before generating (A: account-level wallets refuse other accounts / '
                         'networks, P: account column from the path, C: cosigner_id refused without cosigners, D: relative '
                         'paths as long as the key path refused, L: level offsets above the main key refused): %r; expected '
                         '(asked, or recorded as fixed): %r' % (asked, LIBFLAGS))
        cases = gen_cases(rng, tier)
        if not proof_ok and tier == 'quick':
            # a broken proof widens the search for a failing input: a second, differently seeded batch (the thorough
            # streams of this property run for the better part of an hour and stay with --tier thorough)
            seen = {c.req for c in cases}
            extra = [c for c in gen_cases(random.Random(seed + 1), 'quick') if c.req not in seen]
            cases += extra
            res.notes.append('proof side broken: search widened with %d further cases' % len(extra))
    failing_input_found = False
    if cases:
        reqs = [c.req for c in cases]
        impl_out, model_out, errs = _run_parallel(reqs, rundir, exe)
        if errs:
            res.notes += errs
            print('note: adapter/driver failure; machinery error', file=sys.stderr)
            core.finish(res, ASSUMPTIONS, RULE)
            sys.exit(2)
        nviol = 0
        nkeys = 0
        for i, c in enumerate(cases):
            res.evaluations += 1
            res.count(c.kind)
            io, mo = impl_out[i], (model_out[i] if model_out is not None else None)
            if not is_trivial(c, io):
                res.distinct.add(c.req)
            nkeys += io.count('|') // 3
            if len(res.samples) < 12 and (i % max(1, len(cases) // 12) == 0):
                res.samples.append({'kind': c.kind, 'request': c.req[:200], 'impl': io[:200],
                                    'model': (mo[:200] if mo is not None else None)})
            try:
                pv = prop_check(c, io)
            except Exception as ex:
                pv = 'oracle could not read the answer (%r): %s' % (ex, io[:120])
            disagree = mo is not None and mo != 'PROBE' and io != mo
            if pv is not None or disagree:
                kc = None
                for cid, pred in KNOWN_CLASSES.items():
                    if cid not in _active_known():
                        continue      # only classes recorded as `known` excuse anything
                    try:
                        if pred(c, io, mo):
                            kc = cid
                            break
                    except Exception:
                        pass
                if kc is not None:      # a failure inside a recorded class is a known finding, not a new violation
                    res.count('known:' + kc)
                    continue
            if pv is None and not disagree:
                continue
            nviol += 1
            if nviol <= 5:
                if pv is not None:
                    failing_input_found = True
                    core.violation(res, 'property fails on the implementation: ' + pv,
                                   {'cases': [{'kind': c.kind, 'req': c.req}], 'impl': io, 'model': mo,
                                    'replay_cmd': './check %s --replay <this file>' % PROP})
                else:
                    core.violation(res, 'correspondence broken (model and implementation differ; property-level check '
                                        'finds no failing input here): kind=%s; %s' % (c.kind, first_diff(io, mo)),
                                   {'cases': [{'kind': c.kind, 'req': c.req}], 'impl': io, 'model': mo,
                                    'obligation': 'correspondence %s/%s' % (PROP, c.kind)}, has_input=False)
        if nviol > 5:
            res.notes.append('%d further disagreements not listed' % (nviol - 5))
        res.cov['key_tokens_compared'] = nkeys
    # the witnesses of all recorded findings in one adapter process
    wreqs = sorted(set(e['witness']['request'] for e in core.load_known(PROP)
                       if e.get('status') == 'known' and 'request' in e.get('witness', {})))
    if wreqs:
        rc_w, out_w, err_w = core.run_impl(IMPL, wreqs, rundir)
        if len(out_w) == len(wreqs):
            _WITNESS_OUT.update(zip(wreqs, out_w))
    for e in core.load_known(PROP):
        if e.get('status') != 'known':
            continue
        try:
            rep = reproduce_known(e, rundir)
        except Exception as ex:
            rep = False
            res.notes.append('known finding %s: reproduction crashed: %r' % (e['id'], ex))
        if rep:
            res.known_hits.append(e['id'])
            print('KNOWN-FINDING: property=%s %s' % (PROP, e['what_fails']))
        else:
            res.stale_known.append(e['id'])
    if not proof_ok and not failing_input_found:
        core.violation(res, 'proof obligation no longer checks: ' + ' | '.join(broken),
                       {'obligation': broken, 'note': 'differential + property-level search found no failing input'},
                       has_input=False)
    elif not proof_ok:
        res.notes.append('proof side broken: ' + ' | '.join(broken))
    return core.finish(res, ASSUMPTIONS, RULE)


def _expand_meta(req):
    t = req.split(' ')
    return (t[1], int(t[2]), t[8], int(t[4]), int(t[5]), int(t[6]), int(t[7]))
