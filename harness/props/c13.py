"""C13 — ECDSA signatures are valid, canonical (strict DER, low S), deterministic; the verifier is exact."""
import hashlib, hmac, os
from core import Case, load_known

PROP = 'C13'
COQ_FILES = ['Extract/C13.v', 'Properties/C13.v']
DRIVER = 'c13'
IMPL = 'harness/impl/c13_impl.py'
ALLOWED_AXIOMS = []
ASSUMPTIONS = [
    'theorems are about coq/Model/Ecdsa.v + coq/Model/Der.v (lib_* mirrors keys.Signature / sign / verify and the '
    'fastecdsa DER coder; spec_* is SEC 1 ECDSA + BIP62/146 low-S + BIP66 strict DER) over the executable affine '
    'secp256k1 of coq/Crypto/Secp256k1.v; tie to /repo: differential correspondence on every run through the public '
    'API (keys.sign, keys.verify, Signature.parse_bytes, encoding.der_encode_sig); fastecdsa (C signer/verifier, '
    'DEREncoder, RFC6979) is part of the implementation under test',
    'sign_verifies is proved for every commutative group with a Z-action, a generator of prime order n and an '
    'x-coordinate map (premises visible in the statement); NOT proved: that the affine secp256k1 instance satisfies '
    'the group laws and that secp_n is prime (DESIGN section 4 item 3) — the instance is validated against '
    'fastecdsa and against an independent pure-Python verifier on every run',
    'the nonce without explicit k is RFC 6979 / HMAC-SHA256 applied to h1 = SHA256(ASCII hex text of the digest) '
    '(what RFC6979(txid, …, prehashed=False) computes): a function of (key, digest) only; that distinct (key, digest) '
    'pairs give distinct nonces is HMAC pseudo-randomness and is not claimed',
    'modelled, not verified: SHA-256/HMAC transcriptions (validated against hashlib each run); public keys reach the '
    'model as SEC-shaped bytes (33 bytes 02/03, 65 bytes 04) read by Key(bytes) with the default strict=True (theorem '
    'lib_pub_point_exact ties that reader to SEC 1 2.3.4); other key spellings (WIF, extended keys, 32-byte private keys offered '
    'as the public key) belong to C04/C12',
    'argument forms: every digest / signature / key argument is modelled AS GIVEN (Model/Ecdsa.v parg = PBytes | PText; '
    'to_hexstring, the txid setter, bytes.fromhex, HDKey(text), and the way fastecdsa\'s C code reads the digest text — GMP '
    'base-16 conversion that skips white space and yields 0 on any other character, cut to 256 bits by CHARACTER count — '
    'which is part of the implementation under test and is known from the correspondence only, not from source).  The '
    'meaning of a bytes argument is its bytes, the meaning of a str argument is the bytes its base-16 text decodes to '
    '(arg_meaning); theorems verify_argument_form_irrelevant / sign_argument_form_irrelevant / *_session_form_irrelevant '
    'hold for every argument that has a meaning; base-16 text with white space is accepted by the oracle under either '
    'reading (refuse / skip the blanks), any other text must be refused.  Text is ASCII (non-ASCII str arguments and a '
    'leading minus sign are not generated); private keys reach the model as integers — the private-key argument forms of '
    'sign (Key / HDKey from hex or bytes, hex str in both cases, the 32 raw bytes, hex-looking bytes) are exercised by the '
    'correspondence only',
    'sessions: Model/Ecdsa.v lib_sign_session / lib_verify_session are folds carrying the state the code keeps '
    '(nothing for signing; _txid, x, y, _public_key of the Signature object); theorems sign_session_is_function, '
    'verify_session_is_function, verify_session_exact say the fold is the map of the stateless functions; the '
    'correspondence runs whole sessions in ONE adapter process / on ONE object.  use_rfc6979=False (random nonce) has '
    'no model answer: the harness takes the nonce the object reports and judges the signature with the independent '
    'signer (covered on the model side by explicit_nonce_is_used); not covered: Signature objects shared between threads',
]
RULE = ('boundary stream (keys, digests, nonces, r/s at 0,1,n-1,n,n+1,2^256-1, s around n/2 and 2^255 via solved '
        'digests, every hash-type byte, every DER length form) + valid signatures built by an independent signer + '
        'single mutations of their encodings (padding, sign bit, lengths, tags, truncation, trailing bytes, byte '
        'flips) + wrong keys / digests + SESSIONS: signseq = many (key, digest) pairs signed in one process, pairs chosen '
        'so that realistic cache keys collide (equal digest with keys differing by multiples of 2^61-1, 2^31-1, 2^32, 2^64, '
        '2^128, d / n-d, equal key with digests colliding the same way, swapped key/digest, repeats, interleavings, reused '
        'Key objects), every (r, s) compared with the model and the independent signer, nonce distinctness across '
        'different (key, digest) pairs; vseq = ONE Signature object (from sign, create, parse_bytes / parse_hex / parse '
        'with and without public_key=, Signature(r, s, ..)) verified through keys.verify and Signature.verify against '
        'sequences of keys (own, negated, equal-y, unrelated; Key / HDKey / bytes / hex text in both cases / tuple / private key) and '
        'digests, with omitted arguments, each verdict compared with the model session and independent ECDSA; '
        'ARGUMENT FORMS on every entry point (sign, verify, Signature.create / parse / parse_bytes / parse_hex, '
        'Signature(r, s, txid=, public_key=), Signature.verify, the txid / public_key setters, bytes() / hex() / '
        'as_der_encoded / str() of every reported object): digests as BYTES made of ASCII hex characters only (lower, upper, '
        'mixed; 16, 31, 32, 33, 64 bytes) — each with the signature of the value they would un-hexlify to, which must be '
        'rejected for the bytes and accepted for the same characters as text —, digests / signatures / keys as base-16 text '
        'in lower, upper and mixed case, with white space (blanks, tab, trailing newline), as text that is not base-16 '
        '(odd length, 0x prefix, other letters); VALID triples whose compact signature, DER integers + hash type, digest, or '
        'public-key x coordinate consist of ASCII hex characters only (key recovered from chosen r, s, z), and one whose '
        'signature bytes are non-hex letters; the ASCII bytes of a hex text offered as a bytes object; hex-looking private '
        'keys as Key / HDKey / hex str / raw bytes; sessions mixing all of these on one object; '
        'non-trivial = the implementation returns a value (not ERR); distinct by request')

# ---------------------------------------------------------------- independent oracle (SEC 2 constants, SEC 1 4.1.3/4.1.4,
# BIP66 text, RFC 6979 3.2); pure Python, does not import the library or fastecdsa
P = 2 ** 256 - 2 ** 32 - 977
N = 0xFFFFFFFFFFFFFFFFFFFFFFFFFFFFFFFEBAAEDCE6AF48A03BBFD25E8CD0364141
GX = 0x79BE667EF9DCBBAC55A06295CE870B07029BFCDB2DCE28D959F2815B16F81798
GY = 0x483ADA7726A3C4655DA4FBFC0E1108A8FD17B448A68554199C47D08FFB10D4B8
INF = (0, 1, 0)


def jdbl(a):
    X, Y, Z = a
    if Z == 0 or Y == 0:
        return INF
    S = 4 * X * Y * Y % P
    M = 3 * X * X % P
    X3 = (M * M - 2 * S) % P
    return X3, (M * (S - X3) - 8 * pow(Y, 4, P)) % P, 2 * Y * Z % P


def jadd(a, b):
    if a[2] == 0:
        return b
    if b[2] == 0:
        return a
    X1, Y1, Z1 = a
    X2, Y2, Z2 = b
    Z1Z1, Z2Z2 = Z1 * Z1 % P, Z2 * Z2 % P
    U1, U2 = X1 * Z2Z2 % P, X2 * Z1Z1 % P
    S1, S2 = Y1 * Z2 * Z2Z2 % P, Y2 * Z1 * Z1Z1 % P
    if U1 == U2:
        return jdbl(a) if S1 == S2 else INF
    H, R = (U2 - U1) % P, (S2 - S1) % P
    HH = H * H % P
    HHH = H * HH % P
    V = U1 * HH % P
    X3 = (R * R - HHH - 2 * V) % P
    return X3, (R * (V - X3) - S1 * HHH) % P, H * Z1 * Z2 % P


def jmul(k, pt):
    k %= N
    acc = INF
    add = (pt[0], pt[1], 1)
    while k:
        if k & 1:
            acc = jadd(acc, add)
        add = jdbl(add)
        k >>= 1
    return acc


def affine(a):
    if a[2] == 0:
        return None
    zi = pow(a[2], -1, P)
    return a[0] * zi * zi % P, a[1] * zi * zi * zi % P


G = (GX, GY)
_pub_cache = {}


def pub(d):
    if d not in _pub_cache:
        _pub_cache[d] = affine(jmul(d, G))
    return _pub_cache[d]


def on_curve(Q):
    x, y = Q
    return 0 <= x < P and 0 <= y < P and (y * y - x * x * x - 7) % P == 0


def ec_verify(z, r, s, Q):
    if not (1 <= r < N and 1 <= s < N):
        return False
    w = pow(s, -1, N)
    R = affine(jadd(jmul(z * w % N, G), jmul(r * w % N, Q)))
    return R is not None and R[0] % N == r


def ec_sign(d, z, k):
    R = affine(jmul(k, G))
    if R is None:
        return None
    r = R[0] % N
    s = pow(k, -1, N) * (z + r * d) % N
    return None if r == 0 or s == 0 else (r, s)


def bits2int(b):
    v = int.from_bytes(b, 'big')
    return v >> (8 * len(b) - 256) if len(b) > 32 else v


def rfc6979(d, h1):
    hm = lambda k, m: hmac.new(k, m, hashlib.sha256).digest()
    xh = d.to_bytes(32, 'big') + (bits2int(h1) % N).to_bytes(32, 'big')
    V, K = b'\x01' * 32, b'\x00' * 32
    K = hm(K, V + b'\x00' + xh)
    V = hm(K, V)
    K = hm(K, V + b'\x01' + xh)
    V = hm(K, V)
    while True:
        V = hm(K, V)
        k = int.from_bytes(V, 'big')
        if 1 <= k < N:
            return k
        K = hm(K, V + b'\x00')
        V = hm(K, V)


def bip66(sig):
    """IsValidSignatureEncoding of BIP66, on signature || hashtype, index by index."""
    if len(sig) < 9:
        return False
    if len(sig) > 73:
        return False
    if sig[0] != 0x30:
        return False
    if sig[1] != len(sig) - 3:
        return False
    lenR = sig[3]
    if 5 + lenR >= len(sig):
        return False
    lenS = sig[5 + lenR]
    if lenR + lenS + 7 != len(sig):
        return False
    if sig[2] != 0x02:
        return False
    if lenR == 0:
        return False
    if sig[4] & 0x80:
        return False
    if lenR > 1 and sig[4] == 0x00 and not (sig[5] & 0x80):
        return False
    if sig[lenR + 4] != 0x02:
        return False
    if lenS == 0:
        return False
    if sig[lenR + 6] & 0x80:
        return False
    if lenS > 1 and sig[lenR + 6] == 0x00 and not (sig[lenR + 7] & 0x80):
        return False
    return True


def der_int(v):
    b = v.to_bytes((v.bit_length() + 7) // 8 or 1, 'big')
    return b'\x00' + b if b[0] & 0x80 else b


def der(r, s):
    rb, sb = der_int(r), der_int(s)
    body = b'\x02' + bytes([len(rb)]) + rb + b'\x02' + bytes([len(sb)]) + sb
    return b'\x30' + bytes([len(body)]) + body


def spec_parse(sig):
    """strict reader: BIP66 form (with hash type) first, else the documented 64-byte raw form."""
    if bip66(sig):
        lr = sig[3]
        ls = sig[5 + lr]
        return int.from_bytes(sig[4:4 + lr], 'big'), int.from_bytes(sig[6 + lr:6 + lr + ls], 'big'), sig[-1]
    if len(sig) == 64:
        return int.from_bytes(sig[:32], 'big'), int.from_bytes(sig[32:], 'big'), 1
    return None


def sec_point(pk):
    """SEC 1 2.3.4, finite points only."""
    if len(pk) == 33 and pk[0] in (2, 3):
        x = int.from_bytes(pk[1:], 'big')
        if x >= P:
            return None
        a = (x * x * x + 7) % P
        y = pow(a, (P + 1) // 4, P)
        if y * y % P != a:
            return None
        return x, (y if (y & 1) == (pk[0] & 1) else P - y)
    if len(pk) == 65 and pk[0] == 4:
        Q = int.from_bytes(pk[1:33], 'big'), int.from_bytes(pk[33:], 'big')
        return Q if on_curve(Q) else None
    return None


def spec_verify(dg, sig, pk):
    ps = spec_parse(sig)
    if ps is None or not (1 <= ps[0] < N and 1 <= ps[1] < N) or not dg:
        return 'ERR'
    Q = sec_point(pk)
    if Q is None:
        return 'ERR'
    return '1' if ec_verify(bits2int(dg), ps[0], ps[1], Q) else '0'


def spec_verify_z(dgv, sig, pk):
    """the same for a digest given as (integer, is-empty)"""
    ps = spec_parse(sig)
    if ps is None or not (1 <= ps[0] < N and 1 <= ps[1] < N) or dgv[1]:
        return 'ERR'
    Q = sec_point(pk)
    if Q is None:
        return 'ERR'
    return '1' if ec_verify(dgv[0], ps[0], ps[1], Q) else '0'


def hx(b):
    return b.hex() if b else '-'


def unhx(s):
    return b'' if s == '-' else bytes.fromhex(s)


def b32(v):
    return v.to_bytes(32, 'big')


def ser_pub(Q, compressed=True):
    return (bytes([2 + (Q[1] & 1)]) + b32(Q[0])) if compressed else b'\x04' + b32(Q[0]) + b32(Q[1])


# ---------------------------------------------------------------- argument forms
# Every digest / signature / key argument of the entry points is documented "bytes, str (hexstring)".  THE MEANING OF A
# BYTES ARGUMENT IS ITS BYTES; THE MEANING OF A STR ARGUMENT IS THE BYTES ITS BASE-16 TEXT DECODES TO (RFC 4648 section 8
# alphabet in either case, two digits per byte, nothing else).  Bytes that happen to consist of ASCII hex digits are still
# bytes.  Base-16 text with ASCII white space between the bytes has two defensible readings (refuse it; skip the blanks as
# bytes.fromhex does): an answer is accepted when it is right under one of them.  Any other text has no meaning: the
# verifier must not accept it, the signer and the parsers must refuse it.
# A request names an argument by a form letter and a hex field: b = bytes object holding the field's bytes, h = the field
# as lower-case hex text, U = as upper-case hex text, t = a str whose CHARACTERS are the field's bytes.
WS = ' \t\n\r\x0b\x0c'
HEXDIG = '0123456789abcdefABCDEF'
REFUSE = 'REFUSE'


def arg_text(form, field):
    b = unhx(field)
    return b.hex() if form == 'h' else b.hex().upper() if form == 'U' else b.decode('latin-1')


def base16(t):
    if len(t) % 2 or any(ch not in HEXDIG for ch in t):
        return None
    return bytes(int(t[i:i + 2], 16) for i in range(0, len(t), 2))


def base16_ws(t):
    out, i = [], 0
    while i < len(t):
        if t[i] in WS:
            i += 1
            continue
        if i + 1 >= len(t) or t[i] not in HEXDIG or t[i + 1] not in HEXDIG:
            return None
        out.append(int(t[i:i + 2], 16))
        i += 2
    return bytes(out)


def readings(form, field):
    """what an argument may stand for: [bytes] = it has a meaning; [REFUSE, bytes] = base-16 with white space;
    [REFUSE] = text without a meaning"""
    if form == 'b':
        return [unhx(field)]
    t = arg_text(form, field)
    b = base16(t)
    if b is not None:
        return [b]
    b = base16_ws(t)
    return [REFUSE, b] if b is not None else [REFUSE]


def cread(t):
    """RECORDED DEVIATION (findings spaced_digest_text / nonhex_digest_text), used only to decide whether an answer is
    exactly the recorded misbehaviour and to build test inputs: the integer fastecdsa's C code reads from a digest text —
    GMP skips white space, any other non-digit gives 0, and the cut to 256 bits counts every CHARACTER as 4 bits"""
    if any(ch not in HEXDIG and ch not in WS for ch in t):
        return 0
    digs = ''.join(ch for ch in t if ch in HEXDIG)
    v = int(digs, 16) if digs else 0
    n = 4 * len(t)
    return v >> (n - 256) if n > 256 else v


def dg_class(form, field, k='x'):
    """the finding class a digest argument falls in, decided from the argument alone (k: '-' = no explicit nonce, only
    relevant for signing)"""
    if form == 'b':
        return None
    rd = readings(form, field)
    if rd == [REFUSE]:
        return 'nonhex_digest_text'
    if len(rd) == 2:
        return 'spaced_digest_text'
    if k == '-' and len(rd[0]) <= 32 and any(ch in 'ABCDEF' for ch in arg_text(form, field)):
        return 'hex_case_changes_nonce'
    return None


def dgval(b):
    return bits2int(b), len(b) == 0


def dg_cands(form, field, path, deviation=None):
    """candidate values (integer, is-empty) | REFUSE of a digest argument of the verifier; path = 'verify' (through
    to_hexstring) or 'set' (txid setter / constructor).  deviation = a recorded class: the value the code is known to
    read for an argument of that class"""
    rd = readings(form, field)
    if form != 'b' and deviation and dg_class(form, field) == deviation:
        t = arg_text(form, field)
        if deviation == 'nonhex_digest_text' and path == 'verify':
            return [dgval(t.encode('latin-1'))]                       # to_hexstring: the UTF-8 bytes of the text
        return [(cread(t), t == '')]
    return [x if x is REFUSE else dgval(x) for x in rd]


def known_status(cid):
    """'known' / 'fixed' / None: how a finding is recorded (known_findings.json, VERIF_EXTRA_KNOWN)"""
    st = None
    for e in load_known(PROP):
        if e.get('id') == cid or e.get('class') == cid:
            st = e.get('status')
    return st


# RFC 6979 / secp256k1 / SHA-256 known answers (key, message, nonce) — the vectors circulated with bitcoinjs-lib,
# python-ecdsa and Trezor; each is re-derived by rfc6979() above before it is used
KAT = [
    (1, b'Satoshi Nakamoto', 0x8F8A276C19F4149656B280621E358CCE24F5F52542772691EE69063B74F15D15),
    (1, b'All those moments will be lost in time, like tears in rain. Time to die...',
     0x38AA22D72376B4DBC472E06C3BA403EE0A394DA63FC58D88686C611ABA98D6B3),
    (N - 1, b'Satoshi Nakamoto', 0x33A19B60E25FB6F4435AF53A3D42D493644827367E6453928554F43E49AA6F90),
    (0xf8b8af8ce3c7cca5e300d33939540c10d45ce001b8f252bfbc57ba0342904181, b'Alan Turing',
     0x525A82B70E67874398067543FD84C83D30C175FDC45FDEEE082FE13B1D7CFDF1),
]

# ---------------------------------------------------------------- generators
HALF = N // 2
EDGE_KEYS = [1, 2, 3, N - 1, N - 2, HALF, HALF + 1, 1 << 255, 1 << 128, 1 << 248, 0xff, 1 << 8,
             0x0100000000000000000000000000000000000000000000000000000000000001]
EDGE_DIGESTS = [b32(0), b32(1), b32(2), b'\xff' * 32, b32(N - 1), b32(N), b32(N + 1), b32(1 << 255), b32(1 << 248),
                b32(0xff), b'\x00' * 31 + b'\x80', b'\x80' + b'\x00' * 31, b32(P), b32(HALF), b32(HALF + 1)]
HT_COMMON = [0, 1, 2, 3, 0x41, 0x81, 0x82, 0x83, 0xff]
SFORMS = ['bK', 'hK', 'bH', 'hH', 'bS', 'hS']
VFORMS = ['bbK', 'hbK', 'bhK', 'hhK', 'bbB', 'hhB', 'bbX', 'hhX']


def rand_key(rng):
    return rng.randrange(1, N)


def rand_digest(rng):
    m = rng.randrange(6)
    if m == 0:
        return bytes(rng.choice([0, 0, 0, rng.randrange(256)]) for _ in range(32))      # zero-heavy
    if m == 1:
        return b32(rng.choice([N, P, 1 << 256]) - rng.randrange(1, 1 << 16))
    return bytes(rng.randrange(256) for _ in range(32))


# ---------------------------------------------------------------- sessions: what realistic cache keys confuse
M61, M31 = (1 << 61) - 1, (1 << 31) - 1            # CPython's hash() of an int is the value mod 2^61-1 (2^31-1 on 32 bit)
BETA = next(b for b in (pow(g, (P - 1) // 3, P) for g in range(2, 50)) if b != 1)      # (beta x, y) is on the curve too
SEQ_SFORMS = ['bK', 'hK', 'bH', 'hH', 'bS', 'hS']


def _uniq(seq, ok):
    out = []
    for v in seq:
        if ok(v) and v not in out:
            out.append(v)
    return out


def colliding_keys(d):
    """private keys a sloppy cache key would not tell from d: congruent modulo the hash moduli and the word sizes,
    equal low / high words, the negated key (same public x), neighbours"""
    c = [d + M61, d + 2 * M61, N - d, d + (1 << 64), d + M31, d + (1 << 32), d - M61, d + 7 * M61, d + (1 << 31), d + (1 << 61),
         d + (1 << 63), d + (1 << 128), d + (1 << 192), d - (1 << 64), d ^ 1, d + 1, d + 256, d + 65536, d + 1000003,
         d % M61, d % M31, d % (1 << 64), d % (1 << 32), d % (1 << 128), d >> 64, d >> 8, (d << 8) % (1 << 256), d * 2]
    return _uniq(c, lambda v: 1 <= v < N and v != d)


def colliding_digests(z):
    zi = int.from_bytes(z, 'big')
    c = [zi + M61, zi - M61, zi + 3 * M61, zi + M31, zi + (1 << 32), zi + (1 << 64), zi + (1 << 128), zi ^ 1, zi ^ (1 << 255),
         zi ^ (1 << 248), zi + 1, zi % M61, zi % (1 << 64), zi % (1 << 128), zi >> 128 << 128, zi + N, zi - N,
         int.from_bytes(z[::-1], 'big'), int.from_bytes(z[16:] + z[:16], 'big')]
    return [b32(v) for v in _uniq(c, lambda v: 0 <= v < 1 << 256 and v != zi)]


def sstep(rng, d, msg, k=None, ht=1, form=None):
    return '%d:%s:%s:%d:%s' % (d, hx(msg), '-' if k is None else str(k), ht, form or rng.choice(SEQ_SFORMS))


def gen_sign_sessions(g, rng, big):
    """many (key, digest) pairs signed in ONE process; see RULE"""
    def session(kind, steps, mode=None):
        g.add(kind, 'signseq %s %s' % (mode or rng.choice('rf'), ' '.join(steps)))

    # the zero-heavy family: 2^b and 2^(b+61) are congruent mod 2^61-1; 2^61-1 itself hashes to 0
    z = b32(0)
    ks = [1, 1 << 61, 1 << 122, 1 << 183, 2, 1 << 62, M61 + 1, 2 * M61 + 1, M61, 2 * M61, 1 << 64, (1 << 64) + 1, 1 << 32]
    session('signseq_pow2_keys', [sstep(rng, d, z) for d in (ks if big else ks[:8])] + [sstep(rng, 1, z)], 'r')
    z = rand_digest(rng)
    session('signseq_pow2_keys', [sstep(rng, d, z) for d in rng.sample(ks, 6)], 'f')
    n_sess = 40 if big else 3
    for i in range(n_sess):
        d = rng.choice(EDGE_KEYS) if i % 4 == 3 else rand_key(rng) if i % 2 == 0 else rng.randrange(1, 1 << rng.choice([16, 60, 64, 128]))
        z = rng.choice(EDGE_DIGESTS) if i % 5 == 4 else rand_digest(rng)
        ck, cz = colliding_keys(d), colliding_digests(z)
        ck = ck[:6] + rng.sample(ck[6:], min(len(ck) - 6, 12 if big else 4))        # the hash moduli always
        cz = cz[:2] + rng.sample(cz[2:], min(len(cz) - 2, 8 if big else 3))
        base = sstep(rng, d, z)
        steps = [sstep(rng, x, z) for x in ck] + [sstep(rng, d, y) for y in cz]
        # key and digest swapped (a cache keyed by their sum / xor / concatenation without a separator)
        zi = int.from_bytes(z, 'big')
        if 1 <= zi < N:
            steps.append(sstep(rng, zi, b32(d)))
        # a long message and its double-SHA256 digest: the SAME (key, digest) pair — equal signatures expected
        if i % 3 == 0:
            m = bytes(rng.randrange(256) for _ in range(40))
            steps += [sstep(rng, d, m), sstep(rng, d, hashlib.sha256(hashlib.sha256(m).digest()).digest())]
        # an explicit nonce for the pair, then the pair without one (a remembered k must not leak)
        kx = rand_key(rng)
        steps += [sstep(rng, d, z, kx), sstep(rng, ck[0], z, kx)]
        if i % 2 == 0:
            rng.shuffle(steps)
            steps = [base] + steps
        else:
            steps.insert(rng.randrange(len(steps)), base)
            steps.insert(rng.randrange(len(steps)), sstep(rng, d, z, None, 1, 'bS'))
        # repeats: the first pair again, an earlier colliding pair again, other hash types
        steps += [base, rng.choice(steps), sstep(rng, d, z, None, rng.choice(HT_COMMON)), sstep(rng, ck[0], z, None, 0x81)]
        session('signseq_colliding', steps)
    # interleaving A B A B with A, B colliding; and a session longer than any plausible cache (thorough)
    d, z = rand_key(rng) >> 8 or 1, rand_digest(rng)
    a, b = sstep(rng, d, z, form='hK'), sstep(rng, d + M61, z, form='hK')
    session('signseq_interleaved', [a, b, a, b, b, a], 'r')
    if big:
        steps = [sstep(rng, rand_key(rng), rand_digest(rng)) for _ in range(1100)]
        session('signseq_long', [a, b] + steps + [a, b], 'r')
    # keys / hash types outside their range inside a session: refused, and the neighbours unharmed
    session('signseq_with_refusals', [a, sstep(rng, 0, z), sstep(rng, N, z), b, sstep(rng, d, z, None, 256), a])


def ktok(form, pk=None, d=None):
    return form + (str(d) if form in 'VW' else pk.hex())


def gen_verify_sessions(g, rng, big, valid):
    """ONE Signature object verified against sequences of keys and digests; see RULE"""
    n = 60 if big else 9
    for i in range(n):
        d, z, r, s = valid(d=rng.choice(EDGE_KEYS) if i % 6 == 0 else None, z=rng.choice(EDGE_DIGESTS) if i % 7 == 0 else None)
        Q = pub(d)
        d2 = rand_key(rng)
        pts = {'own': (Q, d), 'neg': ((Q[0], P - Q[1]), N - d), 'other': (pub(d2), d2),
               'bx': ((BETA * Q[0] % P, Q[1]), None), 'b2x': ((BETA * BETA * Q[0] % P, Q[1]), None),
               'nbx': ((BETA * Q[0] % P, P - Q[1]), None)}
        zi = int.from_bytes(z, 'big')
        z1, z2 = b32((zi + 1) % (1 << 256)), rand_digest(rng)

        def key(name, form=None):
            pt, dd = pts[name]
            form = form or rng.choice('KKHBBXY' + ('VW' if dd else ''))
            if form in 'VW' and not dd:
                form = 'K'
            return ktok(form, ser_pub(pt, rng.random() < 0.6), dd)

        def step(dg, kname, form=None, entry=None, dgform=None):
            return '%s%s:%s:%s' % (entry or rng.choice('FM'), dgform or rng.choice('bbhhU'),
                                   '*' if dg is None else hx(dg), '*' if kname is None else key(kname, form))

        bad_key_b = 'B' + (b'\x04' + b32(Q[0]) + b32((Q[1] + 1) % P)).hex()
        bad_key_k = 'K' + (b'\x04' + b32(Q[0]) + b32((Q[1] + 1) % P)).hex()
        bad_key_x = 'X' + (b'\x04' + b32(Q[0]) + b32((Q[1] + 1) % P)).hex()
        templates = [
            ('own_neg_own', [step(z, 'own'), step(z, 'neg'), step(z, 'own')]),
            ('neg_own_neg', [step(z, 'neg'), step(z, 'own'), step(z, 'neg'), step(z, 'own')]),
            ('wrong_then_right', [step(z, 'other'), step(z, 'own'), step(z, 'other')]),
            ('digests', [step(z, 'own'), step(z1, 'own'), step(z, 'own'), step(z2, 'own'), step(z, 'own')]),
            ('equal_y_keys', [step(z, 'bx'), step(z, 'own'), step(z, 'b2x'), step(z, 'nbx'), step(z, 'own')]),
            ('key_forms', [step(z, kn, f) for kn in ('own', 'neg') for f in 'KHBVWXYT'] + [step(z, 'own', 'B')]),
            ('defaults', [step(z, 'own'), step(None, None, entry='M'), step(z1, None), step(None, 'neg', entry='M'),
                          step(z, None), step(None, 'own', entry='M'), step(None, None, entry='M')]),
            ('bad_key_between', [step(z, 'own'), 'Mb:%s:%s' % (hx(z), bad_key_b), step(None, None, entry='M'),
                                 'Fh:%s:%s' % (hx(z), bad_key_k), step(None, None, entry='M'),
                                 'Mh:%s:%s' % (hx(z), bad_key_x), step(None, None, entry='M'), step(z, 'neg'), step(z, 'own')]),
            ('empty_digest_between', [step(z, 'own'), step(b'', 'own'), step(z, 'own'), step(z, 'neg')]),
            ('walk', [step(rng.choice([z, z, z1, z2, None]), rng.choice(['own', 'own', 'neg', 'other', 'bx', None]),
                           entry='M' if rng.random() < 0.5 else None) for _ in range(10)]),
        ]
        # with an omitted argument the entry must be the method (keys.verify needs the digest)
        def fix(st):
            head, dg, ka = st.split(':')
            return st if dg != '*' else 'M' + head[1:] + ':' + dg + ':' + ka

        # fresh objects, ONE process: triples a sloppy module-level cache key would confuse (digest, r or s moved by a
        # multiple of 2^61-1 / 2^64, the negated key), the valid triple before and after the invalid ones
        def enc_of(rr, ss):
            e = der(rr, ss) + b'\x01'
            return hx(e) if rng.random() < 0.7 and len(e) != 64 else hx(b32(rr) + b32(ss))
        trip = [step(z, 'own'), step(b32((zi + M61) % (1 << 256)), 'own'), step(b32((zi + (1 << 64)) % (1 << 256)), 'own'),
                step(z, 'own') + ':' + enc_of(r, (s + M61) % N or 1), step(z, 'own') + ':' + enc_of((r + M61) % N or 1, s),
                step(z, 'own') + ':' + enc_of(r, (s + (1 << 64)) % N or 1), step(z, 'neg'), step(z, 'own'),
                step(z, 'own') + ':' + enc_of(r, N - s)]
        if i % 2:
            trip = trip[1:] + trip[:1]
        g.add('vseq_fresh_colliding_triples', 'vseq %s N:%s:%s %s' % (rng.choice('rf'), rng.choice('bh'), hx(der(r, s) + b'\x01'),
                                                                       ' '.join('F' + x[1:] for x in trip)))
        k_exp = rand_key(rng)
        enc = der(r, s) + bytes([rng.choice(HT_COMMON)])
        if bip66(enc) and len(enc) == 64:
            continue
        sources = [
            ('sign', 'S:%s' % sstep(rng, d, z, k_exp if i % 3 else None)),
            ('create', 'C:%s' % sstep(rng, d, z, k_exp)),
            ('parse_nokey', 'P:%s:%s:-' % (rng.choice('bxaA'), hx(enc))),
            ('parse_ownkey', 'P:%s:%s:%s' % (rng.choice('bxaA'), hx(enc), key('own'))),
            ('parse_negkey', 'P:%s:%s:%s' % (rng.choice('bxaA'), hx(enc), key('neg'))),
            ('parse_raw_otherkey', 'P:%s:%s:%s' % (rng.choice('bxaA'), hx(b32(r) + b32(s)), key('other'))),
            ('parse_high_s', 'P:b:%s:%s' % (hx(der(r, N - s) + b'\x01'), key('neg'))),
            ('parse_wrong_s', 'P:b:%s:-' % hx(der(r, s % (N - 1) + 1) + b'\x01')),
            ('values', 'V:%d:%d:*:-' % (r, s)),
            ('values_txid_key', 'V:%d:%d:%s:%s' % (r, s, hx(rng.choice([z, z1])), key(rng.choice(['own', 'neg'])))),
            ('fresh_each_step', 'N:%s:%s' % (rng.choice('bh'), hx(enc))),
        ]
        for ti, (tname, steps) in enumerate(templates):
            # quick: every template on two sources (rotating so that every pair occurs), thorough: on all of them
            pick = sources if big else [sources[(i + ti + j * 5) % len(sources)] for j in range(2)]
            for sname, src in pick:
                sts = [fix(x) for x in steps]
                if src[0] == 'N':
                    sts = ['F' + x[1:] for x in sts if ':*' not in x]
                g.add('vseq_' + tname, 'vseq %s %s %s' % (rng.choice('rf'), src, ' '.join(sts)))
    # objects that cannot be built: out-of-range values, a key refused at construction, hex-text key at construction
    d, z, r, s = valid()
    own = ser_pub(pub(d))
    for src in ['V:0:%d:*:-' % s, 'V:%d:%d:*:-' % (r, N), 'P:b:%s:-' % hx(der(r, N) + b'\x01'), 'P:b:%s:B%s' % (hx(der(r, s) + b'\x01'), (b'\x02' + b32(P)).hex()),
                'P:b:%s:X%s' % (hx(der(r, s) + b'\x01'), own.hex()), 'P:b:%s:T%s' % (hx(der(r, s) + b'\x01'), own.hex()),
                'S:%s' % sstep(rng, N, z)]:
        g.add('vseq_no_object', 'vseq f %s Mb:%s:B%s' % (src, hx(z), own.hex()))


# ---------------------------------------------------------------- argument forms: what a form-guessing helper confuses
LO, UP, MIX = b'0123456789abcdef', b'0123456789ABCDEF', b'0123456789abcdefABCDEF'
HEXLIKE_32 = [b'0123456789abcdef0123456789abcdef', b'A' * 32, b'deadbeef' * 4, b'0' * 31 + b'1', b'aB' * 16, b'f' * 32,
              b'0123456789ABCDEF' * 2, b'0' * 32]
HEXLIKE_64 = [b'0123456789abcdef' * 4, b'0123456789ABCDEF' * 4, b'cafeBABE' * 8]


def hexlike(rng, n, alpha=MIX):
    """n bytes that are all ASCII hexadecimal characters"""
    return bytes(rng.choice(alpha) for _ in range(n))


def mixed_case(rng, b):
    """base-16 text of b with the case chosen per character (at least one letter of each case when there are two letters)"""
    t = [ch.upper() if rng.random() < 0.5 else ch for ch in b.hex()]
    li = [i for i, ch in enumerate(t) if ch in 'abcdefABCDEF']
    if len(li) >= 2:
        t[li[0]], t[li[-1]] = t[li[0]].upper(), t[li[-1]].lower()
    return ''.join(t)


def tfield(text):
    """the field of a form-t argument: the characters of the text"""
    return hx(text.encode('latin-1'))


def lift_x(x, odd=0):
    a = (x * x * x + 7) % P
    y = pow(a, (P + 1) // 4, P)
    if y * y % P != a:
        return None
    return x, (y if (y & 1) == odd else P - y)


def recover_key(r, s, z, odd=0):
    """the public key under which (r, s) signs z (SEC 1 4.1.6): Q = r^-1 (s R - z G)"""
    R = lift_x(r, odd)
    if R is None:
        return None
    zG = jmul(z, G)
    T = affine(jadd(jmul(s, R), (zG[0], (-zG[1]) % P, zG[2])))
    if T is None:
        return None
    return affine(jmul(pow(r, -1, N), T))


def hexlike_triple(rng, z_bytes=None, alpha=MIX):
    """(digest, r, s, Q): a VALID triple whose compact signature r||s — and digest — consist of ASCII hex characters only
    (or of the characters of another alphabet)"""
    while True:
        zb_ = z_bytes if z_bytes is not None else hexlike(rng, 32)
        r = int.from_bytes(hexlike(rng, 32, alpha), 'big')
        s = int.from_bytes(hexlike(rng, 32, alpha), 'big')
        Q = recover_key(r, s, bits2int(zb_), rng.randrange(2))
        if Q is not None and on_curve(Q) and ec_verify(bits2int(zb_), r, s, Q):
            return zb_, r, s, Q


def hexlike_key_triple(rng):
    """(digest, r, s, Q): a valid triple under a public key whose x coordinate consists of ASCII hex characters only"""
    while True:
        Q = lift_x(int.from_bytes(hexlike(rng, 32), 'big'), rng.randrange(2))
        if Q is None:
            continue
        u1, u2 = rand_key(rng), rand_key(rng)
        R = affine(jadd(jmul(u1, G), jmul(u2, Q)))
        if R is None or R[0] % N == 0:
            continue
        r = R[0] % N
        s = r * pow(u2, -1, N) % N
        z = u1 * s % N
        if s > HALF:
            s = N - s
            z = (N - z) % N               # (r, -s) signs -z
        if ec_verify(z, r, s, Q):
            return b32(z), r, s, Q


def gen_forms(g, rng, big, valid):
    """ARGUMENT-FORM AMBIGUITY, every entry point: digests / signatures / keys handed over as bytes that consist of
    ASCII hex characters, as base-16 text in lower / upper / mixed case, with white space, as text that is not base-16"""
    def v(kind, dform, dfield, sform, sfield, kform, kfield):
        g.add(kind, 'verify %s %s %s %s%s%s' % (dfield, sfield, kfield, dform, sform, kform))

    def forms_of(b):
        """the four spellings of one value: (form letter, field)"""
        return [('b', hx(b)), ('h', hx(b)), ('U', hx(b)), ('t', tfield(mixed_case(rng, b)))]

    def key_forms(pk):
        return [('K', hx(pk)), ('B', hx(pk)), ('X', hx(pk)), ('Y', hx(pk)), ('Z', tfield(mixed_case(rng, pk)))]

    spaced_known = known_status('spaced_digest_text') == 'known'
    nonhex_known = known_status('nonhex_digest_text') == 'known'
    digests = HEXLIKE_32 + [hexlike(rng, 32) for _ in range(6 if big else 2)] + HEXLIKE_64 + \
        [b'0123456789abcdef', hexlike(rng, 31), hexlike(rng, 33), hexlike(rng, 64, LO)] + \
        [rand_digest(rng) for _ in range(8 if big else 3)]            # ordinary digests: their hex text has letters
    # ---- keys.verify, encoded signature: hex-looking digest BYTES are bytes; the same characters as TEXT are other bytes
    for i, D in enumerate(digests):
        d, _, r, s = valid(z=D)
        pk = ser_pub(pub(d), i % 2 == 0)
        enc = der(r, s) + bytes([rng.choice([1, 0x41, 0x30, 0x66])])
        sig_forms = forms_of(enc) + forms_of(b32(r) + b32(s))
        for j, (df, dfield) in enumerate(forms_of(D)):
            for m in range(3 if big else 2):
                sf, sfield = sig_forms[(i + 3 * j + 5 * m) % len(sig_forms)]
                kf, kfield = key_forms(pk)[(i + j + m) % 5]
                v('form_hexlike_digest', df, dfield, sf, sfield, kf, kfield)
        twin = base16(D.decode('latin-1'))
        if twin is not None:
            # the signature of the UN-HEXLIFIED digest must be rejected for the bytes D and accepted for the text D
            _, _, r2, s2 = valid(d=d, z=twin)
            enc2 = der(r2, s2) + b'\x01'
            kf, kfield = key_forms(pk)[i % 5]
            v('form_hexlike_digest_unhex_twin', 'b', hx(D), 'b', hx(enc2), kf, kfield)
            v('form_hexlike_digest_unhex_twin', 'b', hx(D), 'h', hx(b32(r2) + b32(s2)), 'B', hx(pk))
            v('form_hexlike_text_is_twin', 't', hx(D), 'b', hx(enc2), kf, kfield)
            v('form_hexlike_text_is_twin', 't', hx(D), 'b', hx(enc), 'B', hx(pk))
            for df, dfield in forms_of(twin)[:(4 if big else 2)]:
                v('form_hexlike_digest_unhex_twin', df, dfield, 'b', hx(enc), 'K', hx(pk))
    # ---- signatures / keys that are hex-looking themselves
    triples = [hexlike_triple(rng, z) for z in ([None, HEXLIKE_32[0], HEXLIKE_32[1]] + ([None] * 5 if big else []))]
    for i, (D, r, s, Q) in enumerate(triples):
        raw = b32(r) + b32(s)
        enc = der(r, s) + b'\x41'                                   # 0D.. ..A: hex-looking wherever DER allows it
        pk = ser_pub(Q, i % 2 == 0)
        for sig in (raw, enc):
            for j, (sf, sfield) in enumerate(forms_of(sig)):
                df, dfield = forms_of(D)[(i + j) % 4]
                kf, kfield = key_forms(pk)[(i + j) % 5]
                v('form_hexlike_signature', df, dfield, sf, sfield, kf, kfield)
                for how in 'bxa':
                    g.add('form_parse_hexlike', 'parsef %s %s %s' % (how, sf, sfield))
            # the ASCII bytes of the hex text handed over as a BYTES object are no signature; as text of text neither
            v('form_ascii_bytes_signature', 'b', hx(D), 'b', hx(sig.hex().encode()), 'B', hx(pk))
            v('form_ascii_bytes_signature', 'b', hx(D), 'b', hx(sig.hex().upper().encode()), 'B', hx(pk))
            g.add('form_parse_hexlike', 'parsef a b %s' % hx(sig.hex().encode()))
            g.add('form_parse_hexlike', 'parsef b b %s' % hx(sig.hex().upper().encode()))
            g.add('form_parse_hexlike', 'parsef a h %s' % hx(sig.hex().encode()))
            # white space inside the signature text: refusing it and skipping it are both right
            sp = ' '.join(sig.hex()[q:q + 2] for q in range(0, 2 * len(sig), 2))
            g.add('form_parse_spaced', 'parsef a t %s' % tfield(sp))
            g.add('form_parse_spaced', 'parsef x t %s' % tfield(sig.hex() + '\n'))
            v('form_spaced_signature', 'b', hx(D), 't', tfield('\t' + sp), 'B', hx(pk))
        # the same triple, one digit of the signature changed: rejected in every form
        bad = raw[:40] + bytes([raw[40] ^ 1]) + raw[41:]
        for sf, sfield in forms_of(bad)[:(4 if big else 2)]:
            v('form_hexlike_signature_wrong', 'b', hx(D), sf, sfield, 'B', hx(pk))
        # key bytes that are the ASCII of its hex text are 66 / 130 bytes, not a key; key text with blanks / newline
        v('form_ascii_bytes_key', 'b', hx(D), 'b', hx(raw), 'B', hx(pk.hex().encode()))
        v('form_ascii_bytes_key', 'h', hx(D), 'b', hx(enc), 'B', hx(pk.hex().upper().encode()))
        v('form_spaced_key', 'b', hx(D), 'b', hx(raw), 'Z', tfield(pk.hex() + '\n'))
        v('form_spaced_key', 'b', hx(D), 'b', hx(raw), 'Z', tfield(' '.join(pk.hex()[q:q + 2] for q in range(0, 2 * len(pk), 2))))
        v('form_nonhex_key', 'b', hx(D), 'b', hx(raw), 'Z', tfield('0x' + pk.hex()))
    # a VALID triple whose compact signature consists of ASCII letters that are not hex digits: as a 64-character TEXT
    # it has no meaning (a helper that falls back to "UTF-8 text" would read the 64 bytes); as bytes it is the signature
    for i in range(3 if big else 1):
        D, r, s, Q = hexlike_triple(rng, None, b'ghijklmnopqrstuvwxyzGHIJKLMNOPQRSTUVWXYZ')
        raw, pk = b32(r) + b32(s), ser_pub(Q)
        v('form_nonhex_signature_text', 'b', hx(D), 't', hx(raw), 'B', hx(pk))
        v('form_nonhex_signature_text', 'h', hx(D), 'b', hx(raw), 'X', hx(pk))
        for how in 'xab':
            g.add('form_parse_nonhex_text', 'parsef %s t %s' % (how, hx(raw)))
        g.add('vseq_form_nonhex_signature_text', 'vseq f P:T:%s:- Mb:%s:B%s' % (hx(raw), hx(D), pk.hex()))
        g.add('vseq_form_nonhex_signature_text', 'vseq f N:t:%s Fb:%s:B%s' % (hx(raw), hx(D), pk.hex()))
        # ... and the same for a key: 66 characters that are not base-16
        v('form_nonhex_key', 'b', hx(D), 'b', hx(raw), 'Z', tfield('zz' * 33))
    for i in range(6 if big else 2):
        D, r, s, Q = hexlike_key_triple(rng)
        for comp in (True, False):
            pk = ser_pub(Q, comp)
            for kf, kfield in key_forms(pk):
                v('form_hexlike_key', rng.choice('bhU'), hx(D), rng.choice('bh'), hx(der(r, s) + b'\x01'), kf, kfield)
        Qn = (Q[0], P - Q[1])
        v('form_hexlike_key_negated', 'b', hx(D), 'b', hx(der(r, s) + b'\x01'), 'B', hx(ser_pub(Qn)))
        v('form_hexlike_key_negated', 'b', hx(D), 'b', hx(der(r, s) + b'\x01'), 'Y', hx(ser_pub(Qn, False)))
    # ---- white space in / no base-16 reading of the DIGEST text.  Valid triples: refusing (ERR / False) is right
    d, z, r, s = valid()
    pk, enc = ser_pub(pub(d)), der(r, s) + b'\x01'
    hz = z.hex()
    ws_texts = [' '.join(hz[q:q + 2] for q in range(0, 64, 2)), hz + '\n', ' ' + hz, '\t' + hz.upper() + '\r\n', hz[:32] + ' ' + hz[32:],
                mixed_case(rng, z) + ' ']
    bad_texts = ['0x' + hz, hz[:-1], hz + '0', 'hello', 'zz' * 32, 'g' + hz[1:], hz[:20] + '-' * 0 + 'x' + hz[21:], hz[:63] + ' ' + hz[63]]
    for tx in ws_texts + bad_texts:
        v('form_ws_digest' if tx in ws_texts else 'form_nonhex_digest', 't', tfield(tx), 'b', hx(enc), 'B', hx(pk))
    # (text without a meaning goes through the setters only when finding nonhex_digest_text is recorded: an odd number of
    # digits assigned to .txid is read by the C code as a number)
    g.add('vseq_form_ws_digest', 'vseq f P:b:%s:- %s' % (hx(enc), ' '.join(
        '%st:%s:B%s' % (rng.choice('FMA' if tx in ws_texts or nonhex_known else 'FM'), tfield(tx), pk.hex())
        for tx in ws_texts + bad_texts[:4])))
    g.add('vseq_form_ws_digest', 'vseq f V:%d:%d:t%s:B%s Mb:*:* Mb:%s:* Mt:%s:* Mh:%s:*'
          % (r, s, tfield(ws_texts[0]), pk.hex(), hx(z), tfield(ws_texts[1]), hx(z)))
    if spaced_known:
        # a signature made for the integer the C code reads from the text is ACCEPTED (finding spaced_digest_text)
        for tx in ws_texts[:4] + ['ab cd', ' ']:
            _, _, r2, s2 = valid(d=d, z=b32(cread(tx)))
            v('form_ws_digest_creading', 't', tfield(tx), 'b', hx(der(r2, s2) + b'\x01'), 'B', hx(pk))
        _, _, r2, s2 = valid(d=d, z=b32(cread(ws_texts[1])))
        g.add('vseq_form_ws_digest_creading', 'vseq f V:%d:%d:t%s:B%s Mb:*:* At:%s:* Mt:%s:B%s Mb:%s:*'
              % (r2, s2, tfield(ws_texts[1]), pk.hex(), tfield(ws_texts[1]), tfield(ws_texts[1]), pk.hex(), hx(z)))
        for j, tx in enumerate(ws_texts + ['ab cd', 'AB\tCD\n', ' ']):
            g.add('form_ws_digest_sign', 'sign %d %s %s 1 t%s' % (d, tfield(tx), '-' if j % 2 == 0 else str(rand_key(rng)), 'KHS'[j % 3]))
    if nonhex_known:
        # text without any base-16 reading: verify judges its UTF-8 bytes, sign signs the integer 0
        for tx in ['hello', 'zz' * 32, hz[:-1], '0x' + hz[:60]]:
            _, _, r2, s2 = valid(d=d, z=tx.encode())
            v('form_nonhex_digest_utf8', 't', tfield(tx), 'b', hx(der(r2, s2) + b'\x01'), 'B', hx(pk))
        _, _, r2, s2 = valid(d=d, z=b'hello')
        g.add('vseq_form_nonhex_digest', 'vseq f P:b:%s:- Mt:%s:B%s At:%s:* Mb:%s:*'
              % (hx(der(r2, s2) + b'\x01'), tfield('hello'), pk.hex(), tfield('hello'), hx(b'hello')))
        for j, tx in enumerate(['hello', 'world', 'zz' * 32, hz[:-1], 'g' * 64]):
            g.add('form_nonhex_digest_sign', 'sign %d %s %s 1 t%s' % (d, tfield(tx), '-' if j % 2 == 0 else str(rand_key(rng)), 'KHS'[j % 3]))
    g.add('form_nonhex_digest_sign_long', 'sign %d %s - 1 tK' % (d, tfield('g' * 70)))
    # ---- signing: hex-looking digests and private keys in every form
    kforms = 'KHSuBky'
    sign_digests = HEXLIKE_32[:(8 if big else 5)] + [hexlike(rng, 32)] + HEXLIKE_64[:(3 if big else 2)] + [b'0123456789abcdef', hexlike(rng, 40)] + \
        [rand_digest(rng) for _ in range(4 if big else 2)]
    for i, D in enumerate(sign_digests):
        dd = int.from_bytes(hexlike(rng, 32), 'big') if i % 2 == 0 else rand_key(rng)
        for j, (df, dfield) in enumerate(forms_of(D)):
            # RFC 6979 for bytes / lower-case text (and for the other cases on a few: finding hex_case_changes_nonce)
            auto = df in 'bh' and (big or (i + j) % 2 == 0) or (df in 'Ut' and i % 5 == 0)
            g.add('form_hexlike_sign', 'sign %d %s %s %d %s%s' % (dd, dfield, '-' if auto else str(rand_key(rng)),
                                                              rng.choice([1, 0x41]), df, kforms[(i + 2 * j) % len(kforms)]))
        twin = base16(D.decode('latin-1'))
        if twin is not None:
            # one process: the bytes D, the bytes they would un-hexlify to, the text D (= those bytes), D again
            k_exp = rand_key(rng)
            steps = ['%d:%s:%s:1:b%s' % (dd, hx(D), str(k_exp), kforms[i % 7]), '%d:%s:%s:1:b%s' % (dd, hx(twin), str(k_exp), kforms[(i + 1) % 7]),
                     '%d:%s:%s:1:t%s' % (dd, hx(D), str(k_exp), kforms[(i + 2) % 7]), '%d:%s:%s:1:h%s' % (dd, hx(D), str(k_exp), kforms[(i + 3) % 7]),
                     '%d:%s:%s:1:U%s' % (dd, hx(twin), str(k_exp), kforms[(i + 4) % 7]), '%d:%s:%s:1:b%s' % (dd, hx(D), str(k_exp), kforms[(i + 5) % 7])]
            if i % 3 == 0:
                steps += ['%d:%s:-:1:bK' % (dd, hx(D)), '%d:%s:-:1:bH' % (dd, hx(twin)), '%d:%s:-:1:hB' % (dd, hx(D))]
            g.add('signseq_forms', 'signseq %s %s' % (rng.choice('rf'), ' '.join(steps)))
    for i in range(4 if big else 2):
        g.add('sign_random_nonce_forms', 'signrand %d %s 1 %s%s' % (int.from_bytes(hexlike(rng, 32), 'big'), hx(rng.choice(HEXLIKE_32)),
                                                                   'bh'[i % 2], kforms[i % 7]))
    # ---- ONE Signature object: every source x every way of handing a digest / key to it
    for i, D in enumerate(HEXLIKE_32[:(8 if big else 4)] + [HEXLIKE_64[i_ % 3] for i_ in range(2 if big else 1)] +
                          [rand_digest(rng) for _ in range(3 if big else 1)]):
        d, _, r, s = valid(z=D)
        Q = pub(d)
        pk, pkn = ser_pub(Q, i % 2 == 0), ser_pub((Q[0], P - Q[1]), i % 2 == 1)
        twin = base16(D.decode('latin-1'))
        k_exp = rand_key(rng)

        def kt(p=pk):
            kf, kfield = key_forms(p)[rng.randrange(5)]
            return kf + kfield

        def st(df, dfield, key='own', entry=None):
            return '%s%s:%s:%s' % (entry or rng.choice('FMA'), df, dfield, '*' if key is None else kt(pk if key == 'own' else pkn))

        fo = forms_of(D)
        steps = [st(*fo[0], entry='M'), st(*fo[0], entry='F'), st(*fo[0], entry='A'), st(*fo[1]), st(*fo[2]), st(*fo[3])] + \
                ([st('b', hx(twin)), st('t', hx(D))] if twin is not None else [st('b', hx(D[::-1]))]) + \
                [st(*fo[0], key='neg'), st(*fo[rng.randrange(4)]),
                 'Ab:%s:*' % hx(D), 'Mb:*:*', 'At:%s:*' % (hx(D) if twin is not None else fo[3][1]), 'Mb:*:*',
                 st(*fo[2], entry='A', key=None), 'M%s:%s:*' % fo[1]]
        enc = der(r, s) + bytes([rng.choice([1, 0x41])])
        raw = b32(r) + b32(s)
        sources = ['S:%d:%s:%s:1:b%s' % (d, hx(D), '-' if i % 2 else str(k_exp), 'KHSB'[i % 4]),
                   'C:%d:%s:%s:65:%s%s' % (d, fo[1 + i % 3][1], str(k_exp), fo[1 + i % 3][0], 'KHuy'[i % 4]),
                   'P:%s:%s:-' % ('baxAuw'[i % 6], hx(enc)), 'P:%s:%s:%s' % ('xawbuA'[i % 6], hx(raw), kt()),
                   'P:t:%s:%s' % (tfield(mixed_case(rng, enc)), kt()), 'P:T:%s:-' % tfield(mixed_case(rng, raw)),
                   'V:%d:%d:%s:%s' % (r, s, hx(D), kt()), 'V:%d:%d:h%s:-' % (r, s, hx(D)), 'V:%d:%d:U%s:%s' % (r, s, hx(D), kt(pkn)),
                   'V:%d:%d:t%s:-' % (r, s, fo[3][1]), 'V:%d:%d:t%s:%s' % (r, s, hx(D) if twin is not None else fo[3][1], kt()),
                   'N:%s:%s' % ('bhUt'[i % 4], forms_of(enc)[i % 4][1])]
        for j, src in enumerate(sources):
            if not big and (i + j) % 3:
                continue
            sts = list(steps)
            if src[0] in 'SC':
                sts = ['Mb:*:*', 'Mb:*:%s' % kt(pkn), 'Ab:*:%s' % kt()] + sts      # the digest sign() left in the object
            if src[0] == 'V':
                sts = ['Mb:*:%s' % kt(), 'Ab:*:%s' % kt(pkn), 'Mb:*:%s' % kt()] + sts      # the digest given to the constructor
            if src[0] == 'N':
                sts = ['F' + x[1:] for x in sts if ':*' not in x]
            g.add('vseq_forms', 'vseq %s %s %s' % (rng.choice('rf'), src, ' '.join(sts)))
    # a hex-looking compact signature as the object's source, digests hex-looking too
    for i, (D, r, s, Q) in enumerate(triples[:(8 if big else 2)]):
        pk = ser_pub(Q)
        raw = b32(r) + b32(s)
        sts = ' '.join('%s%s:%s:%s%s' % (rng.choice('FMA'), df, dfield, kf, kfield) for (df, dfield), (kf, kfield) in zip(forms_of(D) * 2, key_forms(pk) * 2))
        for src in ['P:b:%s:-' % hx(raw), 'P:A:%s:B%s' % (hx(raw), pk.hex()), 'P:t:%s:-' % tfield(mixed_case(rng, raw)),
                    'V:%d:%d:%s:Y%s' % (r, s, hx(D), pk.hex())][:(4 if big else 2 + i)]:
            g.add('vseq_forms_hexlike_signature', 'vseq %s %s %s' % (rng.choice('rf'), src, sts))


class Gen:
    def __init__(self, rng):
        self.rng, self.cases, self.seen, self.i = rng, [], set(), 0

    def add(self, kind, req):
        if req not in self.seen:
            self.seen.add(req)
            self.cases.append(Case(kind, req))

    def sign(self, kind, d, msg, k, ht, form=None):
        self.i += 1
        self.add(kind, 'sign %d %s %s %d %s' % (d, hx(msg), '-' if k is None else str(k), ht,
                                                form or SFORMS[self.i % len(SFORMS)]))

    def verify(self, kind, dg, sig, pk, form=None):
        self.i += 1
        self.add(kind, 'verify %s %s %s %s' % (hx(dg), hx(sig), hx(pk), form or VFORMS[self.i % len(VFORMS)]))
        self.add('parse', 'parse ' + hx(sig))


def solved_digest(d, k, s):
    """digest z for which the textbook signature of (d, z) with nonce k has exactly this s"""
    r = affine(jmul(k, G))[0] % N
    return b32((s * k - r * d) % N), r


def der_mutations(rng, r, s, ht=1):
    """(tag, bytes) single mutations of the strict encoding of (r, s) followed by the hash-type byte"""
    rb, sb = der_int(r), der_int(s)
    h = bytes([ht])

    def build(rb=rb, sb=sb, seqlen=None, lr=None, ls=None, t0=0x30, t1=2, t2=2, tail=b'', after=b''):
        body = bytes([t1]) + (lr if lr is not None else bytes([len(rb)])) + rb + \
               bytes([t2]) + (ls if ls is not None else bytes([len(sb)])) + sb + tail
        return bytes([t0]) + (seqlen if seqlen is not None else bytes([len(body)])) + body + after + h

    good = build()
    body_len = len(good) - 3
    out = [('strict', good), ('no_hashtype', good[:-1]), ('two_hashtype', good + h),
           ('pad_r', build(rb=b'\x00' + rb)), ('pad_s', build(sb=b'\x00' + sb)),
           ('pad2_r', build(rb=b'\x00\x00' + rb)),
           ('neg_r', build(rb=bytes([rb[0] | 0x80]) + rb[1:])), ('neg_s', build(sb=bytes([sb[0] | 0x80]) + sb[1:])),
           ('strip_pad_r', build(rb=rb[1:] or b'\x00')), ('strip_pad_s', build(sb=sb[1:] or b'\x00')),
           ('seqlen+1', build(seqlen=bytes([body_len + 1]))), ('seqlen-1', build(seqlen=bytes([body_len - 1]))),
           ('rlen+1', build(lr=bytes([len(rb) + 1]))), ('rlen-1', build(lr=bytes([len(rb) - 1]))),
           ('slen+1', build(ls=bytes([len(sb) + 1]))), ('slen-1', build(ls=bytes([len(sb) - 1]))),
           ('rlen0', build(rb=b'')), ('slen0', build(sb=b'')), ('r_zero', build(rb=b'\x00')), ('s_zero', build(sb=b'\x00')),
           ('tail_in_seq', build(tail=b'\x05\x00')), ('tail_in_seq1', build(tail=b'\x00')),
           ('tail_after_seq', build(after=b'\x05\x00')), ('tail_after_seq1', build(after=b'\x00')),
           ('tag31', build(t0=0x31)), ('tag_r03', build(t1=3)), ('tag_s03', build(t2=3)), ('tag_s00', build(t2=0)),
           ('seq_81', build(seqlen=bytes([0x81, body_len]))),
           ('seq_82le', build(seqlen=bytes([0x82, body_len, 0]))), ('seq_82be', build(seqlen=bytes([0x82, 0, body_len]))),
           ('seq_83', build(seqlen=bytes([0x83, body_len, 0, 0]))), ('seq_83be', build(seqlen=bytes([0x83, 0, 0, body_len]))),
           ('seq_84le', build(seqlen=bytes([0x84, body_len, 0, 0, 0]))),
           ('seq_84be', build(seqlen=bytes([0x84, 0, 0, 0, body_len]))),
           ('seq_85', build(seqlen=bytes([0x85, body_len, 0, 0, 0, 0]))),
           ('seq_88le', build(seqlen=bytes([0x88, body_len, 0, 0, 0, 0, 0, 0, 0]))),
           ('seq_80', build(seqlen=bytes([0x80]))), ('seq_89', build(seqlen=bytes([0x89]) + bytes(9))),
           ('seq_ff', build(seqlen=bytes([0xff]))), ('seq_81_short', bytes([0x30, 0x81]) + h),
           ('r_81', build(lr=bytes([0x81, len(rb)]))), ('s_81', build(ls=bytes([0x81, len(sb)]))),
           ('r_82le', build(lr=bytes([0x82, len(rb), 0]))), ('s_84le', build(ls=bytes([0x84, len(sb), 0, 0, 0]))),
           ('s_80', build(ls=bytes([0x80]))),
           ('r_81_seq_81', bytes([0x30, 0x81, body_len + 1]) + build(lr=bytes([0x81, len(rb)]))[2:]),
           ('swapped', build(rb=sb, sb=rb)), ('empty', b''), ('only_tag', b'\x30'), ('tag_ht', b'\x30' + h)]
    # long-form spellings whose outer length byte is consistent (only the inner form is non-strict)
    out.append(('r_81_consistent', build(lr=bytes([0x81, len(rb)]), seqlen=bytes([body_len + 1]))))
    out.append(('s_81_consistent', build(ls=bytes([0x81, len(sb)]), seqlen=bytes([body_len + 1]))))
    out.append(('tail_consistent', build(tail=b'\x05\x00', seqlen=bytes([body_len + 2]))))
    out.append(('tail1_consistent', build(tail=b'\x00', seqlen=bytes([body_len + 1]))))
    for cut in sorted(set([1, 2, 3, 4, 5, len(good) // 2, len(good) - 2] + [rng.randrange(1, len(good)) for _ in range(3)])):
        out.append(('truncated', good[:cut]))
        out.append(('truncated_ht', good[:cut] + h))
    for _ in range(6):
        i = rng.randrange(len(good))
        out.append(('flip', good[:i] + bytes([good[i] ^ (1 << rng.randrange(8))]) + good[i + 1:]))
    # pad to the lengths the dispatch of parse_bytes looks at
    for total in (63, 64, 65, 66):
        if len(good) < total:
            out.append(('garbage_to_%d' % total, good[:-1] + bytes(total - len(good)) + h))
    return out


R_HALF = 0x3b78ce563f89a0ed9414f5aa28ad0d96d6795f9c63      # x(G/2): the 166-bit r of nonce k = 1/2 mod n


def gen_cases(rng, tier):
    big = tier == 'thorough'
    g = Gen(rng)
    inv2 = pow(2, -1, N)
    assert affine(jmul(inv2, G))[0] == R_HALF
    for d, m, k in KAT:
        assert rfc6979(d, hashlib.sha256(m).digest()) == k
        g.add('nonce_kat', 'nonce %d %s' % (d, hashlib.sha256(m).hexdigest()))

    # ---------------- signing: boundary keys x boundary digests, RFC 6979 nonce
    # (one RFC 6979 nonce costs ~0.1 s in the extracted model — HMAC-SHA256 over Z — so the quick tier rations them)
    for i, d in enumerate(EDGE_KEYS):
        for j, z in enumerate(EDGE_DIGESTS):
            if big or (i + j) % 4 == 0:
                g.sign('sign_edge', d, z, None, 1)
    # every hash-type byte (and the two neighbours outside a byte)
    d0, z0 = rand_key(rng), rand_digest(rng)
    k0 = rand_key(rng)
    for ht in range(-1, 258):
        g.sign('sign_hashtype', d0, z0, k0, ht, 'bK')
    for ht in HT_COMMON + [-1, 256]:
        g.sign('sign_hashtype', d0, z0, None, ht)
    # messages of other lengths: up to 32 bytes are taken as the digest, longer ones are double-SHA256'd
    for ln in [0, 1, 2, 16, 31, 32, 33, 34, 55, 56, 63, 64, 65, 100, 119, 120, 200]:
        for d in (1, rand_key(rng)) if big else (rand_key(rng),):
            g.sign('sign_msglen', d, bytes(rng.randrange(256) for _ in range(ln)), None, 1)
            g.sign('sign_msglen', d, bytes(rng.randrange(256) for _ in range(ln)), rand_key(rng), 1)
    # explicit nonces
    for k in [1, 2, 3, N - 1, N - 2, HALF, HALF + 1, inv2, 0, N, N + 1, 2 * N, 2 * N + 5, (1 << 256) + 3, -1, -2, -N]:
        for d in (1, N - 1, rand_key(rng)):
            g.sign('sign_explicit_k', d, rand_digest(rng), k, rng.choice(HT_COMMON))
    # s forced to chosen values around n/2 and 2^255 (digest solved from s, k, r): the low-S boundary
    targets = [HALF - 1, HALF, HALF + 1, HALF + 2, HALF + 5, (1 << 255) - 1, 1 << 255, (1 << 255) + 1, N - 1, N - 2, 1, 2,
               (HALF + (1 << 255)) // 2]
    for s in targets + [rng.randrange(HALF + 1, (1 << 255) + 1) for _ in range(40 if big else 12)] + \
            [rng.randrange(1, N) for _ in range(20 if big else 6)]:
        d, k = rng.choice(EDGE_KEYS + [rand_key(rng)]), rng.choice([rand_key(rng), inv2, 1, N - 1])
        z, r = solved_digest(d, k, s)
        g.sign('sign_forced_s', d, z, k, rng.choice(HT_COMMON))
    # short signatures: k = 1/2 gives a 21-byte r; s forced small -> DER + hash type well below 64 bytes
    for s in [1, 2, 127, 128, 255, 256, 1 << 64, (1 << 200) - 1]:
        d = rand_key(rng)
        z, r = solved_digest(d, inv2, s)
        g.sign('sign_short', d, z, inv2, 1)
    # random
    for _ in range(4000 if big else 200):
        d = rng.choice(EDGE_KEYS) if rng.random() < 0.15 else rand_key(rng)
        k = None if rng.random() < 0.4 else rand_key(rng)
        g.sign('sign_random', d, rand_digest(rng), k, rng.choice(HT_COMMON))
    # the digest handed over as UPPER-CASE hex text (finding hex_case_changes_nonce)
    for _ in range(12 if big else 4):
        g.sign('sign_upper_hex', rand_key(rng), rand_digest(rng), None, 1, 'UK')
        g.sign('sign_upper_hex_explicit_k', rand_key(rng), rand_digest(rng), rand_key(rng), 1, 'UK')
    g.sign('sign_upper_hex', rand_key(rng), bytes(rng.randrange(256) for _ in range(40)), None, 1, 'UK')
    # private keys outside [1, n-1]: Key() refuses them (C04 fix 39fdc6f), so nothing is signed
    for d in [0, N, N + 1, N + 2, (1 << 256) - 1]:
        g.sign('sign_key_outside', d, rand_digest(rng), None, 1, 'bK')

    # ---------------- verification: valid signatures from the independent signer, then mutations
    def valid(d=None, z=None, k=None, low=True):
        d = d or rand_key(rng)
        z = z if z is not None else rand_digest(rng)
        while True:
            rs = ec_sign(d, bits2int(z), k or rand_key(rng))
            if rs:
                break
            k = None
        r, s = rs
        if low and s > HALF:
            s = N - s
        return d, z, r, s

    def pk_of(d, i=0):
        return ser_pub(pub(d), compressed=(i % 2 == 0))

    n_valid = 400 if big else 40
    for i in range(n_valid):
        d, z, r, s = valid(d=rng.choice(EDGE_KEYS) if i % 4 == 0 else None, z=rng.choice(EDGE_DIGESTS) if i % 5 == 0 else None)
        pk = pk_of(d, i)
        ht = rng.choice(HT_COMMON)
        g.verify('verify_valid_der', z, der(r, s) + bytes([ht]), pk)
        g.verify('verify_valid_raw', z, b32(r) + b32(s), pk)
        g.verify('verify_high_s_twin', z, der(r, N - s) + bytes([ht]), pk)
        g.verify('verify_high_s_twin_raw', z, b32(r) + b32(N - s), pk)
        # wrong key / negated key / other encoding of the key / digest +- 1 / truncated digest forms
        g.verify('verify_wrong_key', z, der(r, s) + b'\x01', pk_of(rand_key(rng), i))
        Q = pub(d)
        g.verify('verify_negated_key', z, der(r, s) + b'\x01', ser_pub((Q[0], P - Q[1]), i % 2 == 0))
        zi = int.from_bytes(z, 'big')
        g.verify('verify_digest+1', b32((zi + 1) % (1 << 256)), der(r, s) + b'\x01', pk)
        g.verify('verify_digest-1', b32((zi - 1) % (1 << 256)), der(r, s) + b'\x01', pk)
        if i % 4 == 0:
            g.verify('verify_digest+n', b32(zi + N) if zi + N < 1 << 256 else b32(zi - N) if zi >= N else z, der(r, s) + b'\x01', pk)
            g.verify('verify_digest_33', z + b'\x00', der(r, s) + b'\x01', pk)
            g.verify('verify_digest_33ff', z + b'\xff', der(r, s) + b'\x01', pk)
            g.verify('verify_digest_0prefixed', b'\x00' + z, der(r, s) + b'\x01', pk)
            g.verify('verify_digest_31', z[1:], der(r, s) + b'\x01', pk)
            g.verify('verify_digest_empty', b'', der(r, s) + b'\x01', pk)
            g.verify('verify_r+n', z, der(r + N, s) + b'\x01', pk)
            g.verify('verify_s+n', z, der(r, s + N) + b'\x01', pk)
            g.verify('verify_swapped_raw', z, b32(s) + b32(r), pk)
        if i % 2 == 0 or big:
            for tag, sig in der_mutations(rng, r, s, ht):
                g.verify('verify_mut_' + tag, z, sig, pk)
        # invalid public keys: off-curve uncompressed, x with no square root, coordinates >= p
        if i % 4 == 1:
            g.verify('verify_key_offcurve', z, der(r, s) + b'\x01', b'\x04' + b32(Q[0]) + b32((Q[1] + 1) % P))
            g.verify('verify_key_y_plus_p', z, der(r, s) + b'\x01', b'\x04' + b32(Q[0]) + b32(Q[1] + P)
                     if Q[1] + P < 1 << 256 else b'\x04' + b32(Q[0]) + b32(Q[1] ^ 1))
            x = rng.randrange(P)
            while pow((x ** 3 + 7) % P, (P - 1) // 2, P) == 1:
                x = rng.randrange(P)
            g.verify('verify_key_nonresidue', z, der(r, s) + b'\x01', bytes([2 + (i & 1)]) + b32(x))
            g.verify('verify_key_zero', z, der(r, s) + b'\x01', b'\x04' + bytes(64))
    # x >= p: small x on the curve, spelled x + p (accepted by Key: C04 finding); no valid signature is known for it
    for x in range(1, 30):
        a = (x ** 3 + 7) % P
        y = pow(a, (P + 1) // 4, P)
        if y * y % P == a:
            d, z, r, s = valid()
            g.verify('verify_key_x_plus_p', z, der(r, s) + b'\x01', bytes([2 + (y & 1)]) + b32(x + P))
            g.verify('verify_key_x_plus_p', z, der(r, s) + b'\x01', b'\x04' + b32(x + P) + b32(y))
            g.verify('verify_key_small_x', z, der(r, s) + b'\x01', bytes([2 + (y & 1)]) + b32(x))
    # ... but one is constructible: (r, r) with r = x(5 G + Q) signs z = 5 r under ANY curve point Q (u1 = 5, u2 = 1)
    for x in (1, 2, 3, 4, 6, 8):
        a = (x ** 3 + 7) % P
        y = pow(a, (P + 1) // 4, P)
        if y * y % P == a:
            r = affine(jadd(jmul(5, G), (x, y, 1)))[0] % N
            z = b32(5 * r % N)
            g.verify('verify_key_small_x_valid', z, der(r, r) + b'\x01', bytes([2 + (y & 1)]) + b32(x))
            g.verify('verify_key_x_plus_p_valid', z, der(r, r) + b'\x01', bytes([2 + (y & 1)]) + b32(x + P))
            g.verify('verify_key_x_plus_p_valid', z, der(r, r) + b'\x01', b'\x04' + b32(x + P) + b32(y))
            # the tolerant key reading Key(.., strict=False): model correspondence only, no verdict
            g.verify('verify_key_x_plus_p_nonstrict', z, der(r, r) + b'\x01', bytes([2 + (y & 1)]) + b32(x + P), 'bbL')
            g.verify('verify_key_x_plus_p_nonstrict', z, der(r, r) + b'\x01', b'\x04' + b32(x + P) + b32(y), 'bbL')
            g.verify('verify_key_small_x_nonstrict', z, der(r, r) + b'\x01', bytes([2 + (y & 1)]) + b32(x), 'hbL')
    # r, s at and beyond the range boundaries, both spellings
    d, z, r, s = valid()
    pk = pk_of(d)
    BOUND = [0, 1, N - 1, N, N + 1, (1 << 256) - 1, HALF, HALF + 1, 1 << 255]
    for rr in BOUND + [r]:
        for ss in BOUND + [s]:
            g.verify('verify_range_raw', z, b32(rr) + b32(ss), pk)
            g.verify('verify_range_der', z, der(rr, ss) + b'\x01', pk)
    for v in [1 << 256, (1 << 256) + 1, 1 << 263, (1 << 264) - 1]:
        g.verify('verify_range_der_big', z, der(v, s) + b'\x01', pk)
        g.verify('verify_range_der_big', z, der(r, v) + b'\x01', pk)
    # valid signatures with s at the boundaries (solved digests), incl. the point at infinity case z = -r d
    for s_t in [1, 2, HALF, HALF + 1, N - 1, 1 << 255]:
        d, k = rand_key(rng), rand_key(rng)
        z, r = solved_digest(d, k, s_t)
        g.verify('verify_boundary_s', z, der(r, s_t) + b'\x01', pk_of(d))
        g.verify('verify_boundary_s_raw', z, b32(r) + b32(s_t), pk_of(d, 1))
    for _ in range(4):
        d, r, s = rand_key(rng), rng.randrange(1, N), rng.randrange(1, N)
        g.verify('verify_infinity', b32((-r * d) % N), der(r, s) + b'\x01', pk_of(d))
    # key = G and key = -G (the sum u1 G + u2 Q hits the doubling / cancelling branches)
    for d in (1, N - 1, 2, N - 2):
        for _ in range(3):
            _, z, r, s = valid(d=d)
            g.verify('verify_key_pm_G', z, der(r, s) + b'\x01', pk_of(d, _))
        r = GX % N          # u1 = u2 style coincidences: choose s with u1 = u2 * d, i.e. z = r d
        s = rng.randrange(1, N)
        g.verify('verify_same_summands', b32(r * d % N), der(r, s) + b'\x01', pk_of(d))
    # short valid signatures (r = x(G/2), small s): BIP66-valid, at most 64 bytes with the hash type
    for s_t in [1, 2, 127, 128, 255, 256, 1 << 64, (1 << 200) - 1, (1 << 248) - 1, HALF]:
        d = rand_key(rng)
        z, r = solved_digest(d, inv2, s_t)
        g.verify('verify_short_valid', z, der(r, s_t) + b'\x01', pk_of(d))
        g.verify('verify_short_valid_raw', z, b32(r) + b32(s_t), pk_of(d))
    # well-formed signatures (not valid ones) of every total length 9 .. 73, in particular 64 and 65
    for lr in range(1, 34):
        for ls in sorted(set([1, 2, 33, 64 - 7 - lr, 65 - 7 - lr, 66 - 7 - lr, rng.randrange(1, 34)])):
            if 1 <= ls <= 33:
                rr = rng.randrange(1 << (8 * lr - 9) if lr > 1 else 1, 1 << (8 * lr - 1))
                ss = rng.randrange(1 << (8 * ls - 9) if ls > 1 else 1, 1 << (8 * ls - 1))
                g.verify('verify_wellformed_len', z, der(rr, ss) + b'\x01', pk)
    # random bytes / random 64-byte strings / 0x30-led strings of the lengths around the dispatch
    for ln in [0, 1, 8, 9, 32, 63, 64, 65, 70, 71, 72, 73, 74, 100]:
        for lead in (None, 0x30):
            b = bytes(rng.randrange(256) for _ in range(ln))
            if lead is not None and ln:
                b = bytes([lead]) + b[1:]
            g.verify('verify_random_bytes', z, b, pk)

    # ---------------- the non-default random-nonce path (use_rfc6979=False): valid, low S, strict DER, fresh nonce
    for i in range(40 if big else 6):
        g.add('sign_random_nonce', 'signrand %d %s %d %s' % (rng.choice(EDGE_KEYS) if i % 3 == 0 else rand_key(rng),
                                                            hx(rand_digest(rng)), rng.choice(HT_COMMON), rng.choice(SEQ_SFORMS)))

    # ---------------- sessions: one process / one object
    gen_sign_sessions(g, rng, big)
    gen_verify_sessions(g, rng, big, valid)

    # ---------------- argument forms: bytes / text, hex-looking bytes, case, white space, text that is not base-16
    gen_forms(g, rng, big, valid)

    # ---------------- RFC 6979 generator alone, DER encoder alone
    for _ in range(400 if big else 30):
        g.add('nonce', 'nonce %d %s' % (rng.choice(EDGE_KEYS + [rand_key(rng)]), rand_digest(rng).hex()))
    for i, d in enumerate(EDGE_KEYS[:6]):
        for j, z in enumerate(EDGE_DIGESTS):
            if big or (i + j) % 5 == 0:
                g.add('nonce', 'nonce %d %s' % (d, z.hex()))
    vals = set([1, 2, N - 1, N, (1 << 256) - 1, HALF, HALF + 1])
    for kbit in range(7, 257, 8):
        vals.update([(1 << kbit) - 1, 1 << kbit, (1 << kbit) + 1, (1 << (kbit + 1)) - 1, 1 << (kbit + 1)])
    vals = sorted(v for v in vals if 1 <= v < 1 << 256)
    for v in vals:
        g.add('derenc', 'derenc %d %d' % (v, rng.choice(vals)))
        g.add('derenc', 'derenc %d %d' % (rng.choice(vals), v))
    for _ in range(2000 if big else 200):
        g.add('derenc', 'derenc %d %d' % (rng.getrandbits(rng.randrange(1, 257)) or 1, rng.getrandbits(rng.randrange(1, 257)) or 1))
    return g.cases


def same(c, io, mo):
    if c.req.startswith('signrand '):
        return True                     # random nonce: no model answer, the oracle below judges it with the k it reports
    return io == mo.split('|')[0]


def is_trivial(c, out):
    if c.req.startswith('signseq '):
        return set(out.split(';')) <= {'ERR'}
    if c.req.startswith('vseq '):
        return set(out.split(',')) <= {'ERR'}
    return out.startswith('ERR') or out == 'BADREQ'


# ---------------------------------------------------------------- property-level verdict on the implementation's answer
def dsha(m):
    return hashlib.sha256(hashlib.sha256(m).digest()).digest()


def check_sign(d, msg, k, ht, out, text=None, z=None, force_hash=False):
    """verdict on ONE answer of the signer; returns (message | None, (r, digest) | None).
    text / z / force_hash describe a RECORDED deviation (used by the class predicates only): the digest text whose
    SHA-256 seeds RFC 6979 instead of the lower-case hex of the digest, the integer that is signed instead of the
    digest's, hashing a digest of at most 32 bytes as if it were a message"""
    if not (1 <= d < N):
        return (None if out == 'ERR' else 'signature made with a private key outside [1, n-1]'), None
    if not (0 <= ht <= 255):
        return (None if out == 'ERR' else 'hash type %d outside a byte accepted' % ht), None
    dg = dsha(msg) if len(msg) > 32 or force_hash else msg
    if z is None:
        z = bits2int(dg)
    if not k:
        k = rfc6979(d, hashlib.sha256((dg.hex() if text is None else text).encode('latin-1')).digest())
    elif k % N == 0:
        return (None if out == 'ERR' else 'nonce = 0 mod n produced %s' % out[:60]), None
    exp = ec_sign(d, z, k)
    if exp is None:
        return (None if out == 'ERR' else 'r = 0 or s = 0 not refused'), None
    if out == 'ERR':
        return 'signing failed for a valid key, digest and nonce', None
    f = out.split(' ')
    if len(f) != 3:
        return 'signature object inconsistent: %s' % out[:160], None
    r, s, enc = int(f[0]), int(f[1]), unhx(f[2])
    if not ec_verify(z, r, s, pub(d)):
        return 'signature (r=%d, s=%d) does not verify under the signer\'s public key' % (r, s), (r, dg)
    if s > (N - 1) // 2:
        return 'high S returned: s = %d > (n-1)/2' % s, (r, dg)
    if not bip66(enc) or enc != der(r, s) + bytes([ht]):
        return 'encoding %s is not the strict DER form of (r, s) + hash type' % enc.hex(), (r, dg)
    if r != exp[0] or s not in (exp[1], N - exp[1]):
        return ('signature is not the one determined by (key, digest, nonce): nonce differs from RFC 6979 / the given k',
                (r, dg))
    return None, (r, dg)


def check_sign_arg(d, form, field, k, ht, out, deviation=None):
    """the same for a digest argument as given (form letter + field): the MEANING of the argument is signed"""
    rd = readings(form, field)
    if deviation is not None and dg_class(form, field, '-' if k is None else 'x') == deviation:
        t = arg_text(form, field)
        if deviation == 'hex_case_changes_nonce':
            return check_sign(d, rd[0], k, ht, out, text=t)
        if deviation == 'spaced_digest_text':
            if len(t) > 64:
                return check_sign(d, rd[1], k, ht, out, force_hash=True)        # more than 64 CHARACTERS: hashed
            return check_sign(d, b'', k, ht, out, text=t, z=cread(t))
        if deviation == 'nonhex_digest_text' and len(t) <= 64:
            return check_sign(d, b'', k, ht, out, text=t, z=cread(t))        # 0, or the number an odd count of digits spells
    if rd == [REFUSE]:
        return (None if out == 'ERR' else 'a digest text that is not base-16 was signed: %s' % out[:60]), None
    if len(rd) == 2:
        if out == 'ERR':
            return None, None
        m, info = check_sign(d, rd[1], k, ht, out)
        return ('digest text with white space: ' + m if m else None), info
    return check_sign(d, rd[0], k, ht, out)


def signseq_failures(c, out, deviation=None):
    """[(step index, message)] for a signing session"""
    steps = c.req.split(' ')[2:]
    outs = out.split(';')
    if len(outs) != len(steps):
        return [(-1, 'session of %d steps answered with %d results' % (len(steps), len(outs)))]
    fails, seen_r, seen_req = [], {}, {}
    for i, (st, o) in enumerate(zip(steps, outs)):
        d, msg, k, ht, form = st.split(':')
        d, k, ht = int(d), (None if k == '-' else int(k)), int(ht)
        m, info = check_sign_arg(d, form[0], msg, k, ht, o, deviation)
        if m:
            fails.append((i, 'step %d (key %x): %s' % (i, d, m)))
        # deterministic: the same (key, message AS GIVEN, nonce, hash type) asked again in the same process
        rk = (d, form[0], msg, k, ht)
        if rk in seen_req and seen_req[rk][1] != o:
            fails.append((i, 'step %d repeats step %d and gets a different signature' % (i, seen_req[rk][0])))
        seen_req.setdefault(rk, (i, o))
        # nonce never shared between different (key, digest) pairs: equal r = equal nonce up to sign
        if info is not None and k is None:
            r, dg = info
            if r in seen_r and seen_r[r][1:] != (d, dg):
                j, d2, dg2 = seen_r[r]
                fails.append((i, 'steps %d and %d: nonce shared between (key %x, digest %s) and (key %x, digest %s): '
                                 'same r, both private keys are recoverable' % (j, i, d2, dg2.hex()[:16], d, dg.hex()[:16])))
            seen_r.setdefault(r, (i, d, dg))
    fails.sort(key=lambda f: 'nonce shared' not in f[1])          # the most telling message first (stable)
    return fails


def key_cands(tok):
    """(candidate curve points | None of a key argument as standard ECDSA reads it, form letter)"""
    f, body = tok[0], tok[1:]
    if f in 'VW':
        d = int(body)
        return [pub(d) if 1 <= d < N else None], f
    if f == 'Z':
        return [None if x is REFUSE else sec_point(x) for x in readings('t', body)], f
    return [sec_point(bytes.fromhex(body))], f


def _key_of(tok):
    c, f = key_cands(tok)
    return c[-1], f


SIG_FORM_OF_HOW = {'b': 'b', 'a': 'b', 'x': 'h', 'A': 'h', 'u': 'U', 'w': 'U', 'T': 't', 't': 't'}
AMBIG = 'AMBIG'


def rs_cands(form, field):
    """candidate (r, s) | None (no object / refused) of a signature argument"""
    out = []
    for x in readings(form, field):
        if x is REFUSE:
            out.append(None)
            continue
        ps = spec_parse(x)
        out.append(ps[:2] if ps is not None and 1 <= ps[0] < N and 1 <= ps[1] < N else None)
    return out


def vseq_failures(c, out, deviation=None):
    """[(step index, message, key form)] for a verification session; the expected verdicts are computed here from
    the request alone: standard ECDSA on the value the object must hold and the MEANINGS of the arguments in force
    (the ones given in the call; for an omitted argument the one given most recently, unless a refused call or an
    argument with two readings makes that ambiguous).  deviation = a recorded digest class: digests of that class
    are taken as the code is known to read them (used by the class predicates only)"""
    t = c.req.split(' ')
    src, steps = t[2].split(':'), t[3:]
    kind = src[0]
    rs, dg_st, key_st, tolerated = None, None, None, False
    rs_alt = False              # the source signature has two readings (text with white space): ERR is fine too
    if kind in 'SC':
        d, k, ht, form = int(src[1]), (None if src[3] == '-' else int(src[3])), int(src[4]), src[5]
        rd = readings(form[0], src[2])
        if len(rd) != 1 or rd[0] is REFUSE:
            return []           # signing a digest text without a unique meaning: judged by the sign requests
        msg = rd[0]
        if k is None and form[0] != 'b' and arg_text(form[0], src[2]) != msg.hex() and len(msg) <= 32:
            return []           # nonce from the text (hex_case_changes_nonce): the object's (r, s) is judged by the sign requests
        if 1 <= d < N and 0 <= ht <= 255:
            dgb = dsha(msg) if len(msg) > 32 else msg
            kk = k if k else rfc6979(d, hashlib.sha256(dgb.hex().encode()).digest())
            e = ec_sign(d, bits2int(dgb), kk) if kk % N else None
            if e:
                rs, dg_st, key_st = (e[0], min(e[1], N - e[1])), dgval(dgb), pub(d)
    elif kind in 'PN':
        sform = SIG_FORM_OF_HOW[src[1]] if kind == 'P' else src[1]
        rc = rs_cands(sform, src[2])
        rs = rc[-1]
        rs_alt = len(rc) == 2
        if kind == 'P' and src[3] != '-':
            kc, f = key_cands(src[3])
            key_st = kc[-1]
            if len(kc) == 2:
                rs_alt = True
            if key_st is None:
                rs = None
            elif f == 'T':
                tolerated = True
    elif kind == 'V':
        r, s_ = int(src[1]), int(src[2])
        if 1 <= r < N and 1 <= s_ < N:
            rs = (r, s_)
        if src[3] != '*':
            dform, dfield = (src[3][0], src[3][1:]) if src[3][0] in 'hUt' else ('b', src[3])
            dc = dg_cands(dform, dfield, 'set', deviation)
            dg_st = dc[0] if len(dc) == 1 and dc[0] is not REFUSE else AMBIG
        if src[4] != '-':
            kc, f = key_cands(src[4])
            key_st = kc[-1]
            if len(kc) == 2:
                rs_alt = True
            if key_st is None:
                rs = None
            elif f == 'T':
                tolerated = True
    if out == 'ERR':
        if rs is None or rs_alt:
            return []
        if tolerated:
            return []               # the key handed to the constructor was a tuple: not a documented key type
        return [(-1, 'a well-formed signature could not be turned into a Signature object', '')]
    if kind != 'N' and rs is None and not rs_alt:
        pass                        # an object exists although the source is malformed: every verdict below expects ERR
    outs = out.split(',')
    if len(outs) != len(steps):
        return [(-1, 'session of %d steps answered with %d verdicts' % (len(steps), len(outs)), '')]
    fails = []
    for i, (st, o) in enumerate(zip(steps, outs)):
        head, dg, ka = st.split(':')[:3]
        rs_c = [rs]
        if kind == 'N':
            rs_c = rs_cands(src[1], st.split(':')[3] if st.count(':') == 3 else src[2])
        form = ka[0] if ka != '*' else ''
        if o not in ('1', '0', 'ERR'):
            fails.append((i, 'step %d: unexpected answer %r' % (i, o[:60]), form))
            continue
        dg_c = [dg_st] if dg == '*' else dg_cands(head[1], dg, 'set' if head[0] == 'A' else 'verify', deviation)
        key_c = [key_st] if ka == '*' else key_cands(ka)[0]
        key_eff = key_c[-1]
        # what the call leaves behind
        refused_by_caller = ka != '*' and form in 'KHVWT' and key_eff is None
        if not refused_by_caller:
            dg_new = dg_c[0] if len(dg_c) == 1 and dg_c[0] is not REFUSE else AMBIG
            if ka != '*' and (key_eff is None or form == 'T'):
                # the library call raises / may raise half-way: what it remembers afterwards is not specified
                if dg != '*' and dg_st is not AMBIG and dg_new != dg_st:
                    dg_st = AMBIG
                if form == 'T' and key_eff is not None and key_eff != key_st:
                    key_st = AMBIG
            else:
                if dg != '*':
                    dg_st = dg_new
                if ka != '*':
                    key_st = key_eff if len(key_c) == 1 else AMBIG
        if AMBIG in dg_c or AMBIG in key_c:
            continue
        exps = set()
        for rs_i in rs_c:
            for dv in dg_c:
                for kv in key_c:
                    if rs_i is None or dv is None or dv is REFUSE or dv[1] or kv is None:
                        exps.add('ERR')
                    else:
                        exps.add('1' if ec_verify(dv[0], rs_i[0], rs_i[1], kv) else '0')
        if form == 'T' and o == 'ERR':
            continue                                  # a tuple is not a documented key type: refusing it is fine
        if (o == '1') not in {e == '1' for e in exps}:
            fails.append((i, 'step %d (%s): verify returns %s, standard ECDSA on the meaning of the arguments in force gives %s'
                          % (i, st[:40], o, '/'.join(sorted(exps))), form))
    return fails


def verify_req_expect(t, deviation=None):
    """the verdicts standard ECDSA allows for a `verify` request (a set: one element unless an argument has two readings)"""
    form = t[4]
    dg_c = dg_cands(form[0], t[1], 'verify', deviation)
    sg_c = readings(form[1], t[2])
    key_c = readings('t', t[3]) if form[2] == 'Z' else [unhx(t[3])]
    exps = set()
    for dv in dg_c:
        for sg in sg_c:
            for kv in key_c:
                exps.add('ERR' if REFUSE in (dv, sg, kv) else spec_verify_z(dv, sg, kv))
    return exps


def prop_check(c, out, deviation=None):
    t = c.req.split(' ')
    if out.startswith('CRASH') or out in ('BADREQ', 'NONDET', 'BADKEY') or out.startswith('ODD'):
        return 'unexpected answer %r' % out[:120]
    if t[0] == 'sign':
        d, k, ht = int(t[1]), (None if t[3] == '-' else int(t[3])), int(t[4])
        return check_sign_arg(d, t[5][0], t[2], k, ht, out, deviation)[0]
    if t[0] == 'signrand':
        d, msg, ht = int(t[1]), unhx(t[2]), int(t[3])
        if out == 'ERR':
            return 'signing with use_rfc6979=False failed for a valid key and digest'
        parts = [o.split(' ') for o in out.split(';')]
        if len(parts) != 2 or any(len(x) != 4 for x in parts):
            return 'unexpected answer %r' % out[:120]
        for x in parts:
            k = int(x[3])
            if not (1 <= k < N):
                return 'random nonce %d outside [1, n-1]' % k
            m = check_sign(d, msg, k, ht, ' '.join(x[:3]))[0]
            if m:
                return 'use_rfc6979=False: ' + m
        if parts[0][3] == parts[1][3] or parts[0][0] == parts[1][0]:
            return 'use_rfc6979=False: two signatures made with the same random nonce'
        if min(int(parts[0][3]), int(parts[1][3])).bit_length() < 128:
            return 'use_rfc6979=False: random nonce of only %d bits' % min(int(parts[0][3]), int(parts[1][3])).bit_length()
        return None
    if t[0] == 'signseq':
        f = signseq_failures(c, out, deviation)
        return f[0][1] if f else None
    if t[0] == 'vseq':
        f = vseq_failures(c, out, deviation)
        return f[0][1] if f else None
    if t[0] == 'verify':
        if len(t) > 4 and t[4][2:] == 'L':
            return None                          # Key(.., strict=False) is the documented tolerant mode
        exps = verify_req_expect(t, deviation)
        if out not in ('1', '0', 'ERR'):
            return 'unexpected answer %r' % out[:80]
        if (out == '1') not in {e == '1' for e in exps}:
            return 'verify returns %s, standard ECDSA over the meaning of the arguments (strictly decoded) gives %s' % (
                out, '/'.join(sorted(exps)))
        return None
    if t[0] in ('parse', 'parsef'):
        if t[0] == 'parse':
            cands = [unhx(t[1])]
        else:
            how, form = t[1], t[2]
            cands = readings(form, t[3])
            if (how == 'b') != (form == 'b') and how != 'a':
                cands = [REFUSE] + [x for x in cands if x is not REFUSE]     # parse_bytes(str) / parse_hex(bytes): refusing is right
        oks = []
        for sig in cands:
            ps = None if sig is REFUSE else spec_parse(sig)
            if ps is not None and not (1 <= ps[0] < N and 1 <= ps[1] < N):
                ps = None
            oks.append(ps)
        msgs = []
        for ps in oks:
            if ps is None:
                msgs.append(None if out == 'ERR' else 'malformed / out-of-range / meaningless signature argument accepted: %s' % out[:80])
                continue
            if out == 'ERR':
                msgs.append('well-formed signature rejected by %s' % t[0])
                continue
            f = out.split(' ')
            if len(f) != 4:
                msgs.append('parsed signature object inconsistent: %s' % out[:160])
            elif (int(f[0]), int(f[1]), int(f[2])) != ps:
                msgs.append('parse reads (%s, %s, %s), strict reading is %r' % (f[0][:20], f[1][:20], f[2], ps))
            elif unhx(f[3]) != der(ps[0], ps[1]) + bytes([ps[2]]):
                msgs.append('as_der_encoded() of the parsed signature is not its strict DER form')
            else:
                msgs.append(None)
        return None if None in msgs else msgs[-1]
    if t[0] == 'nonce':
        exp = rfc6979(int(t[1]), unhx(t[2]))
        return None if out == str(exp) else 'RFC 6979 nonce %s, independent computation %d' % (out[:80], exp)
    if t[0] == 'derenc':
        r, s = int(t[1]), int(t[2])
        exp = der(r, s)
        if out != hx(exp) or not bip66(exp + b'\x01'):
            return 'der_encode_sig(%d, %d) = %s, strict DER is %s' % (r, s, out[:150], exp.hex())
        return None
    return None


# ---------------------------------------------------------------- recorded finding classes
def digest_args(c):
    """[(form, field, k)] of every digest argument of a request (k = '-' when a signature is made without explicit nonce)"""
    t = c.req.split(' ')
    if t[0] == 'sign':
        return [(t[5][0], t[2], t[3])]
    if t[0] == 'signseq':
        return [(x[4][0], x[1], x[2]) for x in (st.split(':') for st in t[2:])]
    if t[0] == 'verify':
        return [(t[4][0], t[1], 'x')]
    if t[0] == 'vseq':
        out = []
        src = t[2].split(':')
        if src[0] in 'SC':
            out.append((src[5][0], src[2], src[3]))
        if src[0] == 'V' and src[3] != '*':
            out.append((src[3][0], src[3][1:], 'x') if src[3][0] in 'hUt' else ('b', src[3], 'x'))
        for st in t[3:]:
            head, dg = st.split(':')[:2]
            if dg != '*':
                out.append((head[1], dg, 'x'))
        return out
    return []


def _digest_class(cid):
    """a request is in the class when one of its digest arguments is (decided from the request alone), and the class
    excuses a failure only when the answer is EXACTLY the recorded misbehaviour for those arguments and right everywhere else"""
    def pred(c, io, mo):
        if not any(dg_class(f, x, k) == cid for f, x, k in digest_args(c)):
            return False
        return prop_check(c, io, deviation=cid) is None
    return pred


def _sig_of(c):
    t = c.req.split(' ')
    if t[0] == 'verify':
        rd = readings(t[4][1], t[2])
        return None if rd[-1] is REFUSE else rd[-1]
    if t[0] == 'parse':
        return unhx(t[1])
    if t[0] == 'parsef':
        rd = readings(t[2], t[3])
        return None if rd[-1] is REFUSE else rd[-1]
    return None


def _der64(c, io, mo):
    sig = _sig_of(c)
    return sig is not None and bip66(sig) and len(sig) == 64


def _lax_der(c, io, mo):
    sig = _sig_of(c)
    return sig is not None and len(sig) != 64 and sig[:1] == b'\x30' and not bip66(sig)


KNOWN_CLASSES = {
    'der64_read_as_raw': _der64,
    'hex_case_changes_nonce': _digest_class('hex_case_changes_nonce'),
    'lax_der_accepted': _lax_der,
    'spaced_digest_text': _digest_class('spaced_digest_text'),
    'nonhex_digest_text': _digest_class('nonhex_digest_text'),
}


def reproduce_known(entry, rundir):
    from core import run_impl
    rc, out, err = run_impl(IMPL, [entry['witness']['request']], rundir)
    return len(out) == 1 and out[0] == entry['witness']['impl_answer']
