"""C12 — every key export format imports back to the same key and metadata."""
import hashlib, json, os
from core import Case
import spec_networks as SN

# the two frozen copies of the network specification (harness/spec_networks.py, coq/Model/SpecNetworks.v) must be in sync
_sync = SN.selftest()
if _sync is not None:
    raise RuntimeError('frozen network specification out of sync: ' + _sync)

PROP = 'C12'
COQ_FILES = ['Extract/C12.v', 'Properties/C12.v']
DRIVER = 'c12'
IMPL = 'harness/impl/c12_impl.py'
ALLOWED_AXIOMS = []
# a broken proof obligation widens the search with the thorough streams: capped, the quick command must stay within minutes
ESCALATE_CAP = 2500
# model flags: Base58 lower-casing retry (irrelevant for every generated input: none contains 'I' or 'O'),
# fixes/C12-1 applied, fixes/C12-2 applied.  VERIF_C12_FLAGS=000 selects the model of the code before the repairs.
FLAGS = os.environ.get('VERIF_C12_FLAGS', '011')[:3]
ASSUMPTIONS = [
    'theorems are about coq/Model/KeyFormat.v (lib_* mirrors keys.get_key_format, check_network_and_key, Key.__init__, '
    'Key.wif, HDKey.__init__, HDKey.from_wif, HDKey.wif and networks.wif_prefix_search / network_by_value / Network.wif_prefix, '
    'as repaired by fixes/C12-1, C12-2, C12-3 and C03-8) over the prefix tables regenerated from bitcoinlib/data/networks.json on every run',
    'network table: the regenerated prefixes_wif rows, WIF version bytes, network names and priorities are proved equal (vm_compute, '
    'Proofs/SpecNetworksGlue.v; theorems prefixes_wif_rows_are_frozen_spec, wif_version_bytes_are_frozen_spec, '
    'network_priorities_are_frozen_spec) to the FROZEN specification coq/Model/SpecNetworks.v (reference-client chain parameters, '
    'SLIP-0132); the property-level oracle takes every expected prefix from the frozen Python twin harness/spec_networks.py (table '
    'FROZEN = what the library is pinned to, including the documented deviations regtest = mainnet bytes and dogecoin = xpub/xprv, '
    'which do not affect a round trip), never from /repo',
    'sessions: a Key / HDKey object is modelled by its visible fields only (keymeta + the current compressed attribute); obligation '
    '"session/no-hidden-state" = the implementation answers every call of a sequence on ONE object as the stateless model does on '
    'the current fields (theorem session_is_map_of_stateless_exports); it is discharged by the differential correspondence on the '
    'request kind seq, and independently by the oracle, which recomputes every exported string from the fields the adapter reports. '
    'The address text (C04/C05) and the BIP38 text (C15) inside a session are judged by the oracle only, not by the model',
    'tie to /repo: (a) Gen/GenNetworks.v is regenerated each run and every table fact a theorem uses (prefix shape, prefix => '
    'is_private, WIF version bytes vs HD prefixes, script-type column vs witness/multisig columns, shared prefixes) is re-proved '
    'by vm_compute; (b) differential correspondence of every lib_* function against the public API on each run',
    'Base58 is Model/Base58.v with the lemmas of Proofs/Base58.v (C11: decode(encode b) = b, digit lemmas); no premise is left in '
    'any C12 theorem (all closed under the global context)',
    'the numeric part of the strict public-key test of Key.__init__ (x < p, y < p, curve equation) is the oracle curve_ok of the '
    'model, answered per request by the harness (props/c12.py on_curve); theorems about public keys carry curve_ok pub = true as a premise',
    'the model is a codec over bytes: the public point of a secret is supplied by the caller, never derived (C04); SHA-256d is '
    'the executable Crypto/Sha256.v (only "checksum of the same payload matches" is used); BIP38 decryption (C15), addresses '
    '(C05/C11), tuple input, integer range checks (C04), Python int()/bytes.fromhex() leniency (whitespace, underscores) are not modelled',
    'table columns are compared as parsed bytes (the code compares upper-cased hex text): equivalent while networks.json writes '
    'each prefix in one case; DEFAULT_NETWORK "bitcoin" is a constant of the model (validated by the correspondence)',
    'the Base58 lower-casing retry switch of the model is irrelevant for every generated input (none contains I or O)',
    'requests pubrt (public-only import / export / re-import over points with short coordinates) and bip38rt (BIP38 text through '
    'Key(), HDKey(), bip38_decrypt()) are outside the Gallina model (the driver answers UNMODELLED: no curve arithmetic, no scrypt / '
    'AES there) and are judged by the independent oracle only: coordinates and encodings recomputed from the request, secret / '
    'compression flag / public bytes / WIF of the re-imported key recomputed from the exported secret and the frozen table',
    'corpus/C12/bip38_special.json is FROZEN: BIP38 texts of special secrets produced once by the independent reference encryptor '
    '(harness/props/c15.py ref_encrypt: BIP text, FIPS-197 AES, hashlib.scrypt, address version bytes of harness/spec_networks.py), '
    'decrypted again by the reference decryptor when generated (corpus/C12/make_bip38_special.py); at run time only the shape of each '
    'entry is checked and the secret / flag / public key / WIF expected from an import are recomputed from the request',
]
RULE = ('exhaustive table stream (every network x private/public x witness type x multisig; every prefix x filter combination; '
        'all 256 version bytes), export-import round trips over all table rows with secrets having 0..8 leading zero bytes, '
        'depths 0..255, boundary child numbers, with and without hints, raw forms, classification of well-formed and mutated strings; '
        'sessions on one Key / HDKey object (scripted histories on every network + random call sequences: explicit prefixes, witness '
        'types, multisig flags, child_index, network_change, public(), address(compressed), raw forms, encrypt), every export re-imported; '
        'public-only imports in every form (compressed / uncompressed hex and bytes, point tuple, HDKey, xpub) of curve points whose x or y '
        'has 1..16, 24, 32, 48, 62 leading zero nibbles (built from the curve equation with a cube / square root) and of small secrets with '
        'y or x below 2^252 / 2^248, every public export read in both orders and imported again (pubrt); the BIP38 text of compressed and '
        'uncompressed keys of every network through Key(), HDKey() and bip38_decrypt() (bip38rt); special secrets (tail 01 / 0101 / '
        '010101 / 00 / 0100, first byte 00 / 80, leading zero bytes, 1, 2, n-1, public-key look-alikes) crossed with every route: WIF, hex, '
        'bytes with and without marker (pool), FROZEN BIP38 texts of corpus/C12/bip38_special.json made by the independent reference '
        'encryptor (bip38rt F) and the library\'s own encrypt -> import round trip of compressed keys with tail 01; '
        'a case is non-trivial when the implementation returns a value; distinct by request')

# ---------------------------------------------------------------- independent protocol-level helpers
P = 2 ** 256 - 2 ** 32 - 977
N = 0xFFFFFFFFFFFFFFFFFFFFFFFFFFFFFFFEBAAEDCE6AF48A03BBFD25E8CD0364141
G = (0x79BE667EF9DCBBAC55A06295CE870B07029BFCDB2DCE28D959F2815B16F81798,
     0x483ADA7726A3C4655DA4FBFC0E1108A8FD17B448A68554199C47D08FFB10D4B8)
B58 = '123456789ABCDEFGHJKLMNPQRSTUVWXYZabcdefghijkmnopqrstuvwxyz'
WTS = ['legacy', 'p2sh-segwit', 'segwit']


def ec_add(a, b):
    if a is None:
        return b
    if b is None:
        return a
    if a[0] == b[0]:
        if (a[1] + b[1]) % P == 0:
            return None
        l = 3 * a[0] * a[0] * pow(2 * a[1], -1, P) % P
    else:
        l = (b[1] - a[1]) * pow(b[0] - a[0], -1, P) % P
    x = (l * l - a[0] - b[0]) % P
    return x, (l * (a[0] - x) - a[1]) % P


def ec_mul(k):
    r, q = None, G
    while k:
        if k & 1:
            r = ec_add(r, q)
        q = ec_add(q, q)
        k >>= 1
    return r


def pubs(secret):
    x, y = ec_mul(secret)
    xb, yb = x.to_bytes(32, 'big'), y.to_bytes(32, 'big')
    return bytes([2 + (y & 1)]) + xb, b'\x04' + xb + yb


def sha256d(b):
    return hashlib.sha256(hashlib.sha256(b).digest()).digest()


def b58enc(b):
    n = int.from_bytes(b, 'big')
    s = ''
    while n:
        n, r = divmod(n, 58)
        s = B58[r] + s
    return '1' * (len(b) - len(b.lstrip(b'\0'))) + s


def b58dec(s):
    n = 0
    for c in s:
        if c not in B58:
            return None
        n = n * 58 + B58.index(c)
    z = len(s) - len(s.lstrip('1'))
    return b'\0' * z + (n.to_bytes((n.bit_length() + 7) // 8, 'big') if n else b'')


def b58check(payload):
    return b58enc(payload + sha256d(payload)[:4])


def table():
    """the FROZEN specification table (harness/spec_networks.py: reference-client chain parameters, SLIP-0132) — never /repo.
    FROZEN rather than REFERENCE: a round trip does not depend on WHICH version bytes a network uses; the two documented
    deviations of the library (regtest = mainnet bytes, dogecoin = xpub/xprv) are observed by C04."""
    return SN.FROZEN


def rows():
    for n, d in table().items():
        for r in d['prefixes_wif']:
            yield n, r[0].upper(), r[2] == 'private', bool(r[3]), r[4]


def wif_networks(version):
    return [n for n, d in table().items() if d['prefix_wif'].upper() == version.upper()]


def hd_prefixes():
    return sorted({r[1] for r in rows()})


def spec_row_prefix(net, priv, wt, ms):
    for n, p, pr, m, w in rows():
        if n == net and pr == priv and m == ms and w == wt:
            return p
    return None


def hx(b):
    return b.hex() if b else '-'


def stok(s):
    return 's:' + hx(s.encode('latin-1'))


def tfs(b):
    return 't' if b else 'f'


# ---------------------------------------------------------------- generators
def secret_pool(rng, n_random):
    out = []
    for lz in range(0, 9):                                   # 0..8 leading zero bytes
        for _ in range(2):
            body = bytes([rng.randrange(1, 256)]) + bytes(rng.randrange(256) for _ in range(31 - lz))
            out.append(b'\0' * lz + body)
    out.append((1).to_bytes(32, 'big'))
    out.append((N - 1).to_bytes(32, 'big'))
    out.append(b'\0' * 31 + b'\x02')
    for last in (b'\x01', b'\x00', b'\x01\x01'):              # secrets whose tail looks like the compression marker
        for _ in range(3):
            out.append(bytes([rng.randrange(1, 200)]) + bytes(rng.randrange(256) for _ in range(31 - len(last))) + last)
    out.append(b'\x02' + bytes(rng.randrange(256) for _ in range(30)) + b'\x01')   # looks like a public key + 01
    out.append(b'\x04' + bytes(rng.randrange(256) for _ in range(31)))
    # first byte 80 (the mainnet WIF version byte) / 00 crossed with a tail that looks like the compression marker
    out.append(b'\x80' + bytes(rng.randrange(256) for _ in range(30)) + b'\x01')
    out.append(b'\x00' + bytes(rng.randrange(1, 256) for _ in range(29)) + b'\x01\x01')
    out.append(b'\x80' + bytes(rng.randrange(256) for _ in range(31)))
    for _ in range(n_random):
        out.append(rng.randrange(1, N).to_bytes(32, 'big'))
    return [(s, ) + pubs(int.from_bytes(s, 'big')) for s in out]


def km_tokens(priv, sec, pubc, pubu, comp, chain, depth, fp, child, net, wt, ms):
    return ' '.join([tfs(priv), hx(sec) if priv else '-', hx(pubc), hx(pubu), tfs(comp), hx(chain), str(depth), hx(fp),
                     str(child), net, wt, tfs(ms)])


DEPTHS = [0, 1, 2, 3, 5, 127, 128, 254, 255]
CHILDREN = [0, 1, 2 ** 31 - 1, 2 ** 31, 2 ** 31 + 1, 2 ** 32 - 1, 0x01000000, 0x00ffffff]


def gen_cases(rng, tier):
    big = tier == 'thorough'
    cs = []
    nets = list(table().keys())
    pool = secret_pool(rng, 300 if big else 30)

    def add(kind, req):
        cs.append(Case(kind, req))

    # --- A. tables: Network.wif_prefix, wif_prefix_search, network_by_value — exhaustive
    for n in nets:
        for priv in (True, False):
            for wt in WTS + ['taproot']:
                for ms in (False, True):
                    add('prefix', 'prefix %s %s %s %s' % (n, tfs(priv), wt, tfs(ms)))
    for p in hd_prefixes() + ['0488B21F', '00000000', 'FFFFFFFF', '0488B2', '80']:
        for wt in ['-'] + WTS:
            for ms in 'ntf':
                for nw in ['-'] + nets:
                    add('wps', 'wps %s %s %s %s' % (p.lower(), wt, ms, nw))
    for v in range(256):
        add('nbw', 'nbw %02x' % v)

    # --- B. WIF round trips: every network x compressed x (a slice of) the pool x import path x hint
    for ni, n in enumerate(nets):
        others = [nets[(ni + 1) % len(nets)], 'bitcoin', 'litecoin']
        for si, (sec, pubc, pubu) in enumerate(pool):
            if not big and si % 8 != ni % 8:
                continue
            for comp in (True, False):
                hints = ['-', n] + ([others[si % 3]] if si % 4 == 0 else [])
                for hint in hints:
                    vias = ['key %s t n' % hint, 'hdkey %s - f t' % hint]
                    if si % 7 == 0:
                        vias += ['key %s f t' % hint, 'fromwif %s n t' % hint]
                    for v in vias:
                        chain = '-' if (si + len(cs)) % 2 else hx(b'\x07' * 32)      # '-' : exported by Key, else by HDKey.wif_key
                        km = ' '.join([tfs(True), hx(sec), hx(pubc), hx(pubu), tfs(comp), chain, '0', '00000000', '0', n,
                                       'legacy', 'f'])
                        add('rtwif', 'rtwif %s %s' % (km, v))
    # public keys have no WIF
    sec, pubc, pubu = pool[0]
    add('rtwif', 'rtwif %s key - t n' % km_tokens(False, sec, pubc, pubu, True, b'\1' * 32, 0, b'\0' * 4, 0, 'bitcoin', 'legacy', False))

    # --- C. extended keys: every table row x exported form x import path x hint configuration
    k = 0
    combos = []
    for n in nets:
        for wt in WTS:
            for ms in (False, True):
                for priv in (True, False):
                    for which in (('prv', 'pub', 'wif') if priv else ('pub', 'prv')):
                        combos.append((n, wt, ms, priv, which))
    reps = 12 if big else 1
    for rep in range(reps):
        for (n, wt, ms, priv, which) in combos:
            for via in ('hdkey', 'fromwif'):
                for hc in range(4):
                    k += 1
                    sec, pubc, pubu = pool[(k * 7 + rep) % len(pool)]
                    depth = DEPTHS[k % len(DEPTHS)] if k % 3 else rng.randrange(256)
                    child = CHILDREN[k % len(CHILDREN)] if k % 2 else rng.randrange(2 ** 32)
                    fp = bytes(rng.randrange(256) for _ in range(4)) if k % 5 else b'\0' * 4
                    chain = bytes(rng.randrange(256) for _ in range(32)) if k % 6 else b'\0' * 31 + b'\1'
                    comp = True
                    km = km_tokens(priv, sec, pubc, pubu, comp, chain, depth, fp, child, n, wt, ms)
                    if via == 'hdkey':
                        imp = ['hdkey - - f t', 'hdkey %s - f t' % n, 'hdkey %s %s %s t' % (n, wt, tfs(ms)),
                               'hdkey - %s %s t' % (wt, tfs(ms))][hc]
                    else:
                        imp = ['fromwif - n t', 'fromwif %s n t' % n, 'fromwif %s %s t' % (n, tfs(ms)),
                               'fromwif - %s t' % tfs(ms)][hc]
                    add('rtx', 'rtx %s %s %s' % (which, km, imp))
    # every depth, every boundary child, on two rows
    sec, pubc, pubu = pool[3]
    for d in range(256):
        if big or d % 2 == 0:
            km = km_tokens(True, sec, pubc, pubu, True, b'\x5a' * 32, d, b'\1\2\3\4', CHILDREN[d % len(CHILDREN)], 'bitcoin', 'segwit', False)
            add('rtx', 'rtx prv %s hdkey - - f t' % km)
        if big or d % 2 == 1:
            km = km_tokens(False, sec, pubc, pubu, True, b'\xa5' * 32, d, b'\xff' * 4, CHILDREN[(d + 3) % len(CHILDREN)], 'testnet', 'p2sh-segwit', True)
            add('rtx', 'rtx pub %s fromwif testnet n t' % km)
    # out-of-range depth / child, foreign hint, uncompressed HD keys (BIP32 has no uncompressed form)
    for d, c in ((256, 0), (-1, 0), (0, 2 ** 32), (0, -1)):
        add('rtx', 'rtx prv %s hdkey - - f t' % km_tokens(True, sec, pubc, pubu, True, b'\1' * 32, d, b'\0' * 4, c, 'bitcoin', 'legacy', False))
    for n in nets:
        km = km_tokens(True, sec, pubc, pubu, True, b'\1' * 32, 1, b'\0' * 4, 5, n, 'legacy', False)
        for h in ('bitcoin', 'litecoin', 'dogecoin_testnet', 'nonexistent'):
            add('rtx', 'rtx prv %s hdkey %s - f t' % (km, h))
            add('rtx', 'rtx pub %s fromwif %s n t' % (km, h))
    for si in range(0, len(pool), 5):
        sec, pubc, pubu = pool[si]
        for priv in (True, False):
            for which in ('prv', 'pub'):
                for imp in ('hdkey - - f t', 'hdkey - - f f', 'fromwif - n f'):
                    km = km_tokens(priv, sec, pubc, pubu, False, b'\2' * 32, 2, b'\0' * 4, 7, 'bitcoin', 'legacy', False)
                    add('rtx_uncompressed', 'rtx %s %s %s' % (which, km, imp))

    # --- D. raw forms through Key and HDKey
    for si, (sec, pubc, pubu) in enumerate(pool):
        v = int.from_bytes(sec, 'big')
        forms = [('i:%d' % v), 'b:' + hx(sec), stok(sec.hex()), 'b:' + hx(pubc), 'b:' + hx(pubu), stok(pubc.hex()), stok(pubu.hex()),
                 stok(sec.hex() + '01'), 'b:' + hx(sec + b'\1'), stok(sec.hex().upper())]
        if 70 < len(str(v)) < 78:
            forms.append(stok(str(v)))
        for fi, f in enumerate(forms):
            for hint in (['-', 'testnet'] if si % 2 else ['-']):
                for comp in ('t', 'f'):
                    ips = 'n' if (si + fi) % 3 else 'ntf'
                    for ip in ips:
                        add('key_raw', 'key %s %s %s %s' % (f, hint, comp, ip))
                    add('hdkey_raw', 'hdkey %s %s - f %s' % (f, hint, comp))
            for ip in 'ntf':
                add('gkf_raw', 'gkf %s %s' % (f, ip))

    # secrets outside 1 .. n-1 and public keys that are not curve points (refused since the C04 repairs)
    for v in (0, N, N + 1, 2 ** 256 - 1):
        sb = v.to_bytes(32, 'big')
        for f in ('i:%d' % v, 'b:' + hx(sb), stok(sb.hex()), stok(sb.hex() + '01'), 'b:' + hx(sb + b'\1')):
            for hint in ('-', 'testnet'):
                add('key_range', 'key %s %s t n' % (f, hint))
                add('hdkey_range', 'hdkey %s %s - f t' % (f, hint))
        for ver in (b'\x80', b'\xef'):
            for fl in (b'', b'\1'):
                w = b58check(ver + sb + fl)
                add('key_range', 'key %s - t n' % stok(w))
                add('hdkey_range', 'hdkey %s - - f t' % stok(w))
        xp = b58check(bytes.fromhex('0488ade4') + b'\0' * 9 + b'\x11' * 32 + b'\0' + sb)
        add('hdkey_range', 'hdkey %s - - f t' % stok(xp))
        add('hdkey_range', 'fromwif %s - n t' % hx(xp.encode()))
        sec0, pubc0, pubu0 = pool[0]
        add('rt_range', 'rtwif %s key - t n' % km_tokens(True, sb, pubc0, pubu0, True, b'\1' * 32, 0, b'\0' * 4, 0, 'bitcoin', 'legacy', False))
        add('rt_range', 'rtx prv %s hdkey - - f t' % km_tokens(True, sb, pubc0, pubu0, True, b'\1' * 32, 0, b'\0' * 4, 0, 'bitcoin', 'legacy', False))
    for _ in range(60 if big else 20):
        xb = bytes(rng.randrange(256) for _ in range(32))
        yb = bytes(rng.randrange(256) for _ in range(32))
        for pk in (b'\x02' + xb, b'\x03' + xb, b'\x04' + xb + yb, b'\x04' + xb, b'\x02' + xb + yb, b'\x02' + b'\xff' * 32):
            add('key_offcurve', 'key b:%s - t n' % hx(pk))
            add('key_offcurve', 'key %s - t n' % stok(pk.hex()))
            if len(pk) == 33:
                xp = b58check(bytes.fromhex('0488b21e') + b'\0' * 9 + b'\x11' * 32 + pk)
                add('hdkey_offcurve', 'hdkey %s - - f t' % stok(xp))
                add('hdkey_offcurve', 'fromwif %s - n t' % hx(xp.encode()))
    sec0, pubc0, pubu0 = pool[1]
    bad = b'\x02' + b'\xff' * 32
    add('rt_range', 'rtx pub %s hdkey - - f t' % km_tokens(False, sec0, bad, pubu0, True, b'\1' * 32, 0, b'\0' * 4, 0, 'bitcoin', 'legacy', False))

    # --- E. classification of well-formed and damaged self-describing strings
    def mutate(s):
        i = rng.randrange(len(s))
        m = rng.randrange(4)
        alpha = B58
        if m == 0:
            return s[:i] + rng.choice(alpha) + s[i + 1:]
        if m == 1:
            return s[:i] + s[i + 1:]
        if m == 2:
            return s[:i] + rng.choice(alpha) + s[i:]
        return s[:i] + rng.choice('0l+/ ') + s[i + 1:]

    strs = []
    for (n, p, priv, ms, wt) in rows():
        sec, pubc, pubu = pool[rng.randrange(len(pool))]
        body = bytes.fromhex(p) + bytes([rng.randrange(256)]) + bytes(rng.randrange(256) for _ in range(8 + 32)) + \
            ((b'\0' + sec) if priv else pubc)
        strs.append(b58check(body))
    for n in nets:
        ver = bytes.fromhex(table()[n]['prefix_wif'])
        for si in range(0, len(pool), 4):
            strs.append(b58check(ver + pool[si][0]))
            strs.append(b58check(ver + pool[si][0] + b'\1'))
    for s in strs:
        for ip in 'ntf':
            add('gkf_str', 'gkf %s %s' % (stok(s), ip))
        for _ in range(3 if big else 1):
            m = mutate(s)
            add('gkf_mut', 'gkf %s n' % stok(m))
            add('key_mut', 'key %s - t n' % stok(m))
            add('hdkey_mut', 'hdkey %s - - f t' % stok(m))
    # BIP38-shaped, length-triggered and decimal strings
    for _ in range(200 if big else 40):
        s6 = '6P' + ''.join(rng.choice(B58) for _ in range(56))
        add('gkf_6p', 'gkf %s %s' % (stok(s6), rng.choice('ntf')))
    payload = bytes.fromhex('0142e0') + bytes(rng.randrange(256) for _ in range(36))
    add('gkf_6p', 'gkf %s n' % stok(b58check(payload)))
    payload = bytes.fromhex('0143') + bytes(rng.randrange(256) for _ in range(37))
    add('gkf_6p', 'gkf %s f' % stok(b58check(payload)))
    for ln in (1, 2, 7, 8, 50, 51, 52, 53, 57, 58, 59, 64, 66, 110, 111, 112, 113, 128, 130):
        for _ in range(6 if big else 2):
            s = ''.join(rng.choice(B58) for _ in range(ln))
            for ip in 'ntf':
                add('gkf_len', 'gkf %s %s' % (stok(s), ip))
    for ln in range(68, 81):
        s = str(rng.randrange(10 ** (ln - 1), 10 ** ln))
        add('gkf_dec', 'gkf %s n' % stok(s))
        s = ''.join(rng.choice('123456789') for _ in range(ln))
        add('gkf_dec', 'gkf %s n' % stok(s))
    for s in ('abandon abandon about', 'a b', ' ', '0', '04', 'xprv', 'Ltpv'):
        add('gkf_misc', 'gkf %s n' % stok(s))
    add('gkf_misc', 'gkf s:- n')
    add('gkf_misc', 'gkf b:- n')
    add('gkf_misc', 'gkf i:0 n')

    # --- F. sessions: several calls on ONE Key / HDKey object (kind seq)
    for req in gen_sessions(rng, big, nets, pool):
        add('seq', req)

    # --- G. PUBLIC-ONLY imports in every form, over points whose x or y has leading zero nibbles / bytes (the padding of every
    #        exported coordinate), every public export read (both orders) and imported again
    FORMS = ['ch', 'cb', 'uh', 'ub', 'hch', 'hcb', 'pt', 'xpub', 'xpubw']
    pts = short_points(rng, 3 if big else 1)
    for si in range(0, len(pool), 1 if big else 6):
        pts.append(('pool%d' % si, pool[si][1], pool[si][2]))
    for pi, (tag, pubc, pubu) in enumerate(pts):
        forms = FORMS if (big or tag.startswith(('y1', 'y2', 'x1', 'x2', 'secret')) and len(tag) <= 12) else \
            ['ch', 'ub'] + rng.sample(FORMS, 2)
        for f in dict.fromkeys(forms):
            add('pub_short_' + tag[0], 'pubrt %s %s %s %s' % (f, hx(pubc), hx(pubu), 'cu'[(pi + len(cs)) % 2]))
    # --- H. BIP38 text through EVERY import entry point, compressed and uncompressed, every network (scrypt: ~0.5 s per call)
    for ni, n in enumerate(nets):
        for comp in (False, True):
            if not big and comp and ni % 3:
                continue
            sec = pool[(ni * 2 + comp) % len(pool)][0]
            pw = bytes(rng.choice(b'abcXYZ019 _') for _ in range(rng.randrange(1, 9))).hex()
            vias = 'khf' if big or ni % 4 == 0 else ('kh' if not comp else 'h')
            add('bip38_entry', 'bip38rt %s %s %s %s %s %s' % ('KH'[(ni + comp) % 2], n, hx(sec), tfs(comp), pw, vias))
    add('bip38_entry', 'bip38rt K bitcoin %s f %s nkh' % (hx(pool[2][0]), b'pw'.hex()))
    # --- H2. SPECIAL secrets (tail 01 / 0101 / 00, first byte 00 / 80, 1, 2, n-1, public-key look-alikes) through BIP38:
    #         (a) FROZEN texts of corpus/C12/bip38_special.json (independent reference encryptor, never /repo) imported through
    #         Key() / HDKey() / bip38_decrypt();  (b) the library's own encrypt -> import round trip on pool secrets whose tail
    #         is 01, compressed (the 32-byte result of the decryption must not be read as secret || compression marker)
    corpus = bip38_corpus()
    if big:
        chosen = corpus
    else:
        must = [e for e in corpus if e['compressed'] and e['tag'] in ('last01', 'lead00_last0101', 'first80_last01', 'one')]
        must += [e for e in corpus if (e['tag'], e['compressed']) in (('last01_b', False), ('n_minus_1', True), ('lead000000_last00', True))]
        rest = [e for e in corpus if e not in must]
        chosen = must + rng.sample(rest, 2)
    for i, e in enumerate(chosen):
        vias = 'khf' if big else ['k', 'h', 'kf', 'k', 'hk', 'k', 'h'][i % 7]
        add('bip38_frozen', 'bip38rt F %s %s %s %s %s %s' % (e['network'], e['secret'], tfs(e['compressed']),
                                                            e['password'].encode('utf-8').hex(), vias, e['bip38']))
    tails = [i for i, p_ in enumerate(pool) if p_[0][-1] == 1 and p_[0] != (1).to_bytes(32, 'big')]
    for j, si in enumerate(tails if big else rng.sample(tails, 2)):
        pw = bytes(rng.choice(b'abcXYZ019 _') for _ in range(rng.randrange(1, 9))).hex()
        add('bip38_tail01', 'bip38rt %s %s %s t %s %s' % ('KH'[j % 2], nets[(si + j) % len(nets)], hx(pool[si][0]), pw,
                                                         'khf' if big else 'kh'[j % 2]))
    return cs


_CORPUS = None


def bip38_corpus():
    """corpus/C12/bip38_special.json: BIP38 texts of special secrets made ONCE by the independent reference encryptor
    (corpus/C12/make_bip38_special.py); checked here for shape only - the expected secret / flag / public key are recomputed
    by check_bip38rt from the request"""
    global _CORPUS
    if _CORPUS is None:
        path = os.path.join(os.path.dirname(os.path.abspath(__file__)), '..', '..', 'corpus', 'C12', 'bip38_special.json')
        with open(path) as f:
            _CORPUS = json.load(f)
        for e in _CORPUS:
            raw = b58dec(e['bip38'])
            assert raw is not None and len(raw) == 43 and sha256d(raw[:-4])[:4] == raw[-4:] and \
                raw[:3] == b'\x01\x42' + (b'\xe0' if e['compressed'] else b'\xc0') and e['network'] in table() and \
                0 < int(e['secret'], 16) < N and len(e['secret']) == 64, 'corrupted corpus entry %s' % e['tag']
    return _CORPUS


def pref_tok(hexs, rng):
    """explicit version bytes as bytes (b..) or as hex text (s.., either case): both reach the same bytes"""
    if rng.randrange(3):
        return 'b' + hexs.lower()
    return 's' + (hexs.upper() if rng.randrange(2) else hexs.lower())


def gen_sessions(rng, big, nets, pool):
    out = []
    wifv = {n: table()[n]['prefix_wif'] for n in nets}
    rows_by_net = {n: [r[0] for r in table()[n]['prefixes_wif']] for n in nets}
    full = [n for n in nets if len(rows_by_net[n]) == 12]

    def km(si, priv, comp, net, wt, ms, hd, plain=False):
        sec, pubc, pubu = pool[si % len(pool)]
        if not hd or plain:
            return km_tokens(priv, sec, pubc, pubu, comp, b'\0' * 32 if hd else b'', 0, b'\0' * 4, 0, net, wt, ms)
        return km_tokens(priv, sec, pubc, pubu, comp, bytes(rng.randrange(256) for _ in range(32)), rng.choice(DEPTHS),
                         bytes(rng.randrange(256) for _ in range(4)), rng.choice(CHILDREN), net, wt, ms)

    def imp():
        return rng.choice('nhhx')

    def other(n):
        return rng.choice([x for x in nets if x != n])

    def session(mode, kmt, ops):
        out.append('seq %s %s %s' % (mode, kmt, ' '.join(ops)))

    k = 0
    # scripted histories, every network as the starting network
    for ni, n in enumerate(nets):
        o1, o2 = other(n), nets[(ni + 3) % len(nets)]
        for comp in (True, False):
            k += 1
            wt = WTS[k % 3] if n in full else 'legacy'
            ms = bool(k % 4 == 0)
            # S1: a foreign version byte first, then the plain export; repeated
            for mode in ('K', 'H', 'KW', 'HW'):
                session(mode, km(k, True, comp, n, wt, ms and mode != 'HW', mode[0] == 'H', plain=len(mode) == 2),
                        ['wif:-:h', 'wif:%s:n' % pref_tok(wifv[o1], rng), 'wif:-:h', 'wif:%s:x' % pref_tok(wifv[o2], rng),
                         'wif:%s:n' % pref_tok(wifv[o2], rng), 'wif:-:n', 'wif:-:h'])
            # S2: export, move to other networks, export again (HDKey only has network_change)
            session('H', km(k + 1, True, comp, n, wt, ms, True),
                    ['wif:-:h', 'xprv:-:-:n:h', 'xpub:-:-:n:h', 'dict:t', 'net:' + o1, 'wif:-:h', 'xprv:-:-:n:h', 'xpub:-:-:n:h', 'x:n:-:-:-:n:h',
                     'repr', 'dict:t', 'net:nonexistent', 'wif:-:h', 'net:' + n, 'wif:-:h', 'xprv:-:-:n:h'])
            # S3: the compressed attribute flips through address(); raw forms in between
            for mode in ('K', 'H'):
                session(mode, km(k + 2, True, comp, n, 'legacy', False, mode == 'H'),
                        ['wif:-:h', 'addr:n:-', 'wif:-:h', 'addr:%s:-' % tfs(not comp), 'wif:-:h', 'dict:t', 'hex:f:h', 'bytes:f:h', 'hex:t:h',
                         'bytes:t:h', 'int:h', 'addr:%s:-' % tfs(comp), 'wif:-:h', 'addr:n:-', 'repr', 'wif:-:n'])
        # S4: extended exports with explicit arguments, then the defaults again
        wt = WTS[ni % 3] if n in full else 'legacy'
        owt = WTS[(ni + 1) % 3]
        px = rng.choice(rows_by_net[o1])
        session('H', km(k + 3, True, True, n, wt, bool(ni % 2), True),
                ['xprv:-:-:n:h', 'xprv:%s:-:n:h' % pref_tok(px, rng), 'xprv:-:-:n:h', 'xpub:-:%s:n:h' % owt, 'xpub:-:-:n:h',
                 'xprv:-:-:t:h', 'xprv:-:-:f:h', 'xprv:-:%s:t:h' % owt, 'xprv:-:-:n:h', 'x:t:7:-:-:n:h', 'x:t:-:-:-:n:h', 'x:f:0:-:e:f:h',
                 'x:n:2147483653:-:-:n:h', 'xpub:-:-:n:h', 'xprv:-:-:n:n'])
        # S5: public() then every export; a public-only object from the start
        session('H', km(k + 4, True, True, n, wt, False, True),
                ['wif:-:h', 'xprv:-:-:n:h', 'public', 'wif:-:h', 'xprv:-:-:n:h', 'xpub:-:-:n:h', 'x:t:-:-:-:n:h', 'hex:t:h', 'hex:f:h',
                 'bytes:t:h', 'bytes:f:h', 'int:h', 'net:' + o1, 'xpub:-:-:n:h', 'wif:-:h'])
        session('K', km(k + 5, True, bool(ni % 2), n, 'legacy', False, False),
                ['wif:-:h', 'public', 'wif:-:h', 'hex:t:h', 'bytes:t:h', 'int:h', 'hex:f:h', 'bytes:f:h', 'addr:n:-'])
        session('H', km(k + 6, False, True, n, wt, bool(ni % 2), True),
                ['xpub:-:-:n:h', 'xprv:-:-:n:h', 'wif:-:h', 'x:n:-:-:-:n:h', 'hex:f:h', 'bytes:f:h', 'int:h', 'net:' + o2, 'xpub:-:-:n:h'])
        session('K', km(k + 7, False, bool(ni % 2), n, 'legacy', False, False),
                ['wif:-:h', 'hex:f:h', 'bytes:f:h', 'hex:t:h', 'addr:n:-', 'bytes:f:h'])
    # S6: encrypt in the middle of a session (scrypt: a few only); with and without decryption
    for i in range(10 if big else 3):
        n = nets[(i * 5 + 1) % len(nets)]
        pw = bytes(rng.choice(b'abcXYZ019 _') for _ in range(rng.randrange(1, 9))).hex()
        session('K', km(i, True, bool(i % 2), n, 'legacy', False, False),
                ['wif:-:h', 'enc:%s:%s' % (pw, 'd' if i % 3 == 0 else 'x'), 'wif:-:h', 'hex:t:h', 'addr:n:-', 'wif:-:n'])
        session('H', km(i + 1, True, True, n, 'legacy' if n not in full else WTS[i % 3], False, True),
                ['xprv:-:-:n:h', 'enc:%s:x' % pw, 'xprv:-:-:n:h', 'wif:-:h', 'net:' + other(n), 'enc:%s:x' % pw, 'wif:-:h'])
    # S7: out-of-range child_index (the serialisation refuses, the object is untouched), unknown witness type, odd prefixes
    sec_i = 5
    session('H', km(sec_i, True, True, 'bitcoin', 'segwit', False, True),
            ['x:t:4294967296:-:-:n:h', 'xprv:-:-:n:h', 'wif:-:h', 'x:t:1:-:-:n:h', 'xprv:-:-:n:h'])
    session('H', km(sec_i, True, True, 'testnet', 'legacy', True, True),
            ['x:f:-:-:taproot:n:h', 'xprv:-:-:n:h', 'x:t:-:b0488:-:n:x', 'x:t:-:b00000000:-:n:x', 'x:t:-:e:-:n:h', 'xprv:-:e:n:h'])
    session('K', km(sec_i, True, True, 'bitcoin', 'legacy', False, False),
            ['wif:e:x', 'wif:-:h', 'wif:b8080:x', 'wif:-:h', 'wif:sEf:x', 'wif:-:n', 'wif:b00:x', 'wif:-:h'])
    session('H', km(sec_i, True, True, 'dogecoin', 'segwit', False, True),
            ['xprv:-:-:n:h', 'wif:-:h', 'xprv:-:legacy:n:h', 'net:bitcoin', 'xprv:-:-:n:h'])

    # random call sequences
    def rand_op(hd, st):
        r = rng.randrange(100)
        if r < 22:
            c = rng.randrange(4)
            pt = '-' if c < 2 else pref_tok(wifv[rng.choice(nets)], rng)
            return 'wif:%s:%s' % (pt, imp())
        if r < 34:
            return rng.choice(['hex:t:h', 'hex:f:h', 'bytes:t:h', 'bytes:f:h', 'int:h', 'hex:t:x'])
        if r < 44:
            return 'addr:%s:%s' % (rng.choice('nntf'), rng.choice(['-', '-', '-', 'b6f', 'b00']))
        if r < 47:
            return 'public'
        if r < 51:
            return rng.choice(['dict:t', 'dict:f', 'repr'])
        if not hd:
            return 'wif:-:%s' % imp()
        if r < 57:
            return 'net:' + rng.choice(nets + ['nonexistent'])
        pt = '-' if rng.randrange(4) else pref_tok(rng.choice(rows_by_net[rng.choice(nets)]), rng)
        wt = rng.choice(['-', '-', '-', 'e'] + WTS)
        ms = rng.choice('nnntf')
        if r < 72:
            return 'xprv:%s:%s:%s:%s' % (pt, wt, ms, imp())
        if r < 84:
            return 'xpub:%s:%s:%s:%s' % (pt, wt, ms, imp())
        child = rng.choice(['-', '-', '0', str(rng.choice(CHILDREN)), str(rng.randrange(2 ** 32))])
        return 'x:%s:%s:%s:%s:%s:%s' % (rng.choice('ntf'), child, pt, wt, ms, imp())

    for i in range(1500 if big else 90):
        hd = bool(i % 3)
        n = nets[i % len(nets)]
        priv = bool(i % 7)
        comp = bool(i % 5) or not priv and bool(i % 2)
        wt = rng.choice(WTS) if n in full else 'legacy'
        ms = rng.randrange(3) == 0
        plain = hd and priv and i % 11 == 0
        mode = ('H' if hd else 'K') + ('W' if (priv and (plain or (not hd and i % 4 == 0))) else '')
        session(mode, km(i * 3 + 1, priv, comp, n, wt, ms and mode != 'HW', hd, plain=plain),
                [rand_op(hd, None) for _ in range(rng.randrange(4, 11))])
    return out


def on_curve(b):
    """numeric part of Key.__init__'s strict point test on public key bytes (the model's curve_ok oracle):
    x < p, and for 65 bytes y < p with y^2 = x^3 + 7, for 33 bytes x^3 + 7 a square"""
    if len(b) not in (33, 65):
        return True
    x = int.from_bytes(b[1:33], 'big')
    if x >= P:
        return False
    y2 = (pow(x, 3, P) + 7) % P
    if len(b) == 65:
        y = int.from_bytes(b[33:], 'big')
        return y < P and y * y % P == y2
    y = pow(y2, (P + 1) // 4, P)
    return y * y % P == y2


def submitted_public_key(t):
    """the one byte string a request can submit to the strict public-key test"""
    def of_text(s):
        if len(s) in (66, 130) and set(s) <= set('0123456789abcdefABCDEF'):
            return bytes.fromhex(s)
        b = b58dec(s)
        if b is not None and len(b) >= 78:
            return b[45:78]
        return None
    k = t[0]
    if k in ('key', 'hdkey'):
        if t[1].startswith('b:'):
            return unhx(t[1][2:])
        if t[1].startswith('s:'):
            return of_text(unhx(t[1][2:]).decode('latin-1'))
    elif k == 'fromwif':
        return of_text(unhx(t[1]).decode('latin-1'))
    elif k in ('rtwif', 'rtx'):
        m = t[1:13] if k == 'rtwif' else t[2:14]
        if m[0] == 'f':
            return unhx(m[2]) if m[4] == 't' else unhx(m[3])
    return None


def model_req(c):
    b = submitted_public_key(c.req.split(' '))
    return FLAGS + ('t' if b is None or on_curve(b) else 'f') + ' ' + c.req


def strip_addr(seg):
    """a session step without the parts the model leaves to the oracle (address text, BIP38 text)"""
    body, _, fl = seg.rpartition(' # ')
    if body.startswith('A comp='):
        body = body.split(' a=')[0]
    return body, fl


def same_seq(impl_out, model_out):
    a, b = impl_out.split(' || '), model_out.split(' || ')
    if len(a) != len(b):
        return False
    for x, y in zip(a, b):
        (bx, fx), (by, fy) = strip_addr(x), strip_addr(y)
        if fx != fy:
            return False
        if by in ('UNMODELLED', 'OPAQUE'):       # explicit prefix of another shape / encrypt(), as_dict(), repr(): fields compared only
            continue
        if bx != by:
            return False
    return True


def same(c, impl_out, model_out):
    if c.kind == 'seq' and ' # ' in impl_out and ' # ' in model_out:
        return same_seq(impl_out, model_out)
    return impl_out == model_out or 'UNMODELLED' in model_out


def is_trivial(c, out):
    return out.startswith(('ERR', 'NOKEY', 'EXPORT', 'BADREQ', 'CRASH', '-', 'BUILD'))


# ---------------------------------------------------------------- property-level verdict on the implementation
def parse_kv(part):
    d = {}
    for t in part.split(' '):
        if '=' in t:
            a, b = t.split('=', 1)
            d[a] = b
    return d


def unhx(s):
    return b'' if s == '-' else bytes.fromhex(s)


def classify_string(s):
    """What a self-describing string is according to the encodings' definitions: ('wif'|'xprv'|'xpub'|'bip38', …) or None."""
    if len(s) == 58 and s[:2] == '6P':
        return ('bip38', True)
    b = b58dec(s)
    if b is None or len(b) < 5 or b58enc(b) != s or sha256d(b[:-4])[:4] != b[-4:]:
        return None
    body = b[:-4]
    if len(body) == 78:
        p = body[:4].hex().upper()
        flags = {priv for (_, q, priv, _, _) in rows() if q == p}
        if len(flags) == 1:
            priv = flags.pop()
            if priv == (body[45] == 0):
                return ('xprv' if priv else 'xpub', priv)
        return None
    if len(body) in (33, 34) and wif_networks(body[:1].hex()) and not any(q.startswith(body[:1].hex().upper()) for q in hd_prefixes()):
        if len(body) == 33 or body[-1] == 1:
            return ('wif', True)
    return None


def check_gkf_part(part, want_priv, want_fmts):
    if not part.startswith('OK '):
        return 'get_key_format does not recognise the exported string (%s)' % part
    d = parse_kv(part)
    if d.get('priv') != ('1' if want_priv else '0'):
        return 'get_key_format reports is_private=%s for %s material' % (d.get('priv'), 'private' if want_priv else 'public')
    if d.get('fmt') not in want_fmts:
        return 'get_key_format reports format %s, expected %s' % (d.get('fmt'), '/'.join(want_fmts))
    return None


def prop_check(c, out):
    if out.startswith('CRASH') or out == 'BADREQ':
        return 'unexpected answer %r' % out[:120]
    t = c.req.split(' ')
    k = t[0]
    if k == 'prefix':
        net, priv, wt, ms = t[1], t[2] == 't', t[3], t[4] == 't'
        exp = spec_row_prefix(net, priv, wt, ms)
        if exp is None:
            return None if out.startswith('ERR') else 'wif_prefix(%s) = %s although the table has no such row' % (' '.join(t[1:]), out)
        return None if out == exp.lower() else 'wif_prefix(%s) = %s, the table row says %s' % (' '.join(t[1:]), out, exp)
    if k == 'gkf':
        if not t[1].startswith('s:'):
            return None
        s = unhx(t[1][2:]).decode('latin-1')
        cl = classify_string(s)
        if cl is None:
            return None
        if not out.startswith('OK '):
            return None if cl[0] == 'bip38' and False else ('get_key_format rejects a well-formed %s string (%s)' % (cl[0], out))
        d = parse_kv(out)
        if d.get('priv') != ('1' if cl[1] else '0'):
            return 'get_key_format classifies a %s string as is_private=%s' % (cl[0], d.get('priv'))
        return None
    if k in ('key', 'hdkey'):
        return check_raw(t, out)
    if k == 'rtwif':
        return check_rtwif(t, out)
    if k == 'rtx':
        return check_rtx(t, out)
    if k == 'wps':
        return check_wps(t, out)
    if k == 'nbw':
        return check_nbw(t, out)
    if k == 'seq':
        return check_seq(t, out)
    if k == 'pubrt':
        return check_pubrt(t, out)
    if k == 'bip38rt':
        return check_bip38rt(t, out)
    return None


# ---------------------------------------------------------------- public points with short coordinates; BIP38 entry points
def cube_root(a):
    """p = 7 (mod 9): a cubic residue a has the root a^((p+2)/9); None when a is no cube"""
    a %= P
    r = pow(a, (P + 2) // 9, P)
    return r if pow(r, 3, P) == a else None


def point_pubs(x, y):
    assert 0 <= x < P and 0 <= y < P and (y * y - x * x * x - 7) % P == 0
    xb, yb = x.to_bytes(32, 'big'), y.to_bytes(32, 'big')
    return bytes([2 + (y & 1)]) + xb, b'\x04' + xb + yb


def short_points(rng, per_width):
    """curve points whose y (resp. x) has 1 .. 16 leading zero NIBBLES, built from the curve equation (no secret is known
    for them: public-only imports need none) + the first small secrets whose y / x is below 2^252 and 2^248"""
    out = []
    for k in list(range(1, 17)) + [24, 32, 48, 62]:
        got = 0
        while got < per_width:
            y = rng.randrange(16 ** (63 - k), 16 ** (64 - k))
            x = cube_root(y * y - 7)
            if x is None:
                continue
            out.append(('y%d' % k,) + point_pubs(x, y))
            got += 1
        got = 0
        while got < per_width:
            x = rng.randrange(16 ** (63 - k), 16 ** (64 - k))
            y2 = (x * x * x + 7) % P
            y = pow(y2, (P + 1) // 4, P)
            if y * y % P != y2:
                continue
            if rng.randrange(2):
                y = P - y
            out.append(('x%d' % k,) + point_pubs(x, y))
            got += 1
    pt, d, need = None, 0, {'y1': 3, 'y2': 1, 'x1': 3, 'x2': 1}
    while any(need.values()) and d < 4000:
        d += 1
        pt = ec_add(pt, G)
        for c, v in (('y', pt[1]), ('x', pt[0])):
            k = 64 - len('%x' % v)
            if k >= 1 and need.get('%s%d' % (c, min(k, 2)), 0) > 0:
                need['%s%d' % (c, min(k, 2))] -= 1
                out.append(('secret%d_%s%d' % (d, c, k),) + point_pubs(*pt))
    return out


def check_pubrt(t, out):
    form, pubc, pubu = t[1], unhx(t[2]), unhx(t[3])
    if not out.startswith('PUB '):
        return 'public key %s (%s form) is refused: %s' % (pubc.hex(), form, out[:60])
    first, re_, au = out[4:].split(' | ')
    d = parse_kv(first)
    want_c, want_u = pubc.hex(), pubu.hex()
    own = want_u if form in ('uh', 'ub') else want_c
    exp = {'pch': want_c, 'puh': want_u, 'pcb': want_c, 'pub': want_u, 'x': '%x' % int.from_bytes(pubu[1:33], 'big'),
           'y': '%x' % int.from_bytes(pubu[33:], 'big'), 'priv': '0'}
    if form != 'pt':
        exp.update(ph=own, pb=own, comp='0' if form in ('uh', 'ub') else '1')
    for k_, v in exp.items():
        if d.get(k_) != v:
            return 'public key imported as %s: export %s = %s, the key is %s' % (form, k_, str(d.get(k_))[:140], v)
    for part in re_.split(' '):
        name, _, val = part.partition(':')
        if val != want_c + '/' + want_u:
            return 'public key imported as %s: its export %s does not import back to the same point (%s)' % (form, name, val[:150])
    exp_au = b58check(b'\0' + h160(pubu))
    if au != 'au=' + exp_au:
        return 'address_uncompressed() = %s, Base58Check(00 || HASH160(04 x y)) = %s' % (au[:60], exp_au)
    return None


def check_bip38rt(t, out):
    exporter, net, sec, comp, pw, vias = t[1], t[2], unhx(t[3]), t[4] == 't', t[5], t[6]
    if not out.startswith('E='):
        return 'encrypt() of a valid private key fails: %s' % out[:60]
    if exporter == 'F':
        what0 = 'BIP38 text %s (reference encryption of secret %s, compressed=%s): ' % (t[7], sec.hex(), comp)
    else:
        what0 = ''
    parts = out.split(' ')
    e = parts[0][2:]
    if exporter == 'F' and e != t[7]:
        return 'adapter did not import the frozen text'
    raw = b58dec(e)
    if raw is None or len(raw) != 43 or raw[:2] != b'\x01\x42' or raw[2] != (0xe0 if comp else 0xc0):
        return 'BIP38 text %s of a%s key does not start 0142%s' % (e, ' compressed' if comp else 'n uncompressed', 'e0' if comp else 'c0')
    pubc, pubu = pubs(int.from_bytes(sec, 'big'))
    wif = b58check(bytes.fromhex(table()[net]['prefix_wif']) + sec + (b'\1' if comp else b''))
    for v, part in zip(vias, parts[1:]):
        name, _, val = part.partition(':')
        d = dict(x.split('=', 1) for x in val.split(',') if '=' in x)
        what = {'k': 'Key(bip38, password=)', 'h': "HDKey(bip38, password=, witness_type='legacy')", 'f': 'bip38_decrypt()', 'n': 'Key(bip38, password=) without network'}[v]
        what = what0 + what
        if not d:
            if v == 'n':
                continue          # the version byte is not part of a BIP38 text: which network it lands on is not decided here
            return '%s refuses the BIP38 export of the key: %s' % (what, val[:60])
        if d.get('sec') != sec.hex():
            return '%s: secret %s, exported %s' % (what, d.get('sec'), sec.hex())
        if d.get('comp') != ('1' if comp else '0'):
            return '%s: compressed=%s, the exported key had compressed=%s' % (what, d.get('comp'), comp)
        if v != 'f' and d.get('pub') != (pubc if comp else pubu).hex():
            return '%s: public key %s, exported key had %s' % (what, d.get('pub'), (pubc if comp else pubu).hex())
        if v in 'kh' and (d.get('net') != net or d.get('wif') != wif):
            return '%s: network %s / WIF %s, exported key had %s / %s' % (what, d.get('net'), d.get('wif'), net, wif)
    return None


def check_wps(t, out):
    """wif_prefix_search(prefix, witness_type, multisig, network) against the frozen table: the rows carrying these version
    bytes (and the filters), in table order"""
    p, wt, ms, nw = t[1].upper(), t[2], t[3], t[4]
    exp = []
    for n, d in table().items():
        if nw != '-' and nw != n:
            continue
        for r in d['prefixes_wif']:
            if r[0].upper() == p and (wt == '-' or r[4] == wt) and (ms == 'n' or bool(r[3]) == (ms == 't')):
                exp.append('%s/%s/%s/%s/%s/%s' % (n, '1' if r[2] == 'private' else '0', r[4], '1' if r[3] else '0', r[5], r[1]))
    exp = ';'.join(exp) if exp else '-'
    return None if out == exp else 'wif_prefix_search(%s) = %s, the frozen table (SLIP-0132 / chain parameters) says %s' % (
        ' '.join(t[1:]), out[:200], exp[:200])


def check_nbw(t, out):
    """network_by_value('prefix_wif', v): the networks with this WIF version byte, by priority (stable, descending)"""
    v = t[1].upper()
    nets = [n for n, d in table().items() if d['prefix_wif'].upper() == v]
    nets.sort(key=lambda n: -table()[n]['priority'])
    exp = ','.join(nets) if nets else '[]'
    return None if out == exp else 'network_by_value(prefix_wif, %s) = %s, the frozen table says %s' % (v, out, exp)


def check_raw(t, out):
    """Key(x) / HDKey(x) for x one of the library's own raw exports: secret (int), private_byte, private_hex,
    public_byte, public_hex."""
    tok, hint = t[1], t[2]
    comp = t[3] if t[0] == 'key' else t[5]
    ip = t[4] if t[0] == 'key' else 'n'
    kind, body = tok[0], tok[2:]
    want = None       # (is_private, key bytes, compressed or None when the form does not carry it)
    if kind == 'i':
        v = int(body)
        if 0 < v < N:
            want = (True, v.to_bytes(32, 'big'), comp == 't')
    elif kind == 'b':
        b = unhx(body)
        if len(b) == 32 and 0 < int.from_bytes(b, 'big') < N:
            want = (True, b, comp == 't')
        elif len(b) == 33 and b[0] in (2, 3) and on_curve(b):
            want = (False, b, True)
        elif len(b) == 65 and b[0] == 4 and on_curve(b):
            want = (False, b, False)
    else:
        s = unhx(body).decode('latin-1')
        hexdigits = set('0123456789abcdefABCDEF')
        if set(s) <= hexdigits:
            if len(s) == 64 and 0 < int(s, 16) < N:
                want = (True, bytes.fromhex(s), comp == 't')
            elif len(s) == 66 and s[:2] in ('02', '03') and on_curve(bytes.fromhex(s)):
                want = (False, bytes.fromhex(s), True)
            elif len(s) == 130 and s[:2] == '04' and on_curve(bytes.fromhex(s)):
                want = (False, bytes.fromhex(s), False)
    if want is None:
        return None
    if ip != 'n' and (ip == 't') != want[0]:
        return None                       # the caller contradicts the material: no claim
    if not out.startswith('OK '):
        if hint != '-' and hint not in table():
            return None
        return '%s of a raw %s export fails: %s' % (t[0], 'private' if want[0] else 'public', out)
    d = parse_kv(out)
    if d['priv'] != ('1' if want[0] else '0'):
        return 'raw %s material imported with is_private=%s' % ('private' if want[0] else 'public', d['priv'])
    if unhx(d['key']) != want[1]:
        return 'raw import yields key %s, exported %s' % (d['key'], want[1].hex())
    if d['comp'] != ('1' if want[2] else '0'):
        return 'raw import yields compressed=%s, expected %s' % (d['comp'], want[2])
    if hint != '-' and d['net'] != hint:
        return 'raw import with network=%s yields network %s' % (hint, d['net'])
    return None


def split_answer(out):
    parts = out.split(' | ')
    if len(parts) != 3 or not parts[0].startswith('X='):
        return None
    return parts[0][2:], parts[1], parts[2]


def check_rtwif(t, out):
    priv, sec, comp, net = t[1] == 't', unhx(t[2]), t[5] == 't', t[10]
    via, args = t[13], t[14:]
    if out.startswith('EXPORT'):
        return None if (not priv or not 0 < int.from_bytes(sec, 'big') < N) else 'wif() of a private key fails: ' + out
    if not priv:
        return 'wif() of a public key returns ' + out[:60]
    sp = split_answer(out)
    if sp is None:
        return 'unexpected answer %r' % out[:120]
    x, g, imp = sp
    ver = bytes.fromhex(table()[net]['prefix_wif'])
    exp = b58check(ver + sec + (b'\1' if comp else b''))
    if x != exp:
        return 'wif() = %s, Base58Check(version || secret || flag) = %s' % (x, exp)
    r = check_gkf_part(g, True, ['wif_compressed'] if comp else ['wif'])
    if r:
        return r
    if via == 'fromwif':
        return None if not imp.startswith('OK ') else 'HDKey.from_wif accepts a plain WIF'
    hint = args[0]
    cands = wif_networks(ver.hex())
    if not imp.startswith('OK '):
        if imp == 'ERR ambiguous' and hint == '-' and len(cands) > 1:
            return None            # refusal to guess among networks sharing the version byte
        if hint != '-' and hint not in cands:
            return None            # foreign or unknown network supplied
        return 'import of an exported WIF fails: ' + imp
    d = parse_kv(imp)
    if d['priv'] != '1':
        return 'WIF imported as a public key'
    if unhx(d['key']) != sec:
        return 'WIF import yields secret %s, exported %s' % (d['key'], sec.hex())
    if d['comp'] != ('1' if comp else '0'):
        return 'WIF import yields compressed=%s, exported %s' % (d['comp'], comp)
    if hint != '-':
        if d['net'] != hint:
            return 'WIF import with network=%s yields %s' % (hint, d['net'])
    elif d['net'] not in cands or (len(cands) == 1 and d['net'] != net):
        return 'WIF import yields network %s, version byte belongs to %s' % (d['net'], cands)
    return None


def check_rtx(t, out):
    which = t[1]
    priv, sec, pubc, pubu, comp = t[2] == 't', unhx(t[3]), unhx(t[4]), unhx(t[5]), t[6] == 't'
    chain, depth, fp, child, net, wt, ms = unhx(t[7]), int(t[8]), unhx(t[9]), int(t[10]), t[11], t[12], t[13] == 't'
    via, args = t[14], t[15:]
    as_priv = priv and which == 'prv'
    prefix = spec_row_prefix(net, as_priv, wt, ms)
    in_range = 0 <= depth < 256 and 0 <= child < 2 ** 32
    if out.startswith('EXPORT'):
        valid_key = (0 < int.from_bytes(sec, 'big') < N) if priv else \
            (on_curve(pubc if comp else pubu) and (pubc if comp else pubu)[:1] in ((b'\x02', b'\x03') if comp else (b'\x04',)))
        return None if (prefix is None or not in_range or not valid_key) else 'export of a representable extended key fails: ' + out
    sp = split_answer(out)
    if sp is None:
        return 'unexpected answer %r' % out[:120]
    x, g, imp = sp
    if prefix is None or not in_range:
        return None
    if comp or as_priv:
        exp = xkey_text(prefix, depth, fp, child, chain, (b'\0' + sec) if as_priv else pubc)
        if x != exp:
            return 'extended key export %s... differs from BIP32 serialisation with the %s/%s/%s/%s version bytes %s of SLIP-0132: %s...' % (
                x[:16], net, wt, 'multisig' if ms else 'single', 'private' if as_priv else 'public', prefix, exp[:16])
    r = check_gkf_part(g, as_priv, ['hdkey_private'] if as_priv else ['hdkey_public'])
    if r:
        return r
    same_prefix = [(n, m, w) for (n, p, pr, m, w) in rows() if p == prefix]
    cand_nets = list(dict.fromkeys(n for n, _, _ in same_prefix))
    hint = args[0]
    if not imp.startswith('OK '):
        if imp == 'ERR ambiguous' and hint == '-' and len(cand_nets) > 1:
            return None
        if hint != '-' and hint not in cand_nets:
            return None
        return 'import of an exported extended key fails: ' + imp
    d = parse_kv(imp)
    if d['priv'] != ('1' if as_priv else '0'):
        return 'extended %s key imported with is_private=%s' % ('private' if as_priv else 'public', d['priv'])
    got = unhx(d['key'])
    if as_priv:
        if got != sec:
            return 'extended key import yields secret %s, exported %s' % (d['key'], sec.hex())
    elif got not in (pubc, pubu):
        return 'extended key import yields public key %s, exported point %s' % (d['key'][:24] + '..', pubc.hex()[:24] + '..')
    if unhx(d['chain']) != chain or int(d['depth']) != depth or unhx(d['fp']) != fp or int(d['child']) != child:
        return 'extended key import changes chain/depth/fingerprint/child: %s' % imp[:200]
    comp_hint = args[-1] == 't'
    if d['comp'] != ('1' if comp else '0'):
        return 'extended key import yields compressed=%s, exported key had %s' % (d['comp'], comp)
    if hint != '-':
        if d['net'] != hint:
            return 'import with network=%s yields %s' % (hint, d['net'])
    elif d['net'] not in cand_nets or (len(cand_nets) == 1 and d['net'] != net):
        return 'import yields network %s, prefix belongs to %s' % (d['net'], cand_nets)
    cand_wt = list(dict.fromkeys(w for _, _, w in same_prefix))
    cand_ms = list(dict.fromkeys(m for _, m, _ in same_prefix))
    wt_supplied = via == 'hdkey' and args[1] != '-'
    if wt_supplied:
        if d['wt'] != args[1]:
            return 'import with witness_type=%s yields %s' % (args[1], d['wt'])
    elif d['wt'] not in cand_wt or (len(cand_wt) == 1 and d['wt'] != wt):
        return 'import yields witness type %s, prefix stands for %s' % (d['wt'], cand_wt)
    msarg = args[2] if via == 'hdkey' else args[1]
    got_ms = d['ms'] == '1'
    if len(cand_ms) == 1:
        if got_ms != ms:
            return 'import yields multisig=%s, prefix stands for %s' % (got_ms, cand_ms)
    elif msarg == 't' and not got_ms:
        return 'import with multisig=True yields multisig=False'
    return None


def xkey_text(prefix_hex, depth, fp, child, chain, keydata):
    """BIP32 serialisation: version || depth || parent fingerprint || child number || chain code || key data, Base58Check"""
    return b58check(bytes.fromhex(prefix_hex) + bytes([depth]) + fp + child.to_bytes(4, 'big') + chain + keydata)


def h160(b):
    return hashlib.new('ripemd160', hashlib.sha256(b).digest()).digest()


BECH = 'qpzry9x8gf2tvdw0s3jn54khce6mua7l'


def bech32_polymod(values):
    gen = [0x3b6a57b2, 0x26508e6d, 0x1ea119fa, 0x3d4233dd, 0x2a1462b3]
    chk = 1
    for v in values:
        b = chk >> 25
        chk = (chk & 0x1ffffff) << 5 ^ v
        for i in range(5):
            chk ^= gen[i] if ((b >> i) & 1) else 0
    return chk


def segwit_v0(hrp, prog):
    """BIP173 address of a version-0 witness program"""
    acc, bits, data = 0, 0, [0]
    for b in prog:
        acc = (acc << 8) | b
        bits += 8
        while bits >= 5:
            bits -= 5
            data.append((acc >> bits) & 31)
    if bits:
        data.append((acc << (5 - bits)) & 31)
    hx_ = [ord(c) >> 5 for c in hrp] + [0] + [ord(c) & 31 for c in hrp]
    pm = bech32_polymod(hx_ + data + [0] * 6) ^ 1
    return hrp + '1' + ''.join(BECH[d] for d in data + [(pm >> 5 * (5 - i)) & 31 for i in range(6)])


def pref_bytes(tok):
    """explicit version bytes of a session call: (given?, bytes or None when the text is not hexadecimal)"""
    if tok == '-':
        return False, None
    if tok == 'e':
        return True, b''
    try:
        return True, bytes.fromhex(tok[1:])
    except ValueError:
        return True, None


def judge_wif_import(sec, comp, ver, hint, imp, hd):
    """re-import of Base58Check(ver || sec || flag) with / without a network hint"""
    cands = wif_networks(ver.hex()) if len(ver) == 1 else []
    if not cands or any(q.startswith(ver.hex().upper()) for q in hd_prefixes()):
        return None                       # not the version byte of any network: no claim
    if not imp.startswith('OK '):
        if imp == 'ERR ambiguous' and hint == '-' and len(cands) > 1:
            return None
        if hint != '-' and hint not in cands:
            return None
        return 'import of an exported WIF fails: ' + imp
    d = parse_kv(imp)
    if d['priv'] != '1':
        return 'WIF imported as a public key'
    if unhx(d['key']) != sec:
        return 'WIF import yields secret %s, the object holds %s' % (d['key'], sec.hex())
    if d['comp'] != ('1' if comp else '0'):
        return 'WIF import yields compressed=%s, the object has compressed=%s' % (d['comp'], comp)
    if hint != '-':
        if d['net'] != hint:
            return 'WIF import with network=%s yields %s' % (hint, d['net'])
    elif d['net'] not in cands:
        return 'WIF import yields network %s, version byte belongs to %s' % (d['net'], cands)
    return None


def judge_xkey_import(prefix, as_priv, sec, pubc, pubu, chain, depth, fp, child, hint, g, imp):
    """get_key_format and HDKey(text, network=hint) on the serialisation with version bytes [prefix] (hex) of the frozen table"""
    same_prefix = [(n, m, w) for (n, p, pr, m, w) in rows() if p == prefix]
    if not same_prefix:
        return None
    r = check_gkf_part(g, as_priv, ['hdkey_private'] if as_priv else ['hdkey_public'])
    if r:
        return r
    cand_nets = list(dict.fromkeys(n for n, _, _ in same_prefix))
    if not imp.startswith('OK '):
        if imp == 'ERR ambiguous' and hint == '-' and len(cand_nets) > 1:
            return None
        if hint != '-' and hint not in cand_nets:
            return None
        return 'import of an exported extended key fails: ' + imp
    d = parse_kv(imp)
    if d['priv'] != ('1' if as_priv else '0'):
        return 'extended %s key imported with is_private=%s' % ('private' if as_priv else 'public', d['priv'])
    got = unhx(d['key'])
    if as_priv:
        if got != sec:
            return 'extended key import yields secret %s, the object holds %s' % (d['key'], sec.hex())
    elif got not in (pubc, pubu):
        return 'extended key import yields public key %s.., the object holds %s..' % (d['key'][:24], pubc.hex()[:24])
    if unhx(d['chain']) != chain or int(d['depth']) != depth or unhx(d['fp']) != fp or int(d['child']) != child:
        return 'extended key import changes chain/depth/fingerprint/child: %s' % imp[:200]
    if hint != '-':
        if d['net'] != hint:
            return 'import with network=%s yields %s' % (hint, d['net'])
    elif d['net'] not in cand_nets:
        return 'import yields network %s, prefix belongs to %s' % (d['net'], cand_nets)
    cand_wt = list(dict.fromkeys(w for _, _, w in same_prefix))
    cand_ms = list(dict.fromkeys(m for _, m, _ in same_prefix))
    if d['wt'] not in cand_wt:
        return 'import yields witness type %s, prefix %s stands for %s' % (d['wt'], prefix, cand_wt)
    if len(cand_ms) == 1 and (d['ms'] == '1') != cand_ms[0]:
        return 'import yields multisig=%s, prefix %s stands for %s' % (d['ms'], prefix, cand_ms)
    return None


def check_seq(t, out):
    """several calls on ONE object.  Every exported value is recomputed here from the protocol definitions, the frozen
    table and the fields the object reports IN FRONT OF the call; the reported fields may change only as the call says."""
    mode, m, ops = t[1], t[2:14], t[14:]
    hd = mode[0] == 'H'
    priv0, sec, pubc, pubu, comp0 = m[0] == 't', unhx(m[1]), unhx(m[2]), unhx(m[3]), m[4] == 't'
    chain, depth, fp, child0, net0, wt, ms = unhx(m[5]), int(m[6]), unhx(m[7]), int(m[8]), m[9], m[10], m[11] == 't'
    valid = (0 < int.from_bytes(sec, 'big') < N) if priv0 else on_curve(pubc if comp0 else pubu)
    if out.startswith('BUILD'):
        return None if (not valid or net0 not in table()) else 'construction of a valid key object fails: ' + out
    segs = out.split(' || ')
    if len(segs) != len(ops) or any(' # ' not in x for x in segs):
        return 'unexpected answer %r' % out[:160]
    st = {'p': priv0, 'c': comp0, 'net': net0, 'child': child0}
    for i, (op, seg) in enumerate(zip(ops, segs)):
        body, _, fl = seg.rpartition(' # ')
        d = parse_kv(fl)
        new = {'p': d['p'] == '1', 'c': d['c'] == '1', 'net': d['net'], 'child': int(d['child']) if d['child'] != '-' else child0}
        r = judge_call(op.split(':'), body, st, new, hd, sec, pubc, pubu, chain, depth, fp, wt, ms)
        if r:
            return 'call %d (%s) of the session: %s' % (i + 1, op, r)
        st = new
    return None


def judge_call(f, body, st, new, hd, sec, pubc, pubu, chain, depth, fp, wt, ms):
    k = f[0]
    # ---- what the call may do to the fields
    allowed = dict(st)
    if k == 'net':
        if f[1] in table():
            allowed['net'] = f[1]
            if body != 'OK':
                return 'network_change to a defined network answers ' + body
        elif not body.startswith('ERR'):
            return 'network_change to an undefined network answers ' + body
    elif k == 'public':
        allowed['p'] = False
    elif k == 'addr':
        allowed['c'] = new['c']                      # address(compressed=..) is allowed to record the flag
    if new != allowed:
        return 'the object\'s fields changed from %s to %s' % (st, new)
    # ---- the answer, from the fields in front of the call
    if k == 'wif':
        given, ver = pref_bytes(f[1])
        if given and ver is None:
            return None if body.startswith('ERR') else 'wif(prefix=<not hexadecimal>) answers ' + body[:60]
        if not given:
            ver = bytes.fromhex(table()[st['net']]['prefix_wif'])
        if not st['p']:
            return None if body.startswith('ERR') else 'wif() of a public key returns ' + body[:60]
        sp = split_answer(body)
        if sp is None:
            return 'wif() of a private key fails: ' + body[:80]
        x, g, imp = sp
        exp = b58check(ver + sec + (b'\1' if st['c'] else b''))
        if x != exp:
            return 'wif() = %s, Base58Check(%s || secret || %s) on network %s = %s' % (x, ver.hex(), '01' if st['c'] else '', st['net'], exp)
        if len(ver) == 1 and wif_networks(ver.hex()) and not any(q.startswith(ver.hex().upper()) for q in hd_prefixes()):
            r = check_gkf_part(g, True, ['wif_compressed'] if st['c'] else ['wif'])
            if r:
                return r
        if imp == '-':
            return None
        hint = st['net'] if f[2] == 'h' else '-'
        return judge_wif_import(sec, st['c'], ver, hint, imp, hd)
    if k in ('x', 'xprv', 'xpub'):
        if k == 'x':
            isp, child_a, ptok, wta, msa, imode = f[1], f[2], f[3], f[4], f[5], f[6]
        else:
            isp, child_a, ptok, wta, msa, imode = ('t' if k == 'xprv' else 'f'), '-', f[1], f[2], f[3], f[4]
        as_priv = st['p'] and isp == 't'
        wt_eff = wt if wta in ('-', 'e') else wta
        child = st['child'] if child_a == '-' else int(child_a)      # child_index=c: that one serialisation only, 0 honoured
        given, pb = pref_bytes(ptok)
        if given and pb:
            if len(pb) != 4:
                return None
            cands = [pb.hex().upper()]
        else:
            if msa == 't':
                mss = [True]
            elif msa == 'f' and ms:
                mss = [True, False]               # multisig=False on a multisig key: either reading of the argument
            else:
                mss = [ms]
            cands = [q for q in (spec_row_prefix(st['net'], as_priv, wt_eff, x) for x in mss) if q]
        in_range = 0 <= depth < 256 and 0 <= child < 2 ** 32
        if not cands or not in_range:
            return None if body.startswith('ERR') else 'export without a table row / out of range returns ' + body[:60]
        sp = split_answer(body)
        if sp is None:
            return 'export of a representable extended key fails: ' + body[:80]
        x, g, imp = sp
        keydata = (b'\0' + sec) if as_priv else pubc
        exps = [xkey_text(q, depth, fp, child, chain, keydata) for q in cands]
        if x not in exps:
            return 'extended key export %s... on %s/%s/%s differs from the BIP32 serialisation of the current fields with version bytes %s: %s...' % (
                x[:16], st['net'], wt_eff, 'private' if as_priv else 'public', '/'.join(cands), exps[0][:16])
        used = cands[exps.index(x)]
        if imp == '-' or any(pr != as_priv for (_, q, pr, _, _) in rows() if q == used):
            return None                           # explicit version bytes of the other kind (xpub bytes on private data): no claim
        hint = new['net'] if imode == 'h' else '-'
        return judge_xkey_import(used, as_priv, sec, pubc, pubu, chain, depth, fp, child, hint, g, imp)
    if k in ('hex', 'bytes', 'int'):
        if not body.startswith('R='):
            return 'raw export fails: ' + body[:80]
        val, _, imp = body[2:].partition(' | ')
        private = k == 'int' or f[1] == 't'
        if private:
            if not st['p']:
                return None if val == 'None' else 'private raw form of a public key is ' + val[:40]
            if k == 'int':
                ok = val == 'i:%d' % int.from_bytes(sec, 'big')
            else:                                   # the secret as bytes or as its hexadecimal text
                ok = val in ('b:' + sec.hex(), 's:' + sec.hex().encode().hex())
            if not ok:
                return 'private raw form %s does not denote the secret %s' % (val[:80], sec.hex())
            want = (True, sec, st['c'])
        else:
            forms = {}
            for pk in (pubc, pubu):
                forms['b:' + pk.hex()] = pk
                forms['s:' + pk.hex().encode().hex()] = pk
            if val not in forms or (k == 'hex') != val.startswith('s:'):
                return 'public raw form %s is not the public point of the key' % val[:80]
            want = (False, forms[val], len(forms[val]) == 33)
        if imp == '-':
            return None
        if not imp.startswith('OK '):
            return 'import of a raw export fails: ' + imp
        dd = parse_kv(imp)
        if dd['priv'] != ('1' if want[0] else '0') or unhx(dd['key']) != want[1]:
            return 'raw export imports as priv=%s key=%s' % (dd['priv'], dd['key'])
        if dd['comp'] != ('1' if want[2] else '0'):
            return 'raw export imports with compressed=%s, expected %s' % (dd['comp'], want[2])
        if dd['net'] != st['net']:
            return 'raw import with network=%s yields %s' % (st['net'], dd['net'])
        return None
    if k == 'enc':
        if not st['p']:
            return None if body.startswith('ERR') else 'encrypt() of a public key returns ' + body[:60]
        if body.startswith('ERR'):
            return None                             # address() of the object refused (uncompressed + bech32): C04
        dd = parse_kv(body)
        e = dd.get('e', '')
        if len(e) != 58 or e[:2] != '6P':
            return 'encrypt() returns %s, not a BIP38 string' % e[:70]
        if 'priv=1' not in dd.get('g', '') or 'fmt=wif_protected' not in dd.get('g', ''):
            return 'get_key_format on the BIP38 string: ' + dd.get('g', '')
        dec = dd.get('d', '-')
        if dec != '-':
            if not dec.startswith('OK,'):
                return 'decryption of the BIP38 string just produced fails: ' + dec
            k2 = parse_kv(dec.replace(',', ' '))
            if unhx(k2['key']) != sec or k2['comp'] != ('1' if st['c'] else '0'):
                return 'BIP38 round trip yields key=%s comp=%s' % (k2['key'], k2['comp'])
        return None
    if k in ('dict', 'repr'):
        if body.startswith('ERR'):
            return None                             # address() / wif() of the object refused
        xpub = xprv = None
        if hd:
            q = spec_row_prefix(st['net'], False, wt, ms)
            if q and 0 <= depth < 256 and 0 <= st['child'] < 2 ** 32:
                xpub = xkey_text(q, depth, fp, st['child'], chain, pubc)
            q = spec_row_prefix(st['net'], True, wt, ms)
            if q and st['p'] and 0 <= depth < 256 and 0 <= st['child'] < 2 ** 32:
                xprv = xkey_text(q, depth, fp, st['child'], chain, b'\0' + sec)
        if k == 'repr':
            if 'network=%s)' % st['net'] not in body:
                return 'repr() names another network than the object has: ' + body[:200]
            if hd and xpub and 'wif_public=%s,' % xpub not in body:
                return 'repr() shows %s, the extended public key of the current fields is %s' % (body[:160], xpub)
            return None
        dd = parse_kv(body)
        exp = {'network': st['net'], 'compressed': str(st['c']), 'is_private': str(st['p'])}
        if st['p']:
            exp.update(private_hex=sec.hex(), secret=str(int.from_bytes(sec, 'big')),
                       wif=b58check(bytes.fromhex(table()[st['net']]['prefix_wif']) + sec + (b'\1' if st['c'] else b'')))
        if hd:
            exp.update(child_index=str(st['child']), depth=str(depth), chain_code=chain.hex(), fingerprint_parent=fp.hex())
            if xpub:
                exp['extended_wif_public'] = xpub
            if xprv:
                exp['extended_wif_private'] = xprv
        for key, want in exp.items():
            if key in dd and dd[key] != want:
                return 'as_dict()[%s] = %s, the current fields give %s' % (key, dd[key], want)
        if dd.get('public_hex') not in (pubc.hex(), pubu.hex()):
            return 'as_dict()[public_hex] = %s is not the public point of the key' % dd.get('public_hex')
        return None
    if k == 'addr':
        dd = parse_kv(body)
        a = dd.get('a', '')
        if f[2] != '-' or a.startswith('ERR') or (hd and ms):
            return None
        comp = new['c']
        data = pubc if comp else pubu
        pa, ps, hrp = SN.address_prefixes(new['net'], table())
        kind = wt if hd else 'legacy'
        if kind == 'legacy':
            exp = b58check(pa + h160(data))
        elif not comp:
            return None
        elif kind == 'p2sh-segwit':
            exp = b58check(ps + h160(b'\0\x14' + h160(data)))
        else:
            exp = segwit_v0(hrp, h160(data))
        return None if a == exp else 'address() = %s, the %s address of the key on %s (compressed=%s) is %s' % (a, kind, new['net'], comp, exp)
    return None


def _uncompressed_hd(c, io, mo):
    """an uncompressed key sent through the extended-key format, and nothing but the compression flag is lost"""
    t = c.req.split(' ')
    if not (t[0] == 'rtx' and t[6] == 'f'):
        return False
    t2 = list(t)
    t2[6] = 't'
    return check_rtx(t2, io) is None


KNOWN_CLASSES = {
    'xkey_uncompressed_flag': _uncompressed_hd,
}


def reproduce_known(entry, rundir):
    from core import run_impl
    rc, out, err = run_impl(IMPL, [entry['witness']['request']], rundir)
    return len(out) == 1 and out[0] == entry['witness']['impl_answer']
