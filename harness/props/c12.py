"""C12 — every key export format imports back to the same key and metadata."""
import hashlib, json, os
from core import Case, REPO

PROP = 'C12'
COQ_FILES = ['Extract/C12.v', 'Properties/C12.v']
DRIVER = 'c12'
IMPL = 'harness/impl/c12_impl.py'
ALLOWED_AXIOMS = []
# model flags: Base58 lower-casing retry (irrelevant for every generated input: none contains 'I' or 'O'),
# fixes/C12-1 applied, fixes/C12-2 applied.  VERIF_C12_FLAGS=000 selects the model of the code before the repairs.
FLAGS = os.environ.get('VERIF_C12_FLAGS', '011')[:3]
ASSUMPTIONS = [
    'theorems are about coq/Model/KeyFormat.v (lib_* mirrors keys.get_key_format, check_network_and_key, Key.__init__, '
    'Key.wif, HDKey.__init__, HDKey.from_wif, HDKey.wif and networks.wif_prefix_search / network_by_value / Network.wif_prefix, '
    'as repaired by fixes/C12-1 and C12-2) over the prefix tables regenerated from bitcoinlib/data/networks.json on every run',
    'tie to /repo: (a) Gen/GenNetworks.v is regenerated each run and every table fact a theorem uses (prefix shape, prefix => '
    'is_private, WIF version bytes vs HD prefixes, script-type column vs witness/multisig columns, shared prefixes) is re-proved '
    'by vm_compute; (b) differential correspondence of every lib_* function against the public API on each run',
    'Base58 is Model/Base58.v with the lemmas of Proofs/Base58.v (C11: decode(encode b) = b, digit lemmas); no premise is left in '
    'any C12 theorem (all closed under the global context)',
    'the numeric part of the strict public-key test of Key.__init__ (x < p, y < p, curve equation) is the oracle curve_ok of the '
    'model, answered per request by the harness (props/c12.py on_curve); theorems about public keys carry curve_ok pub = true as a premise',
    'the model is a codec over bytes: the public point of a secret is supplied by the caller, never derived (C04); SHA-256d is '
    'the executable Crypto/Sha256.v (only "checksum of the same payload matches" is used); BIP38 decryption (C15), addresses '
    '(C05/C11), tuple input, integer range checks (C04), Python int()/bytes.fromhex() leniency (whitespace, underscores) are not modelled',
    'table columns are compared as parsed bytes (the code compares upper-cased hex text): equivalent while networks.json writes '
    'each prefix in one case; DEFAULT_NETWORK "bitcoin" is a constant of the model (validated by the correspondence)',
    'the Base58 lower-casing retry switch of the model is irrelevant for every generated input (none contains I or O)',
]
RULE = ('exhaustive table stream (every network x private/public x witness type x multisig; every prefix x filter combination; '
        'all 256 version bytes), export-import round trips over all table rows with secrets having 0..8 leading zero bytes, '
        'depths 0..255, boundary child numbers, with and without hints, raw forms, classification of well-formed and mutated strings; '
        'a case is non-trivial when the implementation returns a value; distinct by request')

# ---------------------------------------------------------------- independent protocol-level helpers
P = 2 ** 256 - 2 ** 32 - 977
N = 0xFFFFFFFFFFFFFFFFFFFFFFFFFFFFFFFEBAAEDCE6AF48A03BBFD25E8CD0364141
G = (0x79BE667EF9DCBBAC55A06295CE870B07029BFCDB2DCE28D959F2815B16F81798,
     0x483ADA7726A3C4655DA4FBFC0E1108A8FD17B448A68554199C47D08FFB10D4B8)
B58 = '123456789ABCDEFGHJKLMNPQRSTUVWXYZabcdefghijkmnopqrstuvwxyz'
WTS = ['legacy', 'p2sh-segwit', 'segwit']


def ec_add(a, b):
    if a is None:
        return b
    if b is None:
        return a
    if a[0] == b[0]:
        if (a[1] + b[1]) % P == 0:
            return None
        l = 3 * a[0] * a[0] * pow(2 * a[1], -1, P) % P
    else:
        l = (b[1] - a[1]) * pow(b[0] - a[0], -1, P) % P
    x = (l * l - a[0] - b[0]) % P
    return x, (l * (a[0] - x) - a[1]) % P


def ec_mul(k):
    r, q = None, G
    while k:
        if k & 1:
            r = ec_add(r, q)
        q = ec_add(q, q)
        k >>= 1
    return r


def pubs(secret):
    x, y = ec_mul(secret)
    xb, yb = x.to_bytes(32, 'big'), y.to_bytes(32, 'big')
    return bytes([2 + (y & 1)]) + xb, b'\x04' + xb + yb


def sha256d(b):
    return hashlib.sha256(hashlib.sha256(b).digest()).digest()


def b58enc(b):
    n = int.from_bytes(b, 'big')
    s = ''
    while n:
        n, r = divmod(n, 58)
        s = B58[r] + s
    return '1' * (len(b) - len(b.lstrip(b'\0'))) + s


def b58dec(s):
    n = 0
    for c in s:
        if c not in B58:
            return None
        n = n * 58 + B58.index(c)
    z = len(s) - len(s.lstrip('1'))
    return b'\0' * z + (n.to_bytes((n.bit_length() + 7) // 8, 'big') if n else b'')


def b58check(payload):
    return b58enc(payload + sha256d(payload)[:4])


_NW = None


def table():
    """networks.json of the tree under test, read directly (independent of Gen/GenNetworks.v)"""
    global _NW
    if _NW is None:
        _NW = json.load(open(os.path.join(REPO, 'bitcoinlib', 'data', 'networks.json'), encoding='utf8'))
    return _NW


def rows():
    for n, d in table().items():
        for r in d['prefixes_wif']:
            yield n, r[0].upper(), r[2] == 'private', bool(r[3]), r[4]


def wif_networks(version):
    return [n for n, d in table().items() if d['prefix_wif'].upper() == version.upper()]


def hd_prefixes():
    return sorted({r[1] for r in rows()})


def spec_row_prefix(net, priv, wt, ms):
    for n, p, pr, m, w in rows():
        if n == net and pr == priv and m == ms and w == wt:
            return p
    return None


def hx(b):
    return b.hex() if b else '-'


def stok(s):
    return 's:' + hx(s.encode('latin-1'))


def tfs(b):
    return 't' if b else 'f'


# ---------------------------------------------------------------- generators
def secret_pool(rng, n_random):
    out = []
    for lz in range(0, 9):                                   # 0..8 leading zero bytes
        for _ in range(2):
            body = bytes([rng.randrange(1, 256)]) + bytes(rng.randrange(256) for _ in range(31 - lz))
            out.append(b'\0' * lz + body)
    out.append((1).to_bytes(32, 'big'))
    out.append((N - 1).to_bytes(32, 'big'))
    out.append(b'\0' * 31 + b'\x02')
    for last in (b'\x01', b'\x00', b'\x01\x01'):              # secrets whose tail looks like the compression marker
        for _ in range(3):
            out.append(bytes([rng.randrange(1, 200)]) + bytes(rng.randrange(256) for _ in range(31 - len(last))) + last)
    out.append(b'\x02' + bytes(rng.randrange(256) for _ in range(30)) + b'\x01')   # looks like a public key + 01
    out.append(b'\x04' + bytes(rng.randrange(256) for _ in range(31)))
    for _ in range(n_random):
        out.append(rng.randrange(1, N).to_bytes(32, 'big'))
    return [(s, ) + pubs(int.from_bytes(s, 'big')) for s in out]


def km_tokens(priv, sec, pubc, pubu, comp, chain, depth, fp, child, net, wt, ms):
    return ' '.join([tfs(priv), hx(sec) if priv else '-', hx(pubc), hx(pubu), tfs(comp), hx(chain), str(depth), hx(fp),
                     str(child), net, wt, tfs(ms)])


DEPTHS = [0, 1, 2, 3, 5, 127, 128, 254, 255]
CHILDREN = [0, 1, 2 ** 31 - 1, 2 ** 31, 2 ** 31 + 1, 2 ** 32 - 1, 0x01000000, 0x00ffffff]


def gen_cases(rng, tier):
    big = tier == 'thorough'
    cs = []
    nets = list(table().keys())
    pool = secret_pool(rng, 300 if big else 30)

    def add(kind, req):
        cs.append(Case(kind, req))

    # --- A. tables: Network.wif_prefix, wif_prefix_search, network_by_value — exhaustive
    for n in nets:
        for priv in (True, False):
            for wt in WTS + ['taproot']:
                for ms in (False, True):
                    add('prefix', 'prefix %s %s %s %s' % (n, tfs(priv), wt, tfs(ms)))
    for p in hd_prefixes() + ['0488B21F', '00000000', 'FFFFFFFF', '0488B2', '80']:
        for wt in ['-'] + WTS:
            for ms in 'ntf':
                for nw in ['-'] + nets:
                    add('wps', 'wps %s %s %s %s' % (p.lower(), wt, ms, nw))
    for v in range(256):
        add('nbw', 'nbw %02x' % v)

    # --- B. WIF round trips: every network x compressed x (a slice of) the pool x import path x hint
    for ni, n in enumerate(nets):
        others = [nets[(ni + 1) % len(nets)], 'bitcoin', 'litecoin']
        for si, (sec, pubc, pubu) in enumerate(pool):
            if not big and si % 8 != ni % 8:
                continue
            for comp in (True, False):
                hints = ['-', n] + ([others[si % 3]] if si % 4 == 0 else [])
                for hint in hints:
                    vias = ['key %s t n' % hint, 'hdkey %s - f t' % hint]
                    if si % 7 == 0:
                        vias += ['key %s f t' % hint, 'fromwif %s n t' % hint]
                    for v in vias:
                        chain = '-' if (si + len(cs)) % 2 else hx(b'\x07' * 32)      # '-' : exported by Key, else by HDKey.wif_key
                        km = ' '.join([tfs(True), hx(sec), hx(pubc), hx(pubu), tfs(comp), chain, '0', '00000000', '0', n,
                                       'legacy', 'f'])
                        add('rtwif', 'rtwif %s %s' % (km, v))
    # public keys have no WIF
    sec, pubc, pubu = pool[0]
    add('rtwif', 'rtwif %s key - t n' % km_tokens(False, sec, pubc, pubu, True, b'\1' * 32, 0, b'\0' * 4, 0, 'bitcoin', 'legacy', False))

    # --- C. extended keys: every table row x exported form x import path x hint configuration
    k = 0
    combos = []
    for n in nets:
        for wt in WTS:
            for ms in (False, True):
                for priv in (True, False):
                    for which in (('prv', 'pub', 'wif') if priv else ('pub', 'prv')):
                        combos.append((n, wt, ms, priv, which))
    reps = 12 if big else 1
    for rep in range(reps):
        for (n, wt, ms, priv, which) in combos:
            for via in ('hdkey', 'fromwif'):
                for hc in range(4):
                    k += 1
                    sec, pubc, pubu = pool[(k * 7 + rep) % len(pool)]
                    depth = DEPTHS[k % len(DEPTHS)] if k % 3 else rng.randrange(256)
                    child = CHILDREN[k % len(CHILDREN)] if k % 2 else rng.randrange(2 ** 32)
                    fp = bytes(rng.randrange(256) for _ in range(4)) if k % 5 else b'\0' * 4
                    chain = bytes(rng.randrange(256) for _ in range(32)) if k % 6 else b'\0' * 31 + b'\1'
                    comp = True
                    km = km_tokens(priv, sec, pubc, pubu, comp, chain, depth, fp, child, n, wt, ms)
                    if via == 'hdkey':
                        imp = ['hdkey - - f t', 'hdkey %s - f t' % n, 'hdkey %s %s %s t' % (n, wt, tfs(ms)),
                               'hdkey - %s %s t' % (wt, tfs(ms))][hc]
                    else:
                        imp = ['fromwif - n t', 'fromwif %s n t' % n, 'fromwif %s %s t' % (n, tfs(ms)),
                               'fromwif - %s t' % tfs(ms)][hc]
                    add('rtx', 'rtx %s %s %s' % (which, km, imp))
    # every depth, every boundary child, on two rows
    sec, pubc, pubu = pool[3]
    for d in range(256):
        if big or d % 2 == 0:
            km = km_tokens(True, sec, pubc, pubu, True, b'\x5a' * 32, d, b'\1\2\3\4', CHILDREN[d % len(CHILDREN)], 'bitcoin', 'segwit', False)
            add('rtx', 'rtx prv %s hdkey - - f t' % km)
        if big or d % 2 == 1:
            km = km_tokens(False, sec, pubc, pubu, True, b'\xa5' * 32, d, b'\xff' * 4, CHILDREN[(d + 3) % len(CHILDREN)], 'testnet', 'p2sh-segwit', True)
            add('rtx', 'rtx pub %s fromwif testnet n t' % km)
    # out-of-range depth / child, foreign hint, uncompressed HD keys (BIP32 has no uncompressed form)
    for d, c in ((256, 0), (-1, 0), (0, 2 ** 32), (0, -1)):
        add('rtx', 'rtx prv %s hdkey - - f t' % km_tokens(True, sec, pubc, pubu, True, b'\1' * 32, d, b'\0' * 4, c, 'bitcoin', 'legacy', False))
    for n in nets:
        km = km_tokens(True, sec, pubc, pubu, True, b'\1' * 32, 1, b'\0' * 4, 5, n, 'legacy', False)
        for h in ('bitcoin', 'litecoin', 'dogecoin_testnet', 'nonexistent'):
            add('rtx', 'rtx prv %s hdkey %s - f t' % (km, h))
            add('rtx', 'rtx pub %s fromwif %s n t' % (km, h))
    for si in range(0, len(pool), 5):
        sec, pubc, pubu = pool[si]
        for priv in (True, False):
            for which in ('prv', 'pub'):
                for imp in ('hdkey - - f t', 'hdkey - - f f', 'fromwif - n f'):
                    km = km_tokens(priv, sec, pubc, pubu, False, b'\2' * 32, 2, b'\0' * 4, 7, 'bitcoin', 'legacy', False)
                    add('rtx_uncompressed', 'rtx %s %s %s' % (which, km, imp))

    # --- D. raw forms through Key and HDKey
    for si, (sec, pubc, pubu) in enumerate(pool):
        v = int.from_bytes(sec, 'big')
        forms = [('i:%d' % v), 'b:' + hx(sec), stok(sec.hex()), 'b:' + hx(pubc), 'b:' + hx(pubu), stok(pubc.hex()), stok(pubu.hex()),
                 stok(sec.hex() + '01'), 'b:' + hx(sec + b'\1'), stok(sec.hex().upper())]
        if 70 < len(str(v)) < 78:
            forms.append(stok(str(v)))
        for fi, f in enumerate(forms):
            for hint in (['-', 'testnet'] if si % 2 else ['-']):
                for comp in ('t', 'f'):
                    ips = 'n' if (si + fi) % 3 else 'ntf'
                    for ip in ips:
                        add('key_raw', 'key %s %s %s %s' % (f, hint, comp, ip))
                    add('hdkey_raw', 'hdkey %s %s - f %s' % (f, hint, comp))
            for ip in 'ntf':
                add('gkf_raw', 'gkf %s %s' % (f, ip))

    # secrets outside 1 .. n-1 and public keys that are not curve points (refused since the C04 repairs)
    for v in (0, N, N + 1, 2 ** 256 - 1):
        sb = v.to_bytes(32, 'big')
        for f in ('i:%d' % v, 'b:' + hx(sb), stok(sb.hex()), stok(sb.hex() + '01'), 'b:' + hx(sb + b'\1')):
            for hint in ('-', 'testnet'):
                add('key_range', 'key %s %s t n' % (f, hint))
                add('hdkey_range', 'hdkey %s %s - f t' % (f, hint))
        for ver in (b'\x80', b'\xef'):
            for fl in (b'', b'\1'):
                w = b58check(ver + sb + fl)
                add('key_range', 'key %s - t n' % stok(w))
                add('hdkey_range', 'hdkey %s - - f t' % stok(w))
        xp = b58check(bytes.fromhex('0488ade4') + b'\0' * 9 + b'\x11' * 32 + b'\0' + sb)
        add('hdkey_range', 'hdkey %s - - f t' % stok(xp))
        add('hdkey_range', 'fromwif %s - n t' % hx(xp.encode()))
        sec0, pubc0, pubu0 = pool[0]
        add('rt_range', 'rtwif %s key - t n' % km_tokens(True, sb, pubc0, pubu0, True, b'\1' * 32, 0, b'\0' * 4, 0, 'bitcoin', 'legacy', False))
        add('rt_range', 'rtx prv %s hdkey - - f t' % km_tokens(True, sb, pubc0, pubu0, True, b'\1' * 32, 0, b'\0' * 4, 0, 'bitcoin', 'legacy', False))
    for _ in range(60 if big else 20):
        xb = bytes(rng.randrange(256) for _ in range(32))
        yb = bytes(rng.randrange(256) for _ in range(32))
        for pk in (b'\x02' + xb, b'\x03' + xb, b'\x04' + xb + yb, b'\x04' + xb, b'\x02' + xb + yb, b'\x02' + b'\xff' * 32):
            add('key_offcurve', 'key b:%s - t n' % hx(pk))
            add('key_offcurve', 'key %s - t n' % stok(pk.hex()))
            if len(pk) == 33:
                xp = b58check(bytes.fromhex('0488b21e') + b'\0' * 9 + b'\x11' * 32 + pk)
                add('hdkey_offcurve', 'hdkey %s - - f t' % stok(xp))
                add('hdkey_offcurve', 'fromwif %s - n t' % hx(xp.encode()))
    sec0, pubc0, pubu0 = pool[1]
    bad = b'\x02' + b'\xff' * 32
    add('rt_range', 'rtx pub %s hdkey - - f t' % km_tokens(False, sec0, bad, pubu0, True, b'\1' * 32, 0, b'\0' * 4, 0, 'bitcoin', 'legacy', False))

    # --- E. classification of well-formed and damaged self-describing strings
    def mutate(s):
        i = rng.randrange(len(s))
        m = rng.randrange(4)
        alpha = B58
        if m == 0:
            return s[:i] + rng.choice(alpha) + s[i + 1:]
        if m == 1:
            return s[:i] + s[i + 1:]
        if m == 2:
            return s[:i] + rng.choice(alpha) + s[i:]
        return s[:i] + rng.choice('0l+/ ') + s[i + 1:]

    strs = []
    for (n, p, priv, ms, wt) in rows():
        sec, pubc, pubu = pool[rng.randrange(len(pool))]
        body = bytes.fromhex(p) + bytes([rng.randrange(256)]) + bytes(rng.randrange(256) for _ in range(8 + 32)) + \
            ((b'\0' + sec) if priv else pubc)
        strs.append(b58check(body))
    for n in nets:
        ver = bytes.fromhex(table()[n]['prefix_wif'])
        for si in range(0, len(pool), 4):
            strs.append(b58check(ver + pool[si][0]))
            strs.append(b58check(ver + pool[si][0] + b'\1'))
    for s in strs:
        for ip in 'ntf':
            add('gkf_str', 'gkf %s %s' % (stok(s), ip))
        for _ in range(3 if big else 1):
            m = mutate(s)
            add('gkf_mut', 'gkf %s n' % stok(m))
            add('key_mut', 'key %s - t n' % stok(m))
            add('hdkey_mut', 'hdkey %s - - f t' % stok(m))
    # BIP38-shaped, length-triggered and decimal strings
    for _ in range(200 if big else 40):
        s6 = '6P' + ''.join(rng.choice(B58) for _ in range(56))
        add('gkf_6p', 'gkf %s %s' % (stok(s6), rng.choice('ntf')))
    payload = bytes.fromhex('0142e0') + bytes(rng.randrange(256) for _ in range(36))
    add('gkf_6p', 'gkf %s n' % stok(b58check(payload)))
    payload = bytes.fromhex('0143') + bytes(rng.randrange(256) for _ in range(37))
    add('gkf_6p', 'gkf %s f' % stok(b58check(payload)))
    for ln in (1, 2, 7, 8, 50, 51, 52, 53, 57, 58, 59, 64, 66, 110, 111, 112, 113, 128, 130):
        for _ in range(6 if big else 2):
            s = ''.join(rng.choice(B58) for _ in range(ln))
            for ip in 'ntf':
                add('gkf_len', 'gkf %s %s' % (stok(s), ip))
    for ln in range(68, 81):
        s = str(rng.randrange(10 ** (ln - 1), 10 ** ln))
        add('gkf_dec', 'gkf %s n' % stok(s))
        s = ''.join(rng.choice('123456789') for _ in range(ln))
        add('gkf_dec', 'gkf %s n' % stok(s))
    for s in ('abandon abandon about', 'a b', ' ', '0', '04', 'xprv', 'Ltpv'):
        add('gkf_misc', 'gkf %s n' % stok(s))
    add('gkf_misc', 'gkf s:- n')
    add('gkf_misc', 'gkf b:- n')
    add('gkf_misc', 'gkf i:0 n')
    return cs


def on_curve(b):
    """numeric part of Key.__init__'s strict point test on public key bytes (the model's curve_ok oracle):
    x < p, and for 65 bytes y < p with y^2 = x^3 + 7, for 33 bytes x^3 + 7 a square"""
    if len(b) not in (33, 65):
        return True
    x = int.from_bytes(b[1:33], 'big')
    if x >= P:
        return False
    y2 = (pow(x, 3, P) + 7) % P
    if len(b) == 65:
        y = int.from_bytes(b[33:], 'big')
        return y < P and y * y % P == y2
    y = pow(y2, (P + 1) // 4, P)
    return y * y % P == y2


def submitted_public_key(t):
    """the one byte string a request can submit to the strict public-key test"""
    def of_text(s):
        if len(s) in (66, 130) and set(s) <= set('0123456789abcdefABCDEF'):
            return bytes.fromhex(s)
        b = b58dec(s)
        if b is not None and len(b) >= 78:
            return b[45:78]
        return None
    k = t[0]
    if k in ('key', 'hdkey'):
        if t[1].startswith('b:'):
            return unhx(t[1][2:])
        if t[1].startswith('s:'):
            return of_text(unhx(t[1][2:]).decode('latin-1'))
    elif k == 'fromwif':
        return of_text(unhx(t[1]).decode('latin-1'))
    elif k in ('rtwif', 'rtx'):
        m = t[1:13] if k == 'rtwif' else t[2:14]
        if m[0] == 'f':
            return unhx(m[2]) if m[4] == 't' else unhx(m[3])
    return None


def model_req(c):
    b = submitted_public_key(c.req.split(' '))
    return FLAGS + ('t' if b is None or on_curve(b) else 'f') + ' ' + c.req


def same(c, impl_out, model_out):
    return impl_out == model_out or 'UNMODELLED' in model_out


def is_trivial(c, out):
    return out.startswith(('ERR', 'NOKEY', 'EXPORT', 'BADREQ', 'CRASH', '-'))


# ---------------------------------------------------------------- property-level verdict on the implementation
def parse_kv(part):
    d = {}
    for t in part.split(' '):
        if '=' in t:
            a, b = t.split('=', 1)
            d[a] = b
    return d


def unhx(s):
    return b'' if s == '-' else bytes.fromhex(s)


def classify_string(s):
    """What a self-describing string is according to the encodings' definitions: ('wif'|'xprv'|'xpub'|'bip38', …) or None."""
    if len(s) == 58 and s[:2] == '6P':
        return ('bip38', True)
    b = b58dec(s)
    if b is None or len(b) < 5 or b58enc(b) != s or sha256d(b[:-4])[:4] != b[-4:]:
        return None
    body = b[:-4]
    if len(body) == 78:
        p = body[:4].hex().upper()
        flags = {priv for (_, q, priv, _, _) in rows() if q == p}
        if len(flags) == 1:
            priv = flags.pop()
            if priv == (body[45] == 0):
                return ('xprv' if priv else 'xpub', priv)
        return None
    if len(body) in (33, 34) and wif_networks(body[:1].hex()) and not any(q.startswith(body[:1].hex().upper()) for q in hd_prefixes()):
        if len(body) == 33 or body[-1] == 1:
            return ('wif', True)
    return None


def check_gkf_part(part, want_priv, want_fmts):
    if not part.startswith('OK '):
        return 'get_key_format does not recognise the exported string (%s)' % part
    d = parse_kv(part)
    if d.get('priv') != ('1' if want_priv else '0'):
        return 'get_key_format reports is_private=%s for %s material' % (d.get('priv'), 'private' if want_priv else 'public')
    if d.get('fmt') not in want_fmts:
        return 'get_key_format reports format %s, expected %s' % (d.get('fmt'), '/'.join(want_fmts))
    return None


def prop_check(c, out):
    if out.startswith('CRASH') or out == 'BADREQ':
        return 'unexpected answer %r' % out[:120]
    t = c.req.split(' ')
    k = t[0]
    if k == 'prefix':
        net, priv, wt, ms = t[1], t[2] == 't', t[3], t[4] == 't'
        exp = spec_row_prefix(net, priv, wt, ms)
        if exp is None:
            return None if out.startswith('ERR') else 'wif_prefix(%s) = %s although the table has no such row' % (' '.join(t[1:]), out)
        return None if out == exp.lower() else 'wif_prefix(%s) = %s, the table row says %s' % (' '.join(t[1:]), out, exp)
    if k == 'gkf':
        if not t[1].startswith('s:'):
            return None
        s = unhx(t[1][2:]).decode('latin-1')
        cl = classify_string(s)
        if cl is None:
            return None
        if not out.startswith('OK '):
            return None if cl[0] == 'bip38' and False else ('get_key_format rejects a well-formed %s string (%s)' % (cl[0], out))
        d = parse_kv(out)
        if d.get('priv') != ('1' if cl[1] else '0'):
            return 'get_key_format classifies a %s string as is_private=%s' % (cl[0], d.get('priv'))
        return None
    if k in ('key', 'hdkey'):
        return check_raw(t, out)
    if k == 'rtwif':
        return check_rtwif(t, out)
    if k == 'rtx':
        return check_rtx(t, out)
    return None


def check_raw(t, out):
    """Key(x) / HDKey(x) for x one of the library's own raw exports: secret (int), private_byte, private_hex,
    public_byte, public_hex."""
    tok, hint = t[1], t[2]
    comp = t[3] if t[0] == 'key' else t[5]
    ip = t[4] if t[0] == 'key' else 'n'
    kind, body = tok[0], tok[2:]
    want = None       # (is_private, key bytes, compressed or None when the form does not carry it)
    if kind == 'i':
        v = int(body)
        if 0 < v < N:
            want = (True, v.to_bytes(32, 'big'), comp == 't')
    elif kind == 'b':
        b = unhx(body)
        if len(b) == 32 and 0 < int.from_bytes(b, 'big') < N:
            want = (True, b, comp == 't')
        elif len(b) == 33 and b[0] in (2, 3) and on_curve(b):
            want = (False, b, True)
        elif len(b) == 65 and b[0] == 4 and on_curve(b):
            want = (False, b, False)
    else:
        s = unhx(body).decode('latin-1')
        hexdigits = set('0123456789abcdefABCDEF')
        if set(s) <= hexdigits:
            if len(s) == 64 and 0 < int(s, 16) < N:
                want = (True, bytes.fromhex(s), comp == 't')
            elif len(s) == 66 and s[:2] in ('02', '03') and on_curve(bytes.fromhex(s)):
                want = (False, bytes.fromhex(s), True)
            elif len(s) == 130 and s[:2] == '04' and on_curve(bytes.fromhex(s)):
                want = (False, bytes.fromhex(s), False)
    if want is None:
        return None
    if ip != 'n' and (ip == 't') != want[0]:
        return None                       # the caller contradicts the material: no claim
    if not out.startswith('OK '):
        if hint != '-' and hint not in table():
            return None
        return '%s of a raw %s export fails: %s' % (t[0], 'private' if want[0] else 'public', out)
    d = parse_kv(out)
    if d['priv'] != ('1' if want[0] else '0'):
        return 'raw %s material imported with is_private=%s' % ('private' if want[0] else 'public', d['priv'])
    if unhx(d['key']) != want[1]:
        return 'raw import yields key %s, exported %s' % (d['key'], want[1].hex())
    if d['comp'] != ('1' if want[2] else '0'):
        return 'raw import yields compressed=%s, expected %s' % (d['comp'], want[2])
    if hint != '-' and d['net'] != hint:
        return 'raw import with network=%s yields network %s' % (hint, d['net'])
    return None


def split_answer(out):
    parts = out.split(' | ')
    if len(parts) != 3 or not parts[0].startswith('X='):
        return None
    return parts[0][2:], parts[1], parts[2]


def check_rtwif(t, out):
    priv, sec, comp, net = t[1] == 't', unhx(t[2]), t[5] == 't', t[10]
    via, args = t[13], t[14:]
    if out.startswith('EXPORT'):
        return None if (not priv or not 0 < int.from_bytes(sec, 'big') < N) else 'wif() of a private key fails: ' + out
    if not priv:
        return 'wif() of a public key returns ' + out[:60]
    sp = split_answer(out)
    if sp is None:
        return 'unexpected answer %r' % out[:120]
    x, g, imp = sp
    ver = bytes.fromhex(table()[net]['prefix_wif'])
    exp = b58check(ver + sec + (b'\1' if comp else b''))
    if x != exp:
        return 'wif() = %s, Base58Check(version || secret || flag) = %s' % (x, exp)
    r = check_gkf_part(g, True, ['wif_compressed'] if comp else ['wif'])
    if r:
        return r
    if via == 'fromwif':
        return None if not imp.startswith('OK ') else 'HDKey.from_wif accepts a plain WIF'
    hint = args[0]
    cands = wif_networks(ver.hex())
    if not imp.startswith('OK '):
        if imp == 'ERR ambiguous' and hint == '-' and len(cands) > 1:
            return None            # refusal to guess among networks sharing the version byte
        if hint != '-' and hint not in cands:
            return None            # foreign or unknown network supplied
        return 'import of an exported WIF fails: ' + imp
    d = parse_kv(imp)
    if d['priv'] != '1':
        return 'WIF imported as a public key'
    if unhx(d['key']) != sec:
        return 'WIF import yields secret %s, exported %s' % (d['key'], sec.hex())
    if d['comp'] != ('1' if comp else '0'):
        return 'WIF import yields compressed=%s, exported %s' % (d['comp'], comp)
    if hint != '-':
        if d['net'] != hint:
            return 'WIF import with network=%s yields %s' % (hint, d['net'])
    elif d['net'] not in cands or (len(cands) == 1 and d['net'] != net):
        return 'WIF import yields network %s, version byte belongs to %s' % (d['net'], cands)
    return None


def check_rtx(t, out):
    which = t[1]
    priv, sec, pubc, pubu, comp = t[2] == 't', unhx(t[3]), unhx(t[4]), unhx(t[5]), t[6] == 't'
    chain, depth, fp, child, net, wt, ms = unhx(t[7]), int(t[8]), unhx(t[9]), int(t[10]), t[11], t[12], t[13] == 't'
    via, args = t[14], t[15:]
    as_priv = priv and which == 'prv'
    prefix = spec_row_prefix(net, as_priv, wt, ms)
    in_range = 0 <= depth < 256 and 0 <= child < 2 ** 32
    if out.startswith('EXPORT'):
        valid_key = (0 < int.from_bytes(sec, 'big') < N) if priv else \
            (on_curve(pubc if comp else pubu) and (pubc if comp else pubu)[:1] in ((b'\x02', b'\x03') if comp else (b'\x04',)))
        return None if (prefix is None or not in_range or not valid_key) else 'export of a representable extended key fails: ' + out
    sp = split_answer(out)
    if sp is None:
        return 'unexpected answer %r' % out[:120]
    x, g, imp = sp
    if prefix is None or not in_range:
        return None
    r = check_gkf_part(g, as_priv, ['hdkey_private'] if as_priv else ['hdkey_public'])
    if r:
        return r
    same_prefix = [(n, m, w) for (n, p, pr, m, w) in rows() if p == prefix]
    cand_nets = list(dict.fromkeys(n for n, _, _ in same_prefix))
    hint = args[0]
    if not imp.startswith('OK '):
        if imp == 'ERR ambiguous' and hint == '-' and len(cand_nets) > 1:
            return None
        if hint != '-' and hint not in cand_nets:
            return None
        return 'import of an exported extended key fails: ' + imp
    d = parse_kv(imp)
    if d['priv'] != ('1' if as_priv else '0'):
        return 'extended %s key imported with is_private=%s' % ('private' if as_priv else 'public', d['priv'])
    got = unhx(d['key'])
    if as_priv:
        if got != sec:
            return 'extended key import yields secret %s, exported %s' % (d['key'], sec.hex())
    elif got not in (pubc, pubu):
        return 'extended key import yields public key %s, exported point %s' % (d['key'][:24] + '..', pubc.hex()[:24] + '..')
    if unhx(d['chain']) != chain or int(d['depth']) != depth or unhx(d['fp']) != fp or int(d['child']) != child:
        return 'extended key import changes chain/depth/fingerprint/child: %s' % imp[:200]
    comp_hint = args[-1] == 't'
    if d['comp'] != ('1' if comp else '0'):
        return 'extended key import yields compressed=%s, exported key had %s' % (d['comp'], comp)
    if hint != '-':
        if d['net'] != hint:
            return 'import with network=%s yields %s' % (hint, d['net'])
    elif d['net'] not in cand_nets or (len(cand_nets) == 1 and d['net'] != net):
        return 'import yields network %s, prefix belongs to %s' % (d['net'], cand_nets)
    cand_wt = list(dict.fromkeys(w for _, _, w in same_prefix))
    cand_ms = list(dict.fromkeys(m for _, m, _ in same_prefix))
    wt_supplied = via == 'hdkey' and args[1] != '-'
    if wt_supplied:
        if d['wt'] != args[1]:
            return 'import with witness_type=%s yields %s' % (args[1], d['wt'])
    elif d['wt'] not in cand_wt or (len(cand_wt) == 1 and d['wt'] != wt):
        return 'import yields witness type %s, prefix stands for %s' % (d['wt'], cand_wt)
    msarg = args[2] if via == 'hdkey' else args[1]
    got_ms = d['ms'] == '1'
    if len(cand_ms) == 1:
        if got_ms != ms:
            return 'import yields multisig=%s, prefix stands for %s' % (got_ms, cand_ms)
    elif msarg == 't' and not got_ms:
        return 'import with multisig=True yields multisig=False'
    return None


def _uncompressed_hd(c, io, mo):
    """an uncompressed key sent through the extended-key format, and nothing but the compression flag is lost"""
    t = c.req.split(' ')
    if not (t[0] == 'rtx' and t[6] == 'f'):
        return False
    t2 = list(t)
    t2[6] = 't'
    return check_rtx(t2, io) is None


KNOWN_CLASSES = {
    'xkey_uncompressed_flag': _uncompressed_hd,
}


def reproduce_known(entry, rundir):
    from core import run_impl
    rc, out, err = run_impl(IMPL, [entry['witness']['request']], rundir)
    return len(out) == 1 and out[0] == entry['witness']['impl_answer']
