"""C16 — public views and default exports never contain private key material.

Proof side: Model/PublicView.v (object-state machine of Key / HDKey / WalletKey attribute contents, exports, the
database column model, and the WALLET level: configurations = depth / privacy of the main key, plain or cosigner
wallets of a multisig wallet; histories on the wallet and its cached key objects; public_master() / wif() as the
interpreted path tables of the source), tied to keys.py / wallets.py / db.py by translator/gen_fields.py ->
Gen/GenFields.v and Glue/FieldsGlue.v.  Correspondence side (TESTING, labelled so): taint differential + scan on
real objects."""
import json, os, re
from core import Case, REPO, load_known

PROP = 'C16'
COQ_FILES = ['Extract/C16.v', 'Glue/FieldsGlue.v', 'Properties/C16.v']
DRIVER = 'c16'
IMPL = 'harness/impl/c16_impl.py'
ALLOWED_AXIOMS = []
IMPL_TIMEOUT = 3400
ASSUMPTIONS = [
    'theorems are about coq/Model/PublicView.v: attribute contents abstracted to Absent/None/public/secret; every '
    'method is a small program over attributes; public() is the regenerated assignment list interpreted',
    'tie to /repo (1): translator/gen_fields.py regenerates attribute sets, public() assignment lists, as_dict / '
    'repr sources, DbKey columns + encrypted columns + every write to a DbKey row from the AST on each run; '
    'Glue/FieldsGlue.v proves the model tables equal them',
    'tie to /repo (2): taint differential — after every step of random method histories the populated / secret-'
    'bearing attributes of the real object (found by scanning each value for every encoding of the secret) equal '
    'the model state; the return value of each method is scanned and compared with the model export taint',
    'wallet level: Wallet.public_master / Wallet.wif are the regenerated path tables (every path through the method '
    'body that ends in a return: tests with polarity + statements) interpreted fail-closed (unknown test: may hold '
    'either way; unknown body: returns the main key as it is); wallet_public_view_clean holds for every configuration '
    '(private master / PRIVATE or public account-level / single main key, plain or as cosigner wallets of a multisig '
    'wallet) and every history; bodies of HDKey.public_master, WalletKey.key, as_json and the argument lists (defaults '
    'as_private=False, is_private=False, include_private=False) of every view / export entry point are frozen in the '
    'model and compared with the regenerated ones (wallet_methods_glue)',
    'view entry points called WITH ARGUMENTS: an argument value is abstracted to its Python truth value (None / bool / int '
    '/ str / unknown); HDKey.public_master is the regenerated return-path table interpreted over the argument environment; '
    'HDKey.public_master_multisig and HDKey.wif_public are the regenerated keyword -> argument mapping of their forwarding '
    'call (call_forwards: positional arguments resolved to the callee\'s parameter names) interpreted fail-closed (missing '
    'row / unreadable argument expression / unknown body = request for the private key); public_master_args_clean, '
    'public_master_multisig_clean, wif_public_args_clean, hd_wif_args_clean, wallet_public_master_args_clean hold for ALL '
    'values of the arguments that do not ask for private output; which parameter NAMES ask for private output is a frozen '
    'list (as_private, include_private, is_private) and view_entry_points_glue stops checking when a public-named function '
    'appears or an entry point gains a parameter whose name is in neither reviewed list; the body of HDKey.wif is frozen '
    'text (its reading in the model is by hand)',
    'wallet differential: after every step of a wallet history the attribute codes of wallet.main_key (of every '
    'cosigner wallet) and of every WalletKey handed out by public_master(as_private=..) / main_key.public(), and the '
    'taint of wif / as_dict / as_json / info / repr / key() output, equal the wallet model; get_key / new_key / '
    'new_account / import_key / signing are made definite by parsing the cached main and account key objects '
    'afterwards (LOther)',
    'scan needles: raw 32 bytes (both byte orders), hex, decimal, WIF compressed / uncompressed and extended private '
    'key for the UNION of a frozen list of version bytes (chainparams / SLIP-0132, in c16_impl.py) and the table the '
    'library has loaded, chain||key forms, every base58 token that decodes to bytes containing a secret exponent, '
    'and the BIP38 string returned by an earlier encrypt(); BIP32 master / BIP39 seed are recomputed with hashlib',
    'one-way steps are assumptions of the model (EDeclass / construction of public attributes from the secret): EC '
    'multiplication, HDKey.public() of the nested key inside WalletKey.public(), BIP38 encryption',
    'PARTIAL: Python object graph, pickle, deepcopy, sqlite file layout and SQLAlchemy are runtime; they are covered '
    'by the scan (pickle bytes, deepcopy + attribute walk, as_dict/as_json/repr/str/info output, raw database file '
    'bytes with DB_FIELD_ENCRYPTION_KEY set), which is testing, not proof',
    'database handles (session, ORM rows: WalletKey.session / .wallet / ._dbkey, Wallet._session) are not followed: '
    'a public WalletKey still references the live database session of its wallet',
    'PATH requests: HDKey.subkey_for_path is a view entry point by the VALUE of its path argument; its body and argument list '
    'are frozen in Model/PublicViewPaths.v (compared with the regenerated ones: subkey_for_path_source_glue) and read by hand '
    'as [sfp] (start of path, then one derivation per level); public_path_view_clean / public_key_paths_clean hold for every '
    'number of levels; the differential side is scan-only (pvk requests)',
    'database rows as text: the presentation methods (__repr__, __str__, ... ) of EVERY class of db.py are frozen '
    '(database_rows_text_glue); default exports after relationships were loaded are covered by the scan only (rel requests): '
    'a row object met inside an exported value is not followed, its repr / str is scanned',
    'truthiness corner cases (secret == 0, _x == 0) are outside the model; multisig WalletKeys are scanned, not modelled; '
    'HDKey.address() of an uncompressed key with bech32 encoding raises and is kept out of the histories',
]
RULE = ('corpus histories ([Wif;Public] etc. for Key and HDKey on every network) first, then seeded random method '
        'histories of length 0..10 (0..12 thorough) over every key kind (private / public, compressed / uncompressed, '
        'point / bytes / hex / WIF / extended-key import, HD master / child / public-only) and every network of '
        'networks.json, HD keys also of type single / multisig / p2sh-segwit / already at account depth, WIF with '
        'explicit foreign version bytes, public_master with account / multisig / witness-type arguments; WalletKey '
        'histories on private, watch-only and address-only wallet keys; wallet-level export '
        'scans for private / legacy / single-key / watch-only / multisig wallets; raw sqlite file scan with and '
        'without DB_FIELD_ENCRYPTION_KEY / _PASSWORD (the run without key is the sensitivity control: the scan must '
        'FIND the keys), also with account-level private, multisig and single-key wallets in the file on further '
        'networks / witness types; wallet CONFIGURATIONS (main key = private master | PRIVATE account key | public '
        'account key | single private | single public; multisig wallets whose 2-3 cosigner wallets are any of these, '
        'own key private or public; passphrase+password; keys given as objects or WIF strings; watch-only wallet with '
        'the private master imported later; every witness type; every network) x HISTORIES (key() parses, wif_private '
        '/ wif_key(prefix) / encrypt of the main key, wif(is_private=True), public_master(as_private=True), '
        'as_dict/as_json(include_private=True), info, get_key / new_key / new_account / other network / other witness '
        'type / import_key, signing, closing and reopening, the same on each cosigner wallet) x EVERY public-view '
        'entry point (public_master() default / as_private=False / per account and network / explicit arguments / '
        'other witness types, its key() and public(), wif(), as_dict, as_json, info(0|3|5), repr, keys*(as_dict), '
        'addresslist, wallets_list, every WalletKey as_dict / repr / public(), account(), transactions, the same on '
        'every cosigner wallet) with a sensitivity control per wallet (the explicit private export must be found).  '
        'ARGUMENTS: key histories contain HDKey.public_master / public_master_multisig / wif_public / wif with random '
        'arguments (every witness type, multisig, accounts, purposes, prefixes, false and true forms of as_private / '
        'is_private), a fixed corpus of them for every witness type; wallet histories contain Wallet.public_master with '
        'arguments (name, account, witness type, false / true forms of as_private) on the wallet and its cosigner wallets; '
        'pvk / pvw requests call EVERY function that presents its result as public (enumerated from the source by '
        'translator/gen_fields.entry_point_params; reviewed by name in VIEW_ENTRIES / NOT_VIEWS, an unreviewed function or '
        'parameter is a failing case) with the full product of the reviewed values of its plain parameters (wallet level: '
        'every value once + a seeded sample in the quick tier, the full product in the thorough tier) plus the explicit '
        'false forms of the asks-for-private parameters, on a fresh copy of the source (master / cache-warm / multisig / '
        'account-depth HD keys, plain keys, every wallet configuration with warm caches, every cosigner wallet, wallet keys) '
        'and one after the other on ONE shared object; the result and everything reachable from it (attributes, pickle, '
        'deepcopy, every export, network_change copy, nested key of a WalletKey) is scanned for every encoding of the source '
        'secret and of every private key on the derivation path of the call (derived here with hmac/hashlib from BIP32 and '
        'the frozen BIP44/45/48/49/84 path shapes, and by the library with as_private=True); sensitivity control per entry '
        'point: the same call asking for private output must be found.  '
        'PATHS: HDKey.subkey_for_path with every spelling of a public path (M, [M], M/, M/0, M/0/1, list forms, three levels, '
        'with and without network) on master / cache-warm / multisig / account-depth private keys (fresh copy and one shared '
        'object), and these plus relative and m-paths on public copies (cold, cache-warm) and on the public master; the '
        'private keys of every level of the path are derived from the private twin and searched for; control: the private '
        'path m/0 must be found.  prefix= as hex text and as bytes on every wif-style export.  '
        'RELATIONSHIPS: rel requests - wallet configurations holding private keys (multisig with private cosigner keys, '
        'single-signature) x loader histories (WalletKey.key() of multisig keys, transaction creation / signing, keys(), '
        'multisig_children / multisig_parents / every relationship of every key row, one level deeper, info, public_master) '
        'x every default export after every loader with the loader repeated right before it (as_json, str(as_dict()), as_dict, '
        'keys*(as_dict=True) and their str / repr / json default=str forms, repr, transactions, get_key().as_dict(), '
        'addresslist, info), on the wallet and on every cosigner wallet; control: as_json(include_private=True) must be found.  '
        'A case is non-trivial when the adapter produced states (no CRASH); distinct by request')

N = 0xFFFFFFFFFFFFFFFFFFFFFFFFFFFFFFFEBAAEDCE6AF48A03BBFD25E8CD0364141
K_OPS = ['Wif', 'WifAlt', 'Address', 'AddressUnc', 'Hash160', 'UncHex', 'UncByte', 'Point', 'AsDict0', 'AsDict1', 'AsJson0',
         'AsJson1', 'Info', 'Repr', 'Str', 'Encrypt', 'Public', 'DeepCopy', 'Pickle']
H_OPS = [o for o in K_OPS if o != 'AddressUnc'] + ['HdWif0', 'HdWif1', 'Fingerprint', 'ChildPriv0', 'ChildPriv1',
                                                    'ChildPub', 'PublicMaster']
WK_OPS = ['Key', 'Public', 'AsDict0', 'AsDict1', 'Repr', 'Balance', 'Name']
# wallet histories: operations every wallet accepts / only wallets holding a private key / only bip32 wallets
WAL_OPS = ['MainKey', 'MainWif', 'SrcKey', 'MainPublic', 'Pm0', 'Pm1', 'PmKey', 'Wif0', 'Wif1', 'AsDict0', 'AsDict1',
           'AsJson0', 'AsJson1', 'Info', 'Repr', 'GetKey', 'Keys', 'Reopen']
WAL_COS_OPS = ['MainKey', 'MainWif', 'SrcKey', 'MainPublic', 'Pm0', 'Pm1', 'PmKey', 'Wif0', 'Wif1', 'AsDict0', 'AsDict1',
               'Info', 'Repr']
WAL_MULTI_TOP = ['SrcKey', 'Pm0', 'Pm1', 'PmKey', 'Wif0', 'Wif1', 'AsDict0', 'AsDict1', 'AsJson0', 'AsJson1', 'Info',
                 'Repr', 'GetKey', 'NewKey', 'Keys', 'Reopen']
WAL_PRIVATE_CONFS = ('master', 'acctprv', 'single')
SIMPLE_CONFS = ['master', 'acctprv', 'acctpub', 'single', 'singlepub']
MULTI_CONFS = ['ms:acctprv+acctpub:0', 'ms:acctpub+acctprv:1', 'ms:master+acctpub:0', 'ms:master+master:0',
               'ms:acctprv+acctprv+acctpub:1', 'ms:acctpub+acctpub:0', 'ms:single+singlepub:0',
               'ms:master+acctpub+single:2', 'ms:acctprv+master:1', 'ms:acctpub+acctpub+acctprv:2']
WITNESS_TYPES = ['legacy', 'p2sh-segwit', 'segwit']
# the private exports that warm every cache, then every view (the history of the missed public_master fast path
# is a prefix of it)
WAL_WARM = ['MainKey', 'MainWif', 'MainWifKey', 'Wif1', 'Pm1', 'SrcKey', 'AsDict1', 'AsJson1', 'Info', 'Pm0', 'PmKey',
            'Wif0', 'MainPublic', 'AsDict0', 'Repr', 'Reopen', 'Pm0', 'Wif1', 'Pm0', 'Pm1']
ESCALATE_CAP = 1200
# relative and private-looking paths: a view only when asked of a key WITHOUT private part (public copies, public master)
PATHS_ON_PUBLIC = ['s0', 's0/1', 'l0,1', 'sm', 'lm', 'sm/0', 'sm/0/5', 's3/2/1', 'l4']
PUBLIC_SOURCE_ENTRIES = ('HDKey.subkey_for_path', 'HDKey.child_public', 'HDKey.wif', 'HDKey.wif_public', 'HDKey.as_dict',
                         'HDKey.as_json', 'HDKey.public')
# loaders of the `rel` histories (what may load relationships of the database rows before the default exports are taken)
REL_LOADERS = ['none', 'getkey', 'keykey', 'wkeys', 'children', 'parents', 'allrel', 'deeprel', 'tx', 'sign', 'info', 'pm']

WK_HANDLE_POS = [1, 22, 24]      # _dbkey, session, wallet in the alphabetical WalletKey field list


def networks():
    d = json.load(open(os.path.join(REPO, 'bitcoinlib', 'data', 'networks.json'), encoding='utf8'))
    return list(d.keys())


def key_req(cls, kind, ops, secret, net, chain, fmt):
    return 'key %s %s %s %064x %s %s %s' % (cls, kind, ','.join(ops) or '-', secret, net, chain.hex(), fmt)


def gen_cases(rng, tier):
    big = tier == 'thorough'
    nets = networks()
    cs = []
    enc_budget = [300 if big else 24]

    def rsecret():
        return rng.randrange(1, N)

    def rchain():
        return bytes(rng.randrange(256) for _ in range(32))

    # ---- corpus: the histories of the fixed findings stay in every run
    corpus = [['Wif', 'WifAlt', 'Public'], ['WifAlt', 'Wif', 'WifAlt', 'Public', 'Pickle'], ['WifAlt', 'Public', 'DeepCopy'],
              ['Wif', 'Public'], ['Wif', 'Public', 'Pickle'], ['Wif', 'Public', 'DeepCopy', 'Wif'],
              ['Info', 'Public', 'DeepCopy'], ['AsDict1', 'Public'], ['AsJson1', 'Public', 'AsDict1'],
              ['Public'], [], ['Wif', 'Address', 'Public', 'Info', 'AsDict0', 'Repr', 'Str']]
    i = 0
    for cls in 'KH':
        for kind in ('priv1', 'priv0'):
            for ops in corpus:
                net = nets[i % len(nets)]
                i += 1
                fmt = 'decimal' if cls == 'K' else 'arg'
                cs.append(Case('corpus', key_req(cls, kind, ops, rsecret(), net, rchain(), fmt)))
    # every kind of HD key (single type, multisig, p2sh-segwit, a key that already sits at account depth) with warm caches
    for fmt in ('single', 'ms', 'p2sh', 'deep'):
        for ops in (['Wif', 'WifAlt', 'Public', 'Pickle'], ['Info', 'Public', 'DeepCopy', 'AsDict1'],
                    ['AsDict1', 'HdWif1', 'Wif', 'Public', 'Info']):
            net = nets[i % len(nets)]
            i += 1
            cs.append(Case('corpus', key_req('H', 'priv1', ops, rsecret(), net, rchain(), fmt)))
    for net in nets:
        cs.append(Case('corpus', key_req('H', 'priv1', ['Wif', 'HdWif1', 'PublicMaster', 'Pickle', 'Info'], rsecret(), net,
                                         rchain(), 'wif')))
        cs.append(Case('corpus', key_req('K', 'priv1', ['Wif', 'Public', 'Pickle'], rsecret(), net, rchain(), 'wif')))
    # public_master / public_master_multisig / wif_public / wif WITH ARGUMENTS inside histories (warm caches before,
    # pickle / exports after): every witness type, accounts, purposes, the multisig flag, false forms of as_private
    arg_corpus = []
    for wt in WITNESS_TYPES:
        arg_corpus += [['Wif', 'HdWif1', 'Pmm~witness_type=s' + wt, 'Pickle', 'Info', 'Hw~is_private=T'],
                       ['Info', 'Pm~witness_type=s%s~multisig=T~account_id=i1' % wt, 'DeepCopy', 'AsDict1', 'Wp~multisig=T'],
                       ['AsDict1', 'Pmm~account_id=i5~witness_type=s%s~as_private=F' % wt, 'Pickle', 'HdWif1'],
                       ['Pm~witness_type=s%s~as_private=N~purpose=i48' % wt, 'Wif', 'Info']]
    arg_corpus += [['Pmm~as_private=T', 'Wif', 'Public', 'Pickle'], ['Pm~as_private=i1~multisig=T', 'HdWif1', 'Pmm', 'Info'],
                   ['Hw', 'Hw~is_private=F~multisig=T', 'Wp~prefix=s0488ade4', 'Hw~is_private=T~witness_type=slegacy', 'Public',
                    'Hw~is_private=T'], ['Pmm', 'Pickle'], ['Pm~purpose=i45~multisig=T', 'Wp', 'Info', 'Pm']]
    for j, ops in enumerate(arg_corpus):
        cs.append(Case('corpus_args', key_req('H', 'priv1', ops, rsecret(), ['bitcoin', 'litecoin', 'testnet', 'bitcoinlib_test'][j % 4],
                                              rchain(), ['arg', 'wif', 'ms', 'bin'][j % 4])))
    eps = entry_points()
    HP = {h: [p for p, _ in eps[q]] for h, q in (('Pm', 'HDKey.public_master'), ('Pmm', 'HDKey.public_master_multisig'),
                                                 ('Wp', 'HDKey.wif_public'), ('Hw', 'HDKey.wif'))}
    # ---- random histories
    for _ in range(10000 if big else 400):
        cls = rng.choice('KH')
        if cls == 'K':
            kind = rng.choice(['priv1', 'priv1', 'priv0', 'priv0', 'point1', 'point0', 'pubu', 'pubc'])
            fmt = rng.choice(['decimal', 'hex', 'bin', 'wif']) if kind.startswith('priv') else rng.choice(['hex', 'bin'])
            pool = K_OPS
        else:
            kind = rng.choice(['priv1', 'priv1', 'priv1', 'priv0', 'pubc', 'pubu'])
            fmt = rng.choice(['arg', 'wif', 'bin']) if kind in ('priv1', 'pubc') else 'arg'
            if kind == 'priv1' and rng.random() < 0.4:
                fmt = rng.choice(['single', 'ms', 'p2sh', 'deep'])
            if kind == 'pubc' and fmt == 'bin':
                fmt = 'arg'
            pool = H_OPS
            if fmt == 'single':      # (the library refuses every derivation from a key of type 'single')
                pool = [o for o in H_OPS if o not in ('ChildPriv0', 'ChildPriv1', 'ChildPub', 'PublicMaster')]
        n = rng.randrange(0, 13 if big else 11)
        ops = []
        private = kind.startswith('priv')
        knet = rng.choice(nets)
        seg_ok = knet not in ('dogecoin', 'dogecoin_testnet', 'litecoin_legacy')
        for _ in range(n):
            o = rng.choice(pool)
            if rng.random() < 0.18:
                o = 'Public'
            if o == 'Encrypt':
                if enc_budget[0] <= 0:
                    o = 'Address'
                else:
                    enc_budget[0] -= 1
            if cls == 'H' and kind == 'priv1' and fmt != 'single' and rng.random() < 0.22:
                # an argument-carrying call (only on keys every witness type can be asked of: compressed, on a network
                # with segwit extended-key rows)
                h = rng.choice(['Pm', 'Pmm', 'Wp', 'Hw'])
                if h in ('Pm', 'Pmm') and not private:
                    h = 'Wp'
                pr = [p for p in HP[h] if p != 'child_index' and
                      (seg_ok or p in ('account_id', 'as_private', 'is_private'))]
                o = h + rand_args(rng, pr, 0.15)
                if h in ('Pm', 'Pmm') and not any(('%s=%s' % (a, v)) in o for a in ASKS_PRIVATE for v in ('T', 'i1', 'ssegwit')):
                    private = False
            if o == 'PublicMaster' and not private:
                o = 'ChildPub'
            if o in ('Public', 'ChildPub', 'PublicMaster'):
                private = False
            ops.append(o)
        cs.append(Case('key_' + cls + '_' + kind, key_req(cls, kind, ops, rsecret(), knet, rchain(), fmt)))
    # ---- WalletKey histories
    for j in range(600 if big else 36):
        kind = ['priv1', 'priv0', 'pub1', 'pub0', 'addr', 'priv1'][j % 6]
        ops = [rng.choice(WK_OPS) if rng.random() > 0.2 else 'Public' for _ in range(rng.randrange(0, 8))]
        if j < 6:
            ops = ['Repr', 'AsDict0', 'Public', 'Repr', 'Key', 'AsDict0'][:6 - (j % 2)]
        seed = bytes(rng.randrange(256) for _ in range(16)).hex()
        net = rng.choice(['bitcoinlib_test', 'bitcoin', 'litecoin', 'testnet'])
        cs.append(Case('wk_' + kind, 'wk %s %s %s %s' % (kind, ','.join(ops) or '-', seed, net)))
    # ---- wallet-level export scans
    for j, kind in enumerate(['private', 'legacy', 'single', 'watch', 'multisig'] * (8 if big else 2)):
        seed = bytes(rng.randrange(256) for _ in range(16)).hex()
        net = 'bitcoinlib_test' if j < 5 else rng.choice(nets)
        cs.append(Case('wallet_' + kind, 'wallet %s %s %s' % (kind, seed, net)))
    # ---- raw database file: sensitivity control without key, the claim with key / with password
    for j in range(6 if big else 2):
        seed = bytes(rng.randrange(256) for _ in range(16)).hex()
        net = 'bitcoinlib_test' if j % 2 == 0 else 'bitcoin'
        cs.append(Case('dbfile_plain', 'dbfile %s %s' % (seed, net)))
        cs.append(Case('dbfile_key', 'dbfile-enc key %s %s' % (seed, net)))
        cs.append(Case('dbfile_password', 'dbfile-enc password %s %s' % (seed, net)))
    # the same with further wallet configurations in the file (account-level private keys, multisig wallets holding
    # private keys at master / account depth, single keys) on other networks and witness types
    extra = 'acctprv,ms:acctprv+acctpub:0,ms:master+single:1,master'
    plan = [('dbfile_plain', 'dbfile', 'bitcoinlib_test', 'segwit'), ('dbfile_key', 'dbfile-enc key', 'litecoin_testnet', 'p2sh-segwit'),
            ('dbfile_password', 'dbfile-enc password', 'dogecoin', 'legacy')]
    if big:
        plan += [('dbfile_key', 'dbfile-enc key', n, w) for n, w in (('bitcoinlib_test', 'legacy'), ('litecoin', 'segwit'),
                                                                      ('bitcoin', 'p2sh-segwit'), ('regtest', 'segwit'))]
        plan += [('dbfile_password', 'dbfile-enc password', n, w) for n, w in (('bitcoinlib_test', 'segwit'),
                                                                                ('litecoin_legacy', 'legacy'))]
        plan += [('dbfile_plain', 'dbfile', 'litecoin', 'legacy')]
    for kind, head, net, wt in plan:
        seed = bytes(rng.randrange(256) for _ in range(16)).hex()
        cs.append(Case(kind, '%s %s %s %s %s' % (head, seed, net, extra, wt)))
    # ---- wallet configurations x histories x every public-view entry point
    cs += gen_wal_cases(rng, tier, nets)
    # ---- every function that presents its result as public x every combination of its (non-private-asking) arguments
    # (placed before the other wallet-level requests: they are the longest ones of the worker pool)
    pv = gen_pv_cases(rng, tier, nets)
    k = next((i for i, c in enumerate(cs) if c.req.split(' ')[0] in ('wk', 'wallet', 'dbfile', 'wal')), len(cs))
    return cs[:k] + pv + cs[k:]


def wal_wt(rng, net, wt=None):
    """dogecoin-style networks have no segwit extended-key rows: legacy wallets only."""
    if net in ('dogecoin', 'dogecoin_testnet'):
        return 'legacy'
    return wt or rng.choice(WITNESS_TYPES)


def wal_ops_ok(conf, net, ops):
    """drop the operations a configuration cannot perform (they raise before touching any key)."""
    out = []
    if conf.startswith('ms:'):
        cs = conf.split(':')[1].split('+')
        own = int(conf.split(':')[2])
        for o in ops:
            if '.' in o:
                i, b = int(o[1:o.index('.')]), o.split('.', 1)[1]
                if b.startswith('PmA'):
                    if i < len(cs):
                        out.append(o)
                    continue
                if i >= len(cs) or b not in WAL_COS_OPS + ['MainWifKey', 'MainEncrypt']:
                    continue
                if b in ('MainWifKey', 'MainEncrypt') and cs[i] not in WAL_PRIVATE_CONFS:
                    continue
            else:
                if o.startswith('PmA'):
                    out.append(o)
                    continue
                if o not in WAL_MULTI_TOP + ['Sign']:
                    continue
                if o == 'Sign' and not (net == 'bitcoinlib_test' and cs[own] in WAL_PRIVATE_CONFS):
                    continue
            out.append(o)
        return out
    for o in ops:
        if '.' in o:
            continue
        if o.startswith('PmA'):
            # another account / network / witness type can only be derived from a private master key
            if conf == 'master' or not any(a in o for a in ('account_id=i1', 'account_id=i5', 'network=', 'witness_type=')):
                out.append(o)
            continue
        if o in ('MainWifKey', 'MainEncrypt') and conf not in WAL_PRIVATE_CONFS:
            continue
        if o == 'NewKey' and conf in ('single', 'singlepub'):
            continue
        if o == 'Sign' and not (net == 'bitcoinlib_test' and conf in WAL_PRIVATE_CONFS):
            continue
        if o in ('NewAccount', 'NewKeyWt', 'NewKeyNet') and conf != 'master':
            continue
        if o == 'NewKeyWt' and net in ('dogecoin', 'dogecoin_testnet', 'litecoin_legacy'):
            continue
        if o == 'NewKeyNet' and net not in ('bitcoin', 'litecoin', 'bitcoinlib_test'):
            continue
        if o == 'ImportKey' and conf != 'master':
            continue
        out.append(o)
    return out


def wal_req(conf, ops, seed, net, wt, flags='-'):
    if 'i' in flags:
        # (reopening after import_master_key fails in the library: key_path is not stored)
        ops = [o for o in ops if o not in ('Reopen', 'NewAccount', 'NewKeyNet', 'NewKeyWt', 'ImportKey')]
    return 'wal %s %s %s %s %s %s' % (conf, ','.join(wal_ops_ok(conf, net, ops)) or '-', seed, net, wt, flags)


def gen_wal_cases(rng, tier, nets):
    big = tier == 'thorough'
    cs = []

    def rseed():
        return bytes(rng.randrange(256) for _ in range(16)).hex()

    # ---- corpus: every configuration with the cache-warming history followed by every view, every witness type
    i = 0
    for conf in SIMPLE_CONFS:
        for wt in WITNESS_TYPES:
            net = 'bitcoinlib_test' if i % 2 == 0 else nets[i % len(nets)]
            i += 1
            ops = WAL_WARM + (['Sign', 'Pm0'] if net == 'bitcoinlib_test' else [])
            # Wallet.public_master WITH ARGUMENTS: false forms of as_private, a name, another account, another witness type
            ops = ops + ['PmA~as_private=F~name=spmname', 'PmA~as_private=N', 'PmA~account_id=i1~as_private=i0',
                         'PmA~as_private=T', 'PmA~account_id=i0']
            if wal_wt(rng, net, wt) == wt and net not in ('litecoin_legacy',):
                ops.append('PmA~witness_type=s' + [x for x in WITNESS_TYPES if x != wt][i % 2])
            if wt == 'segwit' and conf in ('acctprv', 'single'):
                ops = ['MainEncrypt'] + ops
            cs.append(Case('wal_' + conf, wal_req(conf, ops, rseed(), net, wal_wt(rng, net, wt))))
    for conf in SIMPLE_CONFS:
        cs.append(Case('wal_' + conf, wal_req(conf, [], rseed(), 'bitcoin', WITNESS_TYPES[i % 3])))
        i += 1
    for j, conf in enumerate(MULTI_CONFS):
        n = len(conf.split(':')[1].split('+'))
        net = 'bitcoinlib_test' if j % 2 == 0 else nets[(3 * j) % len(nets)]
        ops = ['c%d.%s' % (k, o) for k in range(n) for o in ('MainKey', 'MainWif', 'MainWifKey')] + \
              ['Wif1', 'Pm1', 'SrcKey', 'AsDict1', 'Pm0', 'PmKey', 'Wif0', 'c0.Pm0', 'c1.Pm0', 'c0.MainPublic', 'Info',
               'AsDict0', 'Repr', 'Sign', 'Reopen', 'Pm0', 'c0.Pm0', 'c1.Pm0', 'Wif0', 'Pm1',
               'PmA~as_private=F~name=spmname', 'c0.PmA~as_private=N', 'c1.PmA~as_private=i0', 'PmA~as_private=T', 'PmA']
        cs.append(Case('wal_multisig', wal_req(conf, ops, rseed(), net, wal_wt(rng, net, WITNESS_TYPES[j % 3]))))
    cs.append(Case('wal_master', wal_req('master', ['Wif1', 'Pm0', 'Reopen', 'Pm0'], rseed(), 'litecoin', 'segwit', 'm')))
    cs.append(Case('wal_acctprv', wal_req('acctprv', ['Pm0', 'Wif0'], rseed(), 'testnet', 'p2sh-segwit', 'w')))
    cs.append(Case('wal_master', wal_req('master', ['MainKey', 'Wif1', 'Pm1', 'Pm0', 'Wif0', 'AsDict0', 'MainPublic'], rseed(),
                                          'bitcoin', 'segwit', 'i')))
    cs.append(Case('wal_master', wal_req('master', ['NewAccount', 'NewKeyNet', 'NewKeyWt', 'ImportKey', 'Wif1', 'Pm0', 'Keys',
                                                     'AsDict0', 'Info'], rseed(), 'bitcoin', 'segwit')))
    # ---- random configurations x histories
    for _ in range(600 if big else 80):
        multi = rng.random() < 0.35
        net = rng.choice(nets) if rng.random() < 0.6 else 'bitcoinlib_test'
        wt = wal_wt(rng, net)
        if multi:
            n = rng.choice([2, 2, 3])
            # (the library cannot mix single keys with HD keys of other cosigners unless the own key is the single one)
            fam = ['single', 'singlepub'] if rng.random() < 0.15 else ['master', 'acctprv', 'acctpub']
            parts = [rng.choice(fam) for _ in range(n)]
            own = rng.randrange(n)
            if rng.random() < 0.8:
                parts[own] = fam[0] if len(fam) == 2 else rng.choice(['master', 'acctprv', 'acctprv'])
            conf = 'ms:%s:%d' % ('+'.join(parts), own)
            pool = WAL_MULTI_TOP + ['Sign'] + ['c%d.%s' % (k, o) for k in range(n) for o in WAL_COS_OPS + ['MainWifKey']]
        else:
            conf = rng.choice(SIMPLE_CONFS + ['acctprv', 'acctprv'])
            pool = WAL_OPS + ['MainWifKey', 'NewKey', 'Sign', 'NewAccount', 'NewKeyNet', 'NewKeyWt', 'ImportKey']
        ops = []
        for _ in range(rng.randrange(0, 13 if big else 9)):
            ops.append(rng.choice(pool) if rng.random() > 0.25 else
                       rng.choice(['Pm0', 'Pm0', 'Wif0', 'PmKey', 'PmA~as_private=' + rng.choice(FALSY),
                                   'PmA~name=spmname~as_private=' + rng.choice(FALSY + ['T']), 'PmA~account_id=i1']))
        flags = '-'
        if not multi and conf == 'master' and rng.random() < 0.25:
            flags = 'i'
        elif not multi and conf == 'master' and rng.random() < 0.3:
            flags = 'm'
        elif rng.random() < 0.2:
            flags = 'w'
        elif multi and rng.random() < 0.2:
            flags = 'n'
        cs.append(Case('wal_' + ('multisig' if multi else conf), wal_req(conf, ops, rseed(), net, wt, flags)))
    return cs


# ------------------------------------------------------------------ EVERY view entry point x ARGUMENT combinations
# FROZEN review tables.  Which parameters exist is read from the source (translator/gen_fields.entry_point_params: the
# same enumeration Gen/GenFields.v entry_params is made from); what is done with them is decided here by NAME.
ASKS_PRIVATE = ('as_private', 'include_private', 'is_private')      # requests for private output: never set to true
FALSY = ['F', 'N', 'i0']
ARG_VALUES = {
    'account_id': ['N', 'i0', 'i1', 'i5'],
    'purpose': ['N', 'i44', 'i45', 'i48', 'i49', 'i84'],
    'multisig': ['N', 'F', 'T'],
    'witness_type': ['N', 'slegacy', 'sp2sh-segwit', 'ssegwit'],
    'prefix': ['N', 's0488b21e', 's04b24746', 's0488ade4', 'b0488b21e', 'b0488ade4'],
    # PATH requests: a path that starts with 'M' asks for the PUBLIC key of that position, in every spelling (text / list,
    # bare, trailing slash, one to three levels); asked of a key that still holds its private part
    'path': ['sM', 'lM', 'sM/', 'sM/0', 'sM/0/1', 'lM,0,1', 'sM/7/2/1', 'lM,3'],
    'child_index': ['N', 'i0', 'i7'],
    'name': ['N', 'spmname'],
    'network': ['N', '$other'],
    'detail': ['i0', 'i1', 'i2', 'i3', 'i4', 'i5'],
    'index': ['i0', 'i3'],
    'key_id': ['N'], 'change': ['N', 'i0', 'i1'], 'depth': ['N', 'i0', 'i3', 'i5'], 'used': ['N', 'F', 'T'],
    'has_balance': ['N', 'F'], 'is_active': ['N', 'T', 'F'],
    'as_dict': ['T'],                       # (the row objects returned without as_dict are database handles)
}
DEFAULT_TOKEN = {'None': 'N', 'False': 'F', 'True': 'T'}
# entry point -> the kind of object it is called on;  the others are reviewed as NOT presenting a public view
VIEW_ENTRIES = {
    'Key.public': 'k', 'Key.as_dict': 'k', 'Key.as_json': 'k', 'Key.public_uncompressed_hex': 'k',
    'Key.public_uncompressed_byte': 'k', 'Key.public_point': 'k',
    'HDKey.public': 'h', 'HDKey.as_dict': 'h', 'HDKey.as_json': 'h', 'HDKey.wif': 'h', 'HDKey.wif_public': 'h',
    'HDKey.public_master': 'h', 'HDKey.public_master_multisig': 'h', 'HDKey.child_public': 'h',
    'HDKey.subkey_for_path': 'h',        # (a view by the VALUE of `path`: 'M...'; C03's rule "M on a private key is the public key")
    'WalletKey.public': 'wk', 'WalletKey.as_dict': 'wk', 'WalletKey.keys_public': 'wk',
    'Wallet.public_master': 'w', 'Wallet.wif': 'w', 'Wallet.as_dict': 'w', 'Wallet.as_json': 'w', 'Wallet.info': 'w',
    'Wallet.keys': 'w',
}
NOT_VIEWS = {
    'Key.wif': 'the private WIF of a private key, by definition', 'Key.info': 'documented to print the private key',
    'HDKey.info': 'documented to print the private key', 'Address.as_dict': 'no key object', 'Address.as_json': 'no key object',
    'WalletKey.key': 'hands out the key object itself', 'Wallet.account': 'hands out the account WalletKey itself',
}


def entry_points():
    import sys
    tdir = os.path.join(os.path.dirname(os.path.dirname(os.path.dirname(os.path.abspath(__file__)))), 'translator')
    if tdir not in sys.path:
        sys.path.insert(0, tdir)
    import gen_fields
    return gen_fields.entry_point_params(REPO)


def arg_specs(params, rng, cap, other_net, values=None):
    """argument combinations of one entry point: the full product of the reviewed values of its plain parameters (asks-
    for-private parameters left out), then explicit FALSE forms of the asks-for-private parameters with random other
    arguments.  Above `cap` combinations: every value of every parameter once, then a seeded sample.
    Returns (list of argspecs, list of parameter names that are not reviewed)."""
    import itertools
    ARG_VALUES = dict(globals()['ARG_VALUES'], **(values or {}))
    unknown = [p for p, _ in params if p not in ARG_VALUES and p not in ASKS_PRIVATE]
    plain = [(p, d) for p, d in params if p in ARG_VALUES]
    ask = [p for p, _ in params if p in ASKS_PRIVATE]

    def choices(p, d):
        out = []
        for v in ARG_VALUES[p]:
            if v == '$other':
                v = 's' + other_net
            # the default value stands for "argument not passed"; a single reviewed value is always passed
            dv = DEFAULT_TOKEN.get(d, 'i' + d if d.isdigit() else None)
            out.append(None if (v == dv and len(ARG_VALUES[p]) > 1) else v)
        return out

    def spec(names, vals):
        items = ['%s=%s' % (n, v) for n, v in zip(names, vals) if v is not None]
        return ('~' + '~'.join(items)) if items else '-'

    names = [p for p, _ in plain]
    chs = [choices(p, d) for p, d in plain]
    total = 1
    for c in chs:
        total *= len(c)
    if total <= cap:
        combos = list(itertools.product(*chs))
    else:
        base = [c[0] for c in chs]
        combos = [tuple(base)]
        for i, c in enumerate(chs):
            for v in c[1:]:
                combos.append(tuple(base[:i] + [v] + base[i + 1:]))
        seen = set(combos)
        while len(combos) < cap:
            x = tuple(rng.choice(c) for c in chs)
            if x not in seen:
                seen.add(x)
                combos.append(x)
    specs = [spec(names, c) for c in combos]
    for a in ask:
        for f in FALSY:
            for _ in range(2):
                x = [rng.choice(c) for c in chs]
                specs.append(spec(names + [a], x + [f]))
    out = []
    for x in specs:
        if x not in out:
            out.append(x)
    return out, unknown


def gen_pv_cases(rng, tier, nets):
    big = tier == 'thorough'
    cs = []
    eps = entry_points()
    for q in sorted(eps):
        if q not in VIEW_ENTRIES and q not in NOT_VIEWS:
            cs.append(Case('pv_unreviewed', 'pv-unreviewed entry %s' % q))
    seg_nets = [n for n in nets if n not in ('dogecoin', 'dogecoin_testnet', 'litecoin_legacy')]

    def other(net):
        return 'litecoin' if net != 'litecoin' else 'bitcoin'

    # ---- Key / HDKey level: every entry point, the full product of its arguments, several kinds of source key
    plan = [('master', 'bitcoin', 'segwit'), ('warm', rng.choice(seg_nets), 'segwit'), ('ms', rng.choice(seg_nets), 'p2sh-segwit'),
            ('acct', rng.choice(seg_nets), 'legacy')]
    if big:
        plan += [('acct', 'bitcoin', 'segwit'), ('warm', 'dogecoin', 'legacy'), ('master', 'bitcoinlib_test', 'legacy')]
        plan += [(rng.choice(['master', 'warm', 'ms', 'acct']), n, rng.choice(WITNESS_TYPES)) for n in nets]
    for src, net, wt in plan:
        for q in sorted(eps):
            if VIEW_ENTRIES.get(q) != 'h':
                continue
            specs, unknown = arg_specs(eps[q] or [], rng, 100000, other(net))
            for u in unknown:
                cs.append(Case('pv_unreviewed', 'pv-unreviewed parameter %s of %s' % (u, q)))
            secret = '%064x' % rng.randrange(1, N)
            chain = bytes(rng.randrange(256) for _ in range(32)).hex()
            # (one request per entry point and at most 120 combinations, so a failing input names few calls)
            for i in range(0, len(specs), 120):
                cs.append(Case('pv_' + q, 'pvk %s %s %s %s %s %s@%s' % (src, secret, chain, net, wt, q, ';'.join(specs[i:i + 120]))))
    # ---- the same entry points asked of keys WITHOUT private part (public copy of a cold / cache-warm private key, public
    # master): relative and 'm...' paths too - nothing reachable from the result may hold the private twin or its children
    pplan = [('pub', 'bitcoin', 'legacy'), ('pubwarm', rng.choice(seg_nets), 'segwit'), ('pubm', rng.choice(seg_nets), 'p2sh-segwit')]
    if big:
        pplan += [(rng.choice(['pub', 'pubwarm', 'pubm']), n, rng.choice(WITNESS_TYPES)) for n in nets]
    for src, net, wt in pplan:
        secret = '%064x' % rng.randrange(1, N)
        chain = bytes(rng.randrange(256) for _ in range(32)).hex()
        toks = []
        for q in PUBLIC_SOURCE_ENTRIES:
            if q in eps:
                specs, unknown = arg_specs(eps[q] or [], rng, 60, other(net), {'path': ARG_VALUES['path'] + PATHS_ON_PUBLIC})
                specs = [x for x in specs if not any(('%s=%s' % (a, v)) in x for a in ASKS_PRIVATE for v in ('T', 'i1'))]
                toks.append('%s@%s' % (q, ';'.join(specs)))
        cs.append(Case('pv_public_source', 'pvk %s %s %s %s %s %s' % (src, secret, chain, net, wt, ' '.join(toks))))
    for net in (nets if big else [rng.choice(nets)]):
        toks = []
        for q in sorted(eps):
            if VIEW_ENTRIES.get(q) == 'k':
                specs, unknown = arg_specs(eps[q] or [], rng, 1000, other(net))
                toks.append('%s@%s' % (q, ';'.join(specs)))
        cs.append(Case('pv_Key', 'pvk key %064x %s %s legacy %s' % (rng.randrange(1, N), '00' * 32, net, ' '.join(toks))))
    # ---- Wallet / WalletKey level: every configuration, warm caches, every entry point x argument combinations
    confs = [('master', '-'), ('acctprv', '-'), ('single', '-'), ('ms:master+acctpub:0', '-'), ('ms:acctprv+master:1', '-')]
    if big:
        confs += [('master', 'm'), ('master', 'w'), ('acctpub', '-'), ('singlepub', '-'), ('ms:acctprv+acctprv+acctpub:1', '-'),
                  ('ms:single+singlepub:0', '-'), ('master', '-'), ('acctprv', 'w')]
    for j, (conf, flags) in enumerate(confs):
        net = 'bitcoinlib_test' if j % 2 == 0 else rng.choice(seg_nets)
        wt = WITNESS_TYPES[(j + 2) % 3]
        toks = []
        for q in sorted(eps):
            if VIEW_ENTRIES.get(q) in ('w', 'wk'):
                specs, unknown = arg_specs(eps[q] or [], rng, 400 if big else 48, other(net))
                for u in unknown:
                    cs.append(Case('pv_unreviewed', 'pv-unreviewed parameter %s of %s' % (u, q)))
                toks.append('%s@%s' % (q, ';'.join(specs)))
        seed = bytes(rng.randrange(256) for _ in range(16)).hex()
        cs.append(Case('pv_wallet_' + conf.split(':')[0], 'pvw %s %s %s %s %s %s' % (conf, seed, net, wal_wt(rng, net, wt), flags,
                                                                                    ' '.join(toks))))
    cs += gen_rel_cases(rng, tier, nets)
    return cs


_STATUS = None


def recorded(cls):
    """inputs of a finding class that fails on the unchanged library are generated once the finding is recorded
    (known_findings.json or VERIF_EXTRA_KNOWN)"""
    global _STATUS
    if _STATUS is None:
        _STATUS = {(e.get('class') or e.get('id')): e.get('status') for e in load_known(PROP)}
    return cls in _STATUS


def gen_rel_cases(rng, tier, nets):
    """default exports taken AFTER relationships of the database rows were loaded: every wallet configuration that holds a
    private key (multisig with private cosigner keys first) x loader histories."""
    big = tier == 'thorough'
    cs = []
    deep_tx = recorded('dbkey_in_row_dict')

    def rseed():
        return bytes(rng.randrange(256) for _ in range(16)).hex()

    def clean(lds):
        out = []
        for l in lds:
            if l == 'info' and ('tx' in out or 'sign' in out):
                continue        # (see the adapter: info() of a wallet with transactions breaks the session)
            if not deep_tx and ((l == 'deeprel' and ('tx' in out or 'sign' in out)) or
                                (l in ('tx', 'sign') and 'deeprel' in out)):
                # the `key` relationship of a transaction row holds a DbKey object (class dbkey_in_row_dict)
                l = 'allrel' if l == 'deeprel' else None
            if l:
                out.append(l)
        return out

    corpus = [['none', 'getkey', 'keykey', 'wkeys', 'children', 'parents', 'allrel', 'deeprel', 'info', 'pm'],
              ['keykey'], ['tx'], ['tx', 'sign', 'allrel', 'children'], ['children', 'tx', 'parents'], ['deeprel'],
              ['getkey', 'tx', 'deeprel', 'sign']]
    confs = ['ms:master+acctpub:0', 'ms:acctprv+master:1', 'ms:acctprv+acctprv+acctpub:1', 'ms:master+master:0', 'master',
             'acctprv', 'ms:single+singlepub:0', 'single']
    j = 0
    for conf in confs if big else confs[:6]:
        for lds in corpus if (big or j < 8) else corpus[:3]:
            net = 'bitcoinlib_test' if ('tx' in lds or j % 2 == 0) else rng.choice(nets)
            wt = wal_wt(rng, net, WITNESS_TYPES[j % 3])
            j += 1
            cs.append(Case('rel_' + conf.split(':')[0], 'rel %s %s %s %s - %s' % (conf, rseed(), net, wt, ','.join(clean(lds)))))
    for _ in range(90 if big else 16):
        multi = rng.random() < 0.7
        conf = rng.choice([c for c in MULTI_CONFS if 'prv' in c or 'master' in c]) if multi else rng.choice(['master', 'acctprv', 'single'])
        net = 'bitcoinlib_test' if rng.random() < 0.6 else rng.choice(nets)
        lds = clean([rng.choice(REL_LOADERS) for _ in range(rng.randrange(1, 6))])
        flags = 'w' if rng.random() < 0.2 else '-'
        cs.append(Case('rel_' + conf.split(':')[0], 'rel %s %s %s %s %s %s' % (conf, rseed(), net, wal_wt(rng, net), flags,
                                                                              ','.join(lds) or 'none')))
    return cs


def rand_args(rng, params, p_private=0.0, exclude=(('account_id', 'N'),)):
    """random argument list (argspec suffix) over the reviewed values; with probability p_private one asks-for-private
    parameter is set to a TRUE value (the model then predicts the private result)."""
    items = []
    for p in params:
        if p in ASKS_PRIVATE:
            r = rng.random()
            if r < p_private:
                items.append('%s=%s' % (p, rng.choice(['T', 'i1', 'ssegwit'])))
            elif r < p_private + 0.3:
                items.append('%s=%s' % (p, rng.choice(FALSY)))
        elif rng.random() < 0.6:
            v = rng.choice([x for x in ARG_VALUES[p] if x != '$other' and (p, x) not in exclude])
            items.append('%s=%s' % (p, v))
    return ''.join('~' + x for x in items)


def model_req(c):
    t = c.req.split(' ')
    if t[0] == 'key':
        return ' '.join(t[:4])
    if t[0] == 'wk':
        return ' '.join(t[:3])
    if t[0] == 'wal':
        return ' '.join(t[:3])
    return 'skip'


def _norm_wal(s):
    """database handles (_dbkey, session, wallet) are not followed by the scan: S and P are the same there."""
    out = []
    for tok in s.split(' '):
        p = tok.split(':')
        if len(p) == 4:
            for j in (2, 3):
                parts = []
                for codes in p[j].split('/'):
                    codes = list(codes)
                    if len(codes) > max(WK_HANDLE_POS):
                        for i in WK_HANDLE_POS:
                            if codes[i] == 'S':
                                codes[i] = 'P'
                    parts.append(''.join(codes))
                p[j] = '/'.join(parts)
        out.append(':'.join(p))
    return ' '.join(out)


def _norm_wk(s):
    out = []
    for tok in s.split(' '):
        p = tok.split(':')
        if len(p) == 4:
            codes = list(p[3])
            for i in WK_HANDLE_POS:
                if i < len(codes) and codes[i] == 'S':
                    codes[i] = 'P'
            p[3] = ''.join(codes)
        out.append(':'.join(p))
    return ' '.join(out)


WK_CHANGE_POS = 7                # `change` in the alphabetical WalletKey field list


def _pma_change(tok):
    p = tok.split(':')
    if len(p) == 4 and p[3] != '-':
        p[3] = '/'.join(k[:WK_CHANGE_POS] + ('P' if k[WK_CHANGE_POS] == 'N' else k[WK_CHANGE_POS]) + k[WK_CHANGE_POS + 1:]
                        if len(k) > WK_CHANGE_POS else k for k in p[3].split('/'))
    return ':'.join(p)


def same(c, impl_out, model_out):
    t = c.req.split(' ')[0]
    if t not in ('key', 'wk', 'wal'):
        return True
    if impl_out.startswith('CRASH'):
        return True          # reported by prop_check
    states = impl_out.split(' ## ')[0]
    if t == 'wal':
        a, b = _norm_wal(states).split(' '), _norm_wal(model_out).split(' ')
        ops = c.req.split(' ')[2].split(',')
        if len(a) == len(b) == len(ops) + 1:
            for i, o in enumerate(ops):
                if 'PmA~' in o and any(x in o for x in ('account_id=', 'witness_type=', 'network=')):
                    # the WalletKey of an account / witness type / network that did not exist before is handed out with
                    # its public `change` attribute still None: not modelled, not secret-relevant
                    a[i + 1] = _pma_change(a[i + 1])
                    b[i + 1] = _pma_change(b[i + 1])
                if 'Reopen' in ops[:i + 1]:
                    # after a reopen, WHEN the private wallet's own main WalletKey re-creates its cached HDKey object
                    # (_hdkey_object, position 2) depends on which exports ran; the cache of the PRIVATE object is not a
                    # public view and is not secret-relevant here (public views are judged by the scan): masked on both sides
                    def _mask(tok):
                        q = tok.split(':')
                        if len(q) == 4 and len(q[2]) > 2:
                            q[2] = '/'.join(x[:2] + '*' + x[3:] if len(x) > 2 else x for x in q[2].split('/'))
                        return ':'.join(q)
                    a[i + 1] = _mask(a[i + 1])
                    b[i + 1] = _mask(b[i + 1])
                if o == 'Sign' and a[i + 1].startswith('err:') and b[i + 1].startswith('ok:'):
                    # whether creating + signing a transaction SUCCEEDS (funds of the right network, key material) is not
                    # part of the secrecy model; the attribute codes after the step are still compared
                    a[i + 1] = 'ok:' + a[i + 1][len('err:'):]
        return a == b
    if t == 'wk':
        return _norm_wk(states) == _norm_wk(model_out)
    return states == model_out


def is_trivial(c, out):
    if c.req.startswith('pv') and not out.startswith('CRASH'):
        # every call of the request raised (or there was none)
        return sum(int(n) for n in re.findall(r':ok=(\d+):', out.split(' ## ')[0])) == 0
    return out.startswith('CRASH') or out == 'BADREQ'


def real_leaks(out):
    if ' ## ' not in out:
        return []
    l = out.split(' ## ', 1)[1]
    return [x for x in l.split(' | ') if x != '-' and not x.startswith('control=') and '-raised:' not in x
            and '-failed:' not in x]


def prop_check(c, out):
    if c.req.startswith('pv-unreviewed'):
        return ('a function that presents its result as public has an %s that has not been reviewed (asks for private output, '
                'or plain?): add it to the frozen tables of the model and of harness/props/c16.py' % c.req[len('pv-unreviewed '):])
    if out.startswith('CRASH') or out == 'BADREQ':
        return 'adapter could not run the case: %s' % out[:160]
    t = c.req.split(' ')[0]
    if t in ('pvk', 'pvw'):
        lk = real_leaks(out)
        if lk:
            return ('private key material reachable from the result of a public-view entry point called with arguments: '
                    + '; '.join(lk[:6]))
        if 'control=MISSED' in out:
            return 'scan sensitivity control failed (the same call asking for private output was not recognised): ' + out[:200]
        return None
    if t == 'rel':
        lk = real_leaks(out)
        if lk:
            return ('private key material in a default export taken after relationships of the database rows were loaded: '
                    + '; '.join(lk[:6]))
        if 'control=MISSED' in out:
            return 'scan sensitivity control failed (as_json(include_private=True) not recognised)'
        return None
    if t in ('key', 'wk', 'wallet', 'wal'):
        lk = real_leaks(out)
        if lk:
            return 'private key material found in a public view / default export: ' + '; '.join(lk[:6])
        if t in ('wallet', 'wal') and 'control=MISSED' in out:
            return 'scan sensitivity control failed (explicit private export not recognised)'
        return None
    if t == 'dbfile':
        if 'enc=0' not in out or 'hits=-' in out:
            return 'sensitivity control failed: plaintext database scan found nothing (%s)' % out
        return None
    if t == 'dbfile-enc':
        if 'enc=1' not in out:
            return 'field encryption was not active in the subprocess: ' + out
        if 'hits=-' not in out or 'reopen-differs' in out:
            return 'private key material readable in the raw database file with field encryption on: ' + out
        return None
    return None


def _only_dbkey_repr(c, io, mo):
    lk = real_leaks(io)
    return c.req.startswith('wallet ') and bool(lk) and all(x.startswith('dbkey-repr') for x in lk)


def _only_rowdict_dbkey(c, io, mo):
    """Wallet.transactions(as_dict=True) / utxos() return the row dictionary of transaction rows; once the `key`
    relationship of such a row has been loaded (deeprel) it holds the DbKey OBJECT, whose text is the recorded
    DbKey.__repr__ with the wif column."""
    lk = real_leaks(io)
    t = c.req.split(' ')
    return t[0] == 'rel' and 'deeprel' in t[6].split(',') and bool(lk) and \
        all(x.startswith('transactions(as_dict=True) after') or x.startswith('utxos() after') for x in lk)


KNOWN_CLASSES = {
    'dbkey_repr_private_wif': _only_dbkey_repr,
    'dbkey_in_row_dict': _only_rowdict_dbkey,
}


def reproduce_known(entry, rundir):
    from core import run_impl
    rc, out, err = run_impl(IMPL, [entry['witness']['request']], rundir)
    return len(out) == 1 and entry['witness']['impl_answer'] in out[0]
