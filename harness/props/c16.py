"""C16 — public views and default exports never contain private key material.

Proof side: Model/PublicView.v (object-state machine of Key / HDKey / WalletKey attribute contents, exports and
the database column model), tied to keys.py / wallets.py / db.py by translator/gen_fields.py -> Gen/GenFields.v
and Glue/FieldsGlue.v.  Correspondence side (TESTING, labelled so): taint differential + scan on real objects."""
import json, os
from core import Case, REPO

PROP = 'C16'
COQ_FILES = ['Extract/C16.v', 'Glue/FieldsGlue.v', 'Properties/C16.v']
DRIVER = 'c16'
IMPL = 'harness/impl/c16_impl.py'
ALLOWED_AXIOMS = []
IMPL_TIMEOUT = 3400
ASSUMPTIONS = [
    'theorems are about coq/Model/PublicView.v: attribute contents abstracted to Absent/None/public/secret; every '
    'method is a small program over attributes; public() is the regenerated assignment list interpreted',
    'tie to /repo (1): translator/gen_fields.py regenerates attribute sets, public() assignment lists, as_dict / '
    'repr sources, DbKey columns + encrypted columns + every write to a DbKey row from the AST on each run; '
    'Glue/FieldsGlue.v proves the model tables equal them',
    'tie to /repo (2): taint differential — after every step of random method histories the populated / secret-'
    'bearing attributes of the real object (found by scanning each value for every encoding of the secret) equal '
    'the model state; the return value of each method is scanned and compared with the model export taint',
    'one-way steps are assumptions of the model (EDeclass / construction of public attributes from the secret): EC '
    'multiplication, HDKey.public() of the nested key inside WalletKey.public(), BIP38 encryption',
    'PARTIAL: Python object graph, pickle, deepcopy, sqlite file layout and SQLAlchemy are runtime; they are covered '
    'by the scan (pickle bytes, deepcopy + attribute walk, as_dict/as_json/repr/str/info output, raw database file '
    'bytes with DB_FIELD_ENCRYPTION_KEY set), which is testing, not proof',
    'database handles (session, ORM rows: WalletKey.session / .wallet / ._dbkey, Wallet._session) are not followed: '
    'a public WalletKey still references the live database session of its wallet',
    'truthiness corner cases (secret == 0, _x == 0) are outside the model; multisig WalletKeys are scanned, not modelled; '
    'HDKey.address() of an uncompressed key with bech32 encoding raises and is kept out of the histories',
]
RULE = ('corpus histories ([Wif;Public] etc. for Key and HDKey on every network) first, then seeded random method '
        'histories of length 0..10 (0..12 thorough) over every key kind (private / public, compressed / uncompressed, '
        'point / bytes / hex / WIF / extended-key import, HD master / child / public-only) and every network of '
        'networks.json; WalletKey histories on private, watch-only and address-only wallet keys; wallet-level export '
        'scans for private / legacy / single-key / watch-only / multisig wallets; raw sqlite file scan with and '
        'without DB_FIELD_ENCRYPTION_KEY (the run without key is the sensitivity control: the scan must FIND the '
        'keys).  A case is non-trivial when the adapter produced states (no CRASH); distinct by request')

N = 0xFFFFFFFFFFFFFFFFFFFFFFFFFFFFFFFEBAAEDCE6AF48A03BBFD25E8CD0364141
K_OPS = ['Wif', 'Address', 'AddressUnc', 'Hash160', 'UncHex', 'UncByte', 'Point', 'AsDict0', 'AsDict1', 'AsJson0',
         'AsJson1', 'Info', 'Repr', 'Str', 'Encrypt', 'Public', 'DeepCopy', 'Pickle']
H_OPS = [o for o in K_OPS if o != 'AddressUnc'] + ['HdWif0', 'HdWif1', 'Fingerprint', 'ChildPriv0', 'ChildPriv1',
                                                    'ChildPub', 'PublicMaster']
WK_OPS = ['Key', 'Public', 'AsDict0', 'AsDict1', 'Repr', 'Balance', 'Name']
WK_HANDLE_POS = [1, 22, 24]      # _dbkey, session, wallet in the alphabetical WalletKey field list


def networks():
    d = json.load(open(os.path.join(REPO, 'bitcoinlib', 'data', 'networks.json'), encoding='utf8'))
    return list(d.keys())


def key_req(cls, kind, ops, secret, net, chain, fmt):
    return 'key %s %s %s %064x %s %s %s' % (cls, kind, ','.join(ops) or '-', secret, net, chain.hex(), fmt)


def gen_cases(rng, tier):
    big = tier == 'thorough'
    nets = networks()
    cs = []
    enc_budget = [300 if big else 24]

    def rsecret():
        return rng.randrange(1, N)

    def rchain():
        return bytes(rng.randrange(256) for _ in range(32))

    # ---- corpus: the histories of the fixed findings stay in every run
    corpus = [['Wif', 'Public'], ['Wif', 'Public', 'Pickle'], ['Wif', 'Public', 'DeepCopy', 'Wif'],
              ['Info', 'Public', 'DeepCopy'], ['AsDict1', 'Public'], ['AsJson1', 'Public', 'AsDict1'],
              ['Public'], [], ['Wif', 'Address', 'Public', 'Info', 'AsDict0', 'Repr', 'Str']]
    i = 0
    for cls in 'KH':
        for kind in ('priv1', 'priv0'):
            for ops in corpus:
                net = nets[i % len(nets)]
                i += 1
                fmt = 'decimal' if cls == 'K' else 'arg'
                cs.append(Case('corpus', key_req(cls, kind, ops, rsecret(), net, rchain(), fmt)))
    for net in nets:
        cs.append(Case('corpus', key_req('H', 'priv1', ['Wif', 'HdWif1', 'PublicMaster', 'Pickle', 'Info'], rsecret(), net,
                                         rchain(), 'wif')))
        cs.append(Case('corpus', key_req('K', 'priv1', ['Wif', 'Public', 'Pickle'], rsecret(), net, rchain(), 'wif')))
    # ---- random histories
    for _ in range(10000 if big else 400):
        cls = rng.choice('KH')
        if cls == 'K':
            kind = rng.choice(['priv1', 'priv1', 'priv0', 'priv0', 'point1', 'point0', 'pubu', 'pubc'])
            fmt = rng.choice(['decimal', 'hex', 'bin', 'wif']) if kind.startswith('priv') else rng.choice(['hex', 'bin'])
            pool = K_OPS
        else:
            kind = rng.choice(['priv1', 'priv1', 'priv1', 'priv0', 'pubc', 'pubu'])
            fmt = rng.choice(['arg', 'wif', 'bin']) if kind in ('priv1', 'pubc') else 'arg'
            if kind == 'pubc' and fmt == 'bin':
                fmt = 'arg'
            pool = H_OPS
        n = rng.randrange(0, 13 if big else 11)
        ops = []
        private = kind.startswith('priv')
        for _ in range(n):
            o = rng.choice(pool)
            if rng.random() < 0.18:
                o = 'Public'
            if o == 'Encrypt':
                if enc_budget[0] <= 0:
                    o = 'Address'
                else:
                    enc_budget[0] -= 1
            if o == 'PublicMaster' and not private:
                o = 'ChildPub'
            if o in ('Public', 'ChildPub', 'PublicMaster'):
                private = False
            ops.append(o)
        cs.append(Case('key_' + cls + '_' + kind, key_req(cls, kind, ops, rsecret(), rng.choice(nets), rchain(), fmt)))
    # ---- WalletKey histories
    for j in range(600 if big else 36):
        kind = ['priv1', 'priv0', 'pub1', 'pub0', 'addr', 'priv1'][j % 6]
        ops = [rng.choice(WK_OPS) if rng.random() > 0.2 else 'Public' for _ in range(rng.randrange(0, 8))]
        if j < 6:
            ops = ['Repr', 'AsDict0', 'Public', 'Repr', 'Key', 'AsDict0'][:6 - (j % 2)]
        seed = bytes(rng.randrange(256) for _ in range(16)).hex()
        net = rng.choice(['bitcoinlib_test', 'bitcoin', 'litecoin', 'testnet'])
        cs.append(Case('wk_' + kind, 'wk %s %s %s %s' % (kind, ','.join(ops) or '-', seed, net)))
    # ---- wallet-level export scans
    for j, kind in enumerate(['private', 'legacy', 'single', 'watch', 'multisig'] * (8 if big else 2)):
        seed = bytes(rng.randrange(256) for _ in range(16)).hex()
        net = 'bitcoinlib_test' if j < 5 else rng.choice(nets)
        cs.append(Case('wallet_' + kind, 'wallet %s %s %s' % (kind, seed, net)))
    # ---- raw database file: sensitivity control without key, the claim with key / with password
    for j in range(6 if big else 2):
        seed = bytes(rng.randrange(256) for _ in range(16)).hex()
        net = 'bitcoinlib_test' if j % 2 == 0 else 'bitcoin'
        cs.append(Case('dbfile_plain', 'dbfile %s %s' % (seed, net)))
        cs.append(Case('dbfile_key', 'dbfile-enc key %s %s' % (seed, net)))
        cs.append(Case('dbfile_password', 'dbfile-enc password %s %s' % (seed, net)))
    return cs


def model_req(c):
    t = c.req.split(' ')
    if t[0] == 'key':
        return ' '.join(t[:4])
    if t[0] == 'wk':
        return ' '.join(t[:3])
    return 'skip'


def _norm_wk(s):
    out = []
    for tok in s.split(' '):
        p = tok.split(':')
        if len(p) == 4:
            codes = list(p[3])
            for i in WK_HANDLE_POS:
                if i < len(codes) and codes[i] == 'S':
                    codes[i] = 'P'
            p[3] = ''.join(codes)
        out.append(':'.join(p))
    return ' '.join(out)


def same(c, impl_out, model_out):
    t = c.req.split(' ')[0]
    if t not in ('key', 'wk'):
        return True
    if impl_out.startswith('CRASH'):
        return True          # reported by prop_check
    states = impl_out.split(' ## ')[0]
    if t == 'wk':
        return _norm_wk(states) == _norm_wk(model_out)
    return states == model_out


def is_trivial(c, out):
    return out.startswith('CRASH') or out == 'BADREQ'


def real_leaks(out):
    if ' ## ' not in out:
        return []
    l = out.split(' ## ', 1)[1]
    if l == '-':
        return []
    return [x for x in l.split(' | ') if '-raised:' not in x and '-failed:' not in x]


def prop_check(c, out):
    if out.startswith('CRASH') or out == 'BADREQ':
        return 'adapter could not run the case: %s' % out[:160]
    t = c.req.split(' ')[0]
    if t in ('key', 'wk', 'wallet'):
        lk = real_leaks(out)
        if lk:
            return 'private key material found in a public view / default export: ' + '; '.join(lk[:6])
        if t == 'wallet' and 'control=MISSED' in out:
            return 'scan sensitivity control failed (explicit private export not recognised)'
        return None
    if t == 'dbfile':
        if 'enc=0' not in out or 'hits=-' in out:
            return 'sensitivity control failed: plaintext database scan found nothing (%s)' % out
        return None
    if t == 'dbfile-enc':
        if 'enc=1' not in out:
            return 'field encryption was not active in the subprocess: ' + out
        if 'hits=-' not in out or 'reopen-differs' in out:
            return 'private key material readable in the raw database file with field encryption on: ' + out
        return None
    return None


def _only_dbkey_repr(c, io, mo):
    lk = real_leaks(io)
    return c.req.startswith('wallet ') and bool(lk) and all(x.startswith('dbkey-repr') for x in lk)


KNOWN_CLASSES = {
    'dbkey_repr_private_wif': _only_dbkey_repr,
}


def reproduce_known(entry, rundir):
    from core import run_impl
    rc, out, err = run_impl(IMPL, [entry['witness']['request']], rundir)
    return len(out) == 1 and entry['witness']['impl_answer'] in out[0]
