"""C15 — BIP38: right passphrase decrypts, wrong one fails, new keys use fresh entropy.

Oracle protocol (chosen: table lookup, resolved iteratively = the two-phase protocol of DESIGN 4.3).
scrypt and AES are function ARGUMENTS of the extracted model.  The driver answers them from the table that
follows "|" in the request line and prints `ORACLE-MISS <query>` for a query that is not there.  The harness
resolves a request by running the driver, computing each missed query with hashlib.scrypt / the AES below,
adding it to the table and re-running until no query is missed (at most 8 rounds; batched over all cases).
So the table never depends on a harness-side idea of what the model will ask; its entries are true oracle
values, and `oracle_scrypt` / `oracle_aes` cases compare them on every run with the repository's own
scrypt_hash and Crypto.Cipher.AES.

prop_check is an independent BIP38 written here from the BIP text (own AES-256, secp256k1, Base58, hashlib
SHA-256 / RIPEMD-160 / scrypt); it judges the implementation's answer from the request line alone.
Second, independent judge: for every enc / dec / inter request the extracted Gallina model OF THE BIP TEXT
(spec_encrypt / spec_decrypt / spec_intermediate, request prefix "spec_") is evaluated too, fed by the same oracle
protocol with hashlib.scrypt / FIPS-197 AES values on the SPEC's passphrase bytes (UTF-8 of the NFC-normalised text;
a bytes argument as it is).  Its answer must equal the Python judge's; the implementation is compared with both.
Neither judge calls anything of /repo.

Passphrase ARGUMENT in a request: "<hex utf8 as written> <hex utf8 of the NFC form>" for a str,
"b:<hex> <hex>" for a bytes object."""
import hashlib, json, os, threading, unicodedata
from concurrent.futures import ThreadPoolExecutor
import core
from core import Case, REPO

PROP = 'C15'
COQ_FILES = ['Extract/C15.v', 'Properties/C15.v']
DRIVER = 'c15'
IMPL = 'harness/impl/c15_impl.py'
ALLOWED_AXIOMS = []
IMPL_TIMEOUT = 7200
ASSUMPTIONS = [
    'theorems are about coq/Model/Bip38.v (lib_* mirrors keys.py bip38_encrypt/bip38_decrypt/Key.encrypt/Key._bip38_decrypt/'
    'bip38_intermediate_password/bip38_create_new_encrypted_wif; spec_* the BIP38 text); tie to /repo by differential '
    'correspondence through the public entry points on every run',
    'scrypt, AES-256-ECB and Unicode NFC are oracles: universally quantified functions in the theorems (only premise: '
    'aes_dec k (aes_enc k b) = b on 16-byte blocks, output length of scrypt and of the hash); in the correspondence their values come '
    'from hashlib.scrypt, an AES written here from FIPS-197 and unicodedata, cross-checked each run against the '
    'repository\'s scrypt_hash and Crypto.Cipher.AES',
    'Base58 facts (change_base(base58encode(x)) = x for the 43/53-byte payloads; a 43-byte payload starting 01 42/43 is written as 58 '
    'characters starting 6P) and the curve facts (k*G finite; (a*b mod n)*G = b*(a*G) on serialised points; 33-byte compressed points) '
    'are visible premises of the theorems, not proved here',
    'agreement WITH THE BIP is judged twice, by a Python BIP38 written in harness/props/c15.py and by the extracted Gallina spec_* '
    'functions, both fed with hashlib.scrypt / FIPS-197 AES on the NFC-normalised UTF-8 passphrase; nothing of /repo is called by a judge',
    'PARTIAL: "fresh" is a statement about the OS entropy source; modelled and proved is which os.urandom draw each '
    'generating call consumes (process model), validated by replacing os.urandom with a counting stream before import',
]
RULE = ('corpus: the published BIP38 vectors (4 plain, 1 unicode, 4 EC-multiplied); structured streams: keys incl. 1, n-1 and '
        'leading-zero secrets x compressed x 11 networks x passphrases (ASCII, empty, Greek, NFC/NFD pairs) for encrypt, '
        'decrypt (right / wrong passphrase, right / wrong / no network), intermediate codes (lot/sequence boundaries), '
        'new EC-multiplied keys and their decryption; adversarial passphrase stream (text that looks like hexadecimal, even / odd '
        'length, with blanks, upper / lower case; digits only; blank-only; empty; NUL bytes; 63 / 64 / 65 and thousands of bytes; '
        'non-ASCII NFC-stable and NFC-unstable; str and bytes arguments) through Key.encrypt, Key(enc, password=), HDKey, '
        'bip38_encrypt, bip38_decrypt, bip38_intermediate_password -> bip38_create_new_encrypted_wif -> Key(enc, password=), plain and '
        'EC-multiplied, compressed and not, with and without lot/sequence, every ciphertext being built by the judge (never by the '
        'library) and decrypted with the right passphrase and with DIFFERENT passphrases a library might conflate with it (hex text vs '
        'the bytes it spells, case, leading / trailing blanks, NUL truncation, prefix, hex of the bytes, NFKC); '
        'wrong-passphrase stream: judge-built plain (compressed / uncompressed / foreign network) and EC-multiplied (with / without '
        'lot-sequence) keys opened with the right passphrase through Key / HDKey(legacy) with every further argument (compressed=, '
        'is_private=, strict=, multisig=, network= given or not) and with wrong passphrases (one character off, case, trailing / leading '
        'blank, NFKC fold, empty, prefix) through Key, HDKey with witness_type legacy / segwit / p2sh-segwit / default, multisig=, '
        'compressed=, and bip38_decrypt directly; compatibility-character stream: passphrases NFC keeps and NFKC folds (ligatures, '
        'U+2122, fullwidth, super / subscripts, Hangul compatibility jamo, Angstrom / Ohm signs) through bip38_intermediate_password '
        'with and without lot/sequence, 4- and 8-byte salts, every lot / sequence boundary (valid and invalid), then judge-built keys '
        'opened with their own passphrase and refused with the NFKC-folded one; '
        'malformed stream: every flag byte, unknown identifiers, bad characters, '
        'wrong lengths, checksum failures, bad intermediate codes; entropy histories of 2..5 generating calls in a fresh '
        'interpreter with a counting os.urandom; a case is non-trivial when the implementation returns a value; distinct by request')

# ================================================================ independent primitives
def sha256d(b):
    return hashlib.sha256(hashlib.sha256(b).digest()).digest()


def hash160(b):
    return hashlib.new('ripemd160', hashlib.sha256(b).digest()).digest()


# ---- AES-256, one block, from FIPS-197
def _xt(a):
    return ((a << 1) ^ 0x1b) & 0xff if a & 0x80 else a << 1


def _mul(a, b):
    r = 0
    while b:
        if b & 1:
            r ^= a
        a = _xt(a)
        b >>= 1
    return r


def _tables():
    exp, log, x = [0] * 255, [0] * 256, 1
    for i in range(255):
        exp[i], log[x] = x, i
        x ^= _xt(x)
    sbox = [0] * 256
    for a in range(256):
        inv = 0 if a == 0 else exp[(255 - log[a]) % 255]
        s = r = inv
        for _ in range(4):
            r = ((r << 1) | (r >> 7)) & 0xff
            s ^= r
        sbox[a] = s ^ 0x63
    inv = [0] * 256
    for a in range(256):
        inv[sbox[a]] = a
    return sbox, inv


SBOX, INV = _tables()


def _expand(key):
    w = [list(key[4 * i:4 * i + 4]) for i in range(8)]
    rc = 1
    for i in range(8, 60):
        t = list(w[i - 1])
        if i % 8 == 0:
            t = t[1:] + t[:1]
            t = [SBOX[b] for b in t]
            t[0] ^= rc
            rc = _xt(rc)
        elif i % 8 == 4:
            t = [SBOX[b] for b in t]
        w.append([a ^ b for a, b in zip(w[i - 8], t)])
    return [sum(w[4 * r:4 * r + 4], []) for r in range(15)]


def _mix(s, m):
    t = []
    for c in range(4):
        a = s[4 * c:4 * c + 4]
        for r in range(4):
            t.append(_mul(a[0], m[(0 - r) % 4]) ^ _mul(a[1], m[(1 - r) % 4]) ^ _mul(a[2], m[(2 - r) % 4]) ^ _mul(a[3], m[(3 - r) % 4]))
    return t


_REC = threading.local()


def _note(kind, *a):
    log = getattr(_REC, 'log', None)
    if log is not None:
        log.append((kind,) + a)


def aes_enc(key, block):
    assert len(key) == 32 and len(block) == 16
    _note('E', key, block)
    rk = _expand(key)
    s = [b ^ k for b, k in zip(block, rk[0])]
    for r in range(1, 15):
        s = [SBOX[b] for b in s]
        s = [s[(i % 4) + 4 * (((i // 4) + (i % 4)) % 4)] for i in range(16)]
        if r < 14:
            s = _mix(s, [2, 3, 1, 1])
        s = [b ^ k for b, k in zip(s, rk[r])]
    return bytes(s)


def aes_dec(key, block):
    assert len(key) == 32 and len(block) == 16
    _note('D', key, block)
    rk = _expand(key)
    s = [b ^ k for b, k in zip(block, rk[14])]
    for r in range(13, -1, -1):
        s = [s[(i % 4) + 4 * (((i // 4) - (i % 4)) % 4)] for i in range(16)]
        s = [INV[b] for b in s]
        s = [b ^ k for b, k in zip(s, rk[r])]
        if r > 0:
            s = _mix(s, [14, 11, 13, 9])
    return bytes(s)


assert aes_enc(bytes(range(32)), bytes.fromhex('00112233445566778899aabbccddeeff')).hex() == '8ea2b7ca516745bfeafc49904b496089'
assert aes_dec(bytes(range(32)), bytes.fromhex('8ea2b7ca516745bfeafc49904b496089')).hex() == '00112233445566778899aabbccddeeff'

# ---- scrypt with a cache shared by the judge and the oracle resolver
_SC, _SC_LOCK = {}, threading.Lock()


def SC(pw, salt, n, r, p, dk):
    _note('S', pw, salt, n, r, p, dk)
    k = (pw, salt, n, r, p, dk)
    v = _SC.get(k)
    if v is None:
        v = hashlib.scrypt(pw, salt=salt, n=n, r=r, p=p, dklen=dk, maxmem=1 << 30)
        with _SC_LOCK:
            _SC[k] = v
    return v


# ---- secp256k1
CP = 2 ** 256 - 2 ** 32 - 977
CN = 0xFFFFFFFFFFFFFFFFFFFFFFFFFFFFFFFEBAAEDCE6AF48A03BBFD25E8CD0364141
CG = (0x79BE667EF9DCBBAC55A06295CE870B07029BFCDB2DCE28D959F2815B16F81798,
      0x483ADA7726A3C4655DA4FBFC0E1108A8FD17B448A68554199C47D08FFB10D4B8)


def padd(a, b):
    if a is None:
        return b
    if b is None:
        return a
    if a[0] == b[0]:
        if (a[1] + b[1]) % CP == 0:
            return None
        l = 3 * a[0] * a[0] * pow(2 * a[1], -1, CP) % CP
    else:
        l = (b[1] - a[1]) * pow(b[0] - a[0], -1, CP) % CP
    x = (l * l - a[0] - b[0]) % CP
    return (x, (l * (a[0] - x) - a[1]) % CP)


def pmul(k, pt):
    r = None
    while k:
        if k & 1:
            r = padd(r, pt)
        pt = padd(pt, pt)
        k >>= 1
    return r


def pser(pt, c):
    if c:
        return bytes([2 + (pt[1] & 1)]) + pt[0].to_bytes(32, 'big')
    return b'\x04' + pt[0].to_bytes(32, 'big') + pt[1].to_bytes(32, 'big')


def pparse(b):
    if len(b) == 33 and b[0] in (2, 3):
        x = int.from_bytes(b[1:], 'big')
        y = pow((x * x * x + 7) % CP, (CP + 1) // 4, CP)
        if (y * y - x * x * x - 7) % CP or x >= CP:
            return None
        return (x, y if (y & 1) == (b[0] & 1) else CP - y)
    return None


# ---- Base58 / Base58Check (strict)
B58 = '123456789ABCDEFGHJKLMNPQRSTUVWXYZabcdefghijkmnopqrstuvwxyz'


def b58enc(b):
    n, s = int.from_bytes(b, 'big'), ''
    while n:
        n, r = divmod(n, 58)
        s = B58[r] + s
    return '1' * (len(b) - len(b.lstrip(b'\0'))) + s


def b58dec(s):
    n = 0
    for ch in s:
        i = B58.find(ch)
        if i < 0 or ch == '':
            return None
        n = n * 58 + i
    z = len(s) - len(s.lstrip('1'))
    return b'\0' * z + (n.to_bytes((n.bit_length() + 7) // 8, 'big') if n else b'')


def b58check(b):
    return b58enc(b + sha256d(b)[:4])


def b58check_dec(s):
    d = b58dec(s)
    if d is None or len(d) < 4 or sha256d(d[:-4])[:4] != d[-4:]:
        return None
    return d[:-4]


def xor(a, b):
    assert len(a) == len(b)
    return bytes(x ^ y for x, y in zip(a, b))


# ================================================================ BIP38 from the BIP text (the judge)
def nfc_bytes(text):
    return unicodedata.normalize('NFC', text).encode('utf-8')


def ref_address(pfx, c, k):
    return b58check(pfx + hash160(pser(pmul(k, CG), c)))


def ref_encrypt(pfx, c, k, pw):
    """pw: bytes handed to scrypt (the caller applies NFC)."""
    addr = ref_address(pfx, c, k).encode()
    ah = sha256d(addr)[:4]
    dk = SC(pw, ah, 16384, 8, 8, 64)
    d1, d2 = dk[:32], dk[32:]
    priv = k.to_bytes(32, 'big')
    e1 = aes_enc(d2, xor(priv[:16], d1[:16]))
    e2 = aes_enc(d2, xor(priv[16:], d1[16:]))
    return b58check(b'\x01\x42' + bytes([0xe0 if c else 0xc0]) + ah + e1 + e2)


def ref_encrypt_raw(priv, addr, pw, flag):
    """the BIP's plain-mode steps 2-6 for a caller-supplied address string and flag byte (bip38_encrypt called directly)"""
    ah = sha256d(addr)[:4]
    dk = SC(pw, ah, 16384, 8, 8, 64)
    d1, d2 = dk[:32], dk[32:]
    return b58check(b'\x01\x42' + bytes([flag]) + ah + aes_enc(d2, xor(priv[:16], d1[:16])) + aes_enc(d2, xor(priv[16:], d1[16:])))


def ref_decrypt(s, pw, pfx, strict=True, trace=False):
    """-> (secret, compressed, lot, sequence) or None.  strict=False skips the Base58Check checksum and accepts any
    flag byte (compressed = bit 0x20, lot/sequence = bit 0x04): used only to recognise 'laxer than the BIP' answers."""
    d = b58dec(s)
    if d is None or len(d) != 43:
        return None
    if strict and sha256d(d[:-4])[:4] != d[-4:]:
        return None
    body = d[:-4]
    flag, ah = body[2], body[3:7]
    comp = bool(flag & 0x20)
    if body[:2] == b'\x01\x42':
        if strict and flag not in (0xc0, 0xe0):
            return None
        dk = SC(pw, ah, 16384, 8, 8, 64)
        d1, d2 = dk[:32], dk[32:]
        k = int.from_bytes(xor(aes_dec(d2, body[7:23]), d1[:16]) + xor(aes_dec(d2, body[23:39]), d1[16:]), 'big')
        if not 0 < k < CN or trace:
            return None
        if sha256d(ref_address(pfx, comp, k).encode())[:4] != ah:
            return None
        return (k, comp, None, None)
    if body[:2] == b'\x01\x43':
        if strict and flag & ~0x24:
            return None
        oe = body[7:15]
        has_lot = bool(flag & 0x04)
        pf = SC(pw, oe[:4] if has_lot else oe, 16384, 8, 8, 32)
        if has_lot:
            pf = sha256d(pf + oe)
        pfz = int.from_bytes(pf, 'big')
        if not 0 < pfz < CN:
            return None
        pp = pser(pmul(pfz, CG), True)
        dk = SC(pp, ah + oe, 1024, 1, 1, 64)
        d1, d2 = dk[:32], dk[32:]
        part2 = xor(aes_dec(d2, body[23:39]), d1[16:])
        part1 = xor(aes_dec(d2, body[15:23] + part2[:8]), d1[:16])
        seedb = part1 + part2[8:]
        fb = int.from_bytes(sha256d(seedb), 'big')
        if not 0 < fb < CN or trace:
            return None
        k = pfz * fb % CN
        if sha256d(ref_address(pfx, comp, k).encode())[:4] != ah:
            return None
        ls = int.from_bytes(oe[4:], 'big')
        return (k, comp, ls // 4096 if has_lot else None, ls % 4096 if has_lot else None)
    return None


def ref_intermediate(pw, lot, seq, salt):
    """pw: NFC bytes.  -> string or None (invalid arguments)."""
    if (lot is None) != (seq is None):
        return None
    if lot is not None:
        if not (100000 <= lot <= 999999 and 0 <= seq <= 4095) or len(salt) not in (4, 8):
            return None
        oe = salt[:4] + (lot * 4096 + seq).to_bytes(4, 'big')
        pf = sha256d(SC(pw, salt[:4], 16384, 8, 8, 32) + oe)
        magic = bytes.fromhex('2ce9b3e1ff39e251')
    else:
        if len(salt) != 8:
            return None
        oe = salt
        pf = SC(pw, salt, 16384, 8, 8, 32)
        magic = bytes.fromhex('2ce9b3e1ff39e253')
    return b58check(magic + oe + pser(pmul(int.from_bytes(pf, 'big'), CG), True))


def ref_create_new(ip, c, seed, pfx):
    """-> (wif, confirmation, pubhex, address) or None."""
    d = b58check_dec(ip)
    if d is None or len(d) != 49 or len(seed) != 24:
        return None
    magic, oe, pp = d[:8], d[8:16], d[16:]
    if magic == bytes.fromhex('2ce9b3e1ff39e251'):
        flag = 0x04
    elif magic == bytes.fromhex('2ce9b3e1ff39e253'):
        flag = 0x00
    else:
        return None
    if c:
        flag |= 0x20
    fb = int.from_bytes(sha256d(seed), 'big')
    pt = pparse(pp)
    if not 0 < fb < CN or pt is None:
        return None
    pub = pser(pmul(fb, pt), c)
    addr = b58check(pfx + hash160(pub))
    ah = sha256d(addr.encode())[:4]
    dk = SC(pp, ah + oe, 1024, 1, 1, 64)
    d1, d2 = dk[:32], dk[32:]
    e1 = aes_enc(d2, xor(seed[:16], d1[:16]))
    e2 = aes_enc(d2, xor(e1[8:] + seed[16:], d1[16:]))
    wif = b58check(b'\x01\x43' + bytes([flag]) + ah + oe + e1[:8] + e2)
    pb = pser(pmul(fb, CG), True)
    pbp = bytes([pb[0] ^ (d2[31] & 1)])
    conf = b58check(bytes.fromhex('643bf6a89a') + bytes([flag]) + ah + oe + pbp + aes_enc(d2, xor(pb[1:17], d1[:16])) +
                    aes_enc(d2, xor(pb[17:], d1[16:])))
    return (wif, conf, pub.hex(), addr)


# ================================================================ cases
_NW = None


def networks():
    global _NW
    if _NW is None:
        d = json.load(open(os.path.join(REPO, 'bitcoinlib', 'data', 'networks.json')))
        _NW = {k: bytes.fromhex(v['prefix_address']) for k, v in d.items()}
    return _NW


def hx(b):
    return b.hex() if b else '-'


def unhx(s):
    return b'' if s == '-' else bytes.fromhex(s)


def pwtok(pv):
    """request tokens of a passphrase ARGUMENT: a str (as written + NFC form) or a bytes object"""
    if isinstance(pv, bytes):
        return 'b:' + hx(pv) + ' ' + hx(pv)
    return hx(pv.encode('utf-8')) + ' ' + hx(nfc_bytes(pv))


def spec_bytes(pv):
    """what the BIP hands to scrypt for this argument"""
    return pv if isinstance(pv, bytes) else nfc_bytes(pv)


def pw_parts(pwr, pwn):
    """-> (is a bytes object, bytes as written, bytes the BIP prescribes)"""
    if pwr.startswith('b:'):
        return True, unhx(pwr[2:]), unhx(pwr[2:])
    return False, unhx(pwr), unhx(pwn)


def shex(s):
    return hx(s.encode('utf-8'))


VECTORS = [  # (encrypted, passphrase, wif, compressed)   BIP38 "Test vectors"
    ('6PRVWUbkzzsbcVac2qwfssoUJAN1Xhrg6bNk8J7Nzm5H7kxEbn2Nh2ZoGg', 'TestingOneTwoThree', '5KN7MzqK5wt2TP1fQCYyHBtDrXdJuXbUzm4A9rKAteGu3Qi5CVR'),
    ('6PRNFFkZc2NZ6dJqFfhRoFNMR9Lnyj7dYGrzdgXXVMXcxoKTePPX1dWByq', 'Satoshi', '5HtasZ6ofTHP6HCwTqTkLDuLQisYPah7aUnSKfC7h4hMUVw2gi5'),
    ('6PRW5o9FLp4gJDDVqJQKJFTpMvdsSGJxMYHtHaQBF3ooa8mwD69bapcDQn', 'ϓ\u0000\U00010400\U0001f4a9', '5Jajm8eQ22H3pGWLEVCXyvND8dQZhiQhoLJNKjYXk9roUFTMSZ4'),
    ('6PYNKZ1EAgYgmQfmNVamxyXVWHzK5s6DGhwP4J5o44cvXdoY7sRzhtpUeo', 'TestingOneTwoThree', 'L44B5gGEpqEDRS9vVPz7QT35jcBG2r3CZwSwQ4fCewXAhAhqGVpP'),
    ('6PYLtMnXvfG3oJde97zRyLYFZCYizPU5T3LwgdYJz1fRhh16bU7u6PPmY7', 'Satoshi', 'KwYgW8gcxj1JWJXhPSu4Fqwzfhp5Yfi42mdYmMa4XqK7NJxXUSK7'),
    ('6PfQu77ygVyJLZjfvMLyhLMQbYnu5uguoJJ4kMCLqWwPEdfpwANVS76gTX', 'TestingOneTwoThree', '5K4caxezwjGCGfnoPTZ8tMcJBLB7Jvyjv4xxeacadhq8nLisLR2'),
    ('6PfLGnQs6VZnrNpmVKfjotbnQuaJK4KZoPFrAjx1JMJUa1Ft8gnf5WxfKd', 'Satoshi', '5KJ51SgxWaAYR13zd9ReMhJpwrcX47xTJh2D3fGPG9CM8vkv5sH'),
    ('6PgNBNNzDkKdhkT6uJntUXwwzQV8Rr2tZcbkDcuC9DZRsS6AtHts4Ypo1j', 'MOLON LABE', '5JLdxTtcTHcfYcmJsNVy1v2PMDx432JPoYcBTVVRHpPaxUrdtf8'),
    ('6PgGWtx25kUg8QWvwuJAgorN6k9FbE25rv5dMRwu5SKMnfpfVe5mar2ngH', 'ΜΟΛΩΝ ΛΑΒΕ', '5KMKKuUmAkiNbA3DazMQiLfDq47qs8MAEThm4yL8R2PhV1ov33D'),
]
PASSES = ['TestingOneTwoThree', 'Satoshi', 'p', '', 'correct horse battery staple ' * 4, 'ΜΟΛΩΝ ΛΑΒΕ',
          '密码\U0001f511', 'pass word\twith spaces']
# the same text in NFC and NFD form
NF_PAIRS = [unicodedata.normalize(f, t) for t in ('café Ångström', 'ẛ̣ 가') for f in ('NFC', 'NFD')]
KFMTS = ['hex', 'int', 'bytes']
BADCH = ['0', 'l', '+', '_', ' ', '~']     # outside the alphabet in either case (no lower-case fallback applies)
_PENDING = []


def wif_secret(w):
    d = b58check_dec(w)
    return int.from_bytes(d[1:33], 'big'), len(d) == 34


def enc_req(kfmt, k, c, nw, pw):
    return 'enc %s %d %d %s %s %s' % (kfmt, k, 1 if c else 0, nw, hx(networks()[nw]), pwtok(pw))


def dec_req(cls, s, nw, pw):
    return 'dec %s %s %s %s %s' % (cls, shex(s), nw or '-', hx(networks()[nw or 'bitcoin']), pwtok(pw))


def rand_secret(rng):
    m = rng.randrange(8)
    if m == 0:
        return rng.choice([1, 2, 3, CN - 1, CN - 2, 1 << 128, (1 << 128) - 1, 1 << 255, 255, 256])
    if m == 1:
        return rng.getrandbits(rng.choice([8, 64, 120, 128, 136, 200, 248])) or 1      # leading zero bytes
    return rng.randrange(1, CN)


def rand_pass(rng):
    m = rng.randrange(6)
    if m < 2:
        return rng.choice(PASSES)
    if m == 2:
        return ''.join(rng.choice('abcXYZ019 !@#') for _ in range(rng.randrange(1, 24)))
    if m == 3:
        return ''.join(chr(rng.choice([0x3b1, 0x3a9, 0x4e2d, 0x1f600, 0x10400, 0x41, 0x20])) for _ in range(rng.randrange(1, 10)))
    return 'pw%d' % rng.getrandbits(40)


# ---------------------------------------------------------------- adversarial passphrase arguments
# The step "passphrase argument -> bytes handed to scrypt" must be: str -> UTF-8 of the NFC form, bytes -> as they are.
# Every group below is a way an implementation can get that step wrong while its own round trips keep working.
ADV = {
    'hex_even': ['123456', 'cafebabe', '7e57', 'dead beef', 'CAFEBABE', 'DeadBeef', '00', 'ff', '0000', '12 34', ' 12', '12 ',
                 'ab\tcd', 'e0', '1234567890', 'deadbeef' * 8, '00' * 32, 'Ab' * 33],
    'hex_odd': ['123', 'abc', 'f', 'abcde', '12345', '0', 'dead bee', '1 2', 'cafebab'],
    'hex_near': ['0x1234', '12345g', 'cafe-babe', '#c0ffee', '12:34:56', 'deadbeefh'],
    'digits': ['000000', '42', '9', '0123456789' * 2, '1e3', '-1', '0.5'],
    'blank': ['', ' ', '  ', '\t', '\n', '\r\n', ' \t ', '\u00a0', '\u3000'],
    'nul': ['\x00', 'a\x00b', 'pass\x00', '\x00pass', '\x00\x00', 'pass\x00word'],
    'long': ['a' * 63, 'a' * 64, 'a' * 65, 'ab' * 500, 'x' * 4096, '\u00e9' * 300, 'f' * 127, ' ' * 70],
    'ascii': ['p', 'Satoshi', 'TestingOneTwoThree', 'correct horse battery staple', 'Pass Word', 'UPPER', 'lower', '~!@#$%^&*()_+'],
    'uni_stable': ['ΜΟΛΩΝ ΛΑΒΕ', '密码\U0001f511', 'caf\u00e9', '\u00c5ngstr\u00f6m', '\u00df', '\u0130stanbul', '\U0001f600', 'пароль',
                   '\u00ff', '\u0100', '\u00e9\u00e9', '\ufb01', '\u00bd', '\U00010400', '\u0646\u0635'],
    'uni_unstable': ['e\u0301', 'cafe\u0301', '\u212b', '\u2126', '\u1e9b\u0323', '\u1100\u1161', 'ϓ\u0000\U00010400\U0001f4a9',
                     'A\u030angstro\u0308m', '\u0344', 'q\u0323\u0307'],
    'bytes': [b'123456', b'\x124V', b'\xca\xfe\xba\xbe', b'cafebabe', b'', b'\x00', b'\xff\xfe\xfd', b'pass', b'e\xcc\x81', b' ',
              b'dead beef', b'\xc3\xa9', b'\xe9', b'a' * 65, b'7e57'],
}
# always present in the quick tier (the rest is sampled)
ADV_CORE = ['123456', 'cafebabe', 'dead beef', 'CAFEBABE', '00', '12 ', 'deadbeef' * 8, '123', '0x1234', '000000', '', ' ', '\x00',
            'pass\x00word', 'a' * 65, 'ab' * 500, 'Pass Word', 'caf\u00e9', '\u00ff', 'e\u0301', '\u212b', b'123456', b'\x124V', b'', b'\xff\xfe\xfd',
            b'e\xcc\x81']


# ---- compatibility characters: NFC (what BIP38 prescribes) keeps them, NFKC / NFKD fold them to look-alikes
COMPAT_STABLE = ['\ufb01sh & chips\u2122', '\uff11\uff12\uff13\uff14\uff15\uff16', 'x\u00b2+y\u00b3=z\u2074', '\u3131\u314f\u3134 \u3147', 'No\u2116 \u2460\u2461\u00bd',
                 '\ufb03ce \u2122 \uff21\uff42', '\u2075\u2076 \u2080\u2081', '\u33a1 \u3392 \u00aa\u00ba', '\u01c4 \u0132 \u017f', '\u2002wide\u2003blank\u3000']
COMPAT_UNSTABLE = ['\u212bngstr\u00f6m \u2122', '5 k\u2126 \u2122', '\u1100\u1161 \u3131', '\ufb01 e\u0301', '\u2126\u212b\uff11']
assert all(unicodedata.normalize('NFC', t) == t and unicodedata.normalize('NFKC', t) != t for t in COMPAT_STABLE)
assert all(unicodedata.normalize('NFC', t) != t and unicodedata.normalize('NFKC', t) != unicodedata.normalize('NFC', t) for t in COMPAT_UNSTABLE)
LOTS_OK = [100000, 999999, 567890, 100001, 262144, 524288]
SEQS_OK = [0, 1, 4095, 2048]
# import entry points and their arguments (adapter: harness/impl/c15_impl.py, request field 2 of "dec")
WP_RIGHT = ['key', 'k:u', 'k:cps', 'hd:legacy', 'hd:legacy:m', 'hd:legacy:u', 'hd:legacy:cp']
WP_VARIANTS = ['key', 'k:u', 'k:ps', 'hd:legacy', 'hd:def', 'hd:segwit', 'hd:p2sh-segwit', 'hd:legacy:m', 'hd:def:m', 'hd:segwit:u', 'hd:def:cp',
               'hd:p2sh-segwit:m']


def wrong_passes(pv):
    """passphrases that differ from pv per the BIP (different NFC bytes), by kind; all NFC-stable so that none falls into the
    recorded class passphrase_not_nfc"""
    cand = [('char', pv[:-1] + chr(ord(pv[-1]) + 1)), ('case', pv.swapcase()), ('blank', pv + ' '), ('nfkc', unicodedata.normalize('NFKC', pv)),
            ('empty', ''), ('prefix', pv[:-1]), ('lead', ' ' + pv)]
    out, seen = [], {nfc_bytes(pv)}
    for kind, w in cand:
        if nfc_bytes(w) in seen or nfc_bytes(w) != w.encode('utf-8'):
            continue
        seen.add(nfc_bytes(w))
        out.append((kind, w))
    out.append(('bytes', pv.encode('utf-8') + b'!'))         # a bytes object as the passphrase argument
    return out


def _dedup(vals, pv):
    out, seen = [], {spec_bytes(pv)}
    for v in vals:
        if v is None:
            continue
        sb = spec_bytes(v)
        if sb in seen or (isinstance(v, str) and nfc_bytes(v) != v.encode('utf-8')):
            continue            # same passphrase per the BIP, or itself in the recorded class passphrase_not_nfc
        seen.add(sb)
        out.append(v)
    return out


def aliases(pv):
    """Passphrase arguments that are DIFFERENT from pv per the BIP (different scrypt input) but that an implementation
    with a wrong argument -> bytes step may treat as the same.  Most promising first."""
    if isinstance(pv, bytes):
        t = None
        try:
            t = pv.decode('utf-8')
        except UnicodeDecodeError:
            pass
        vals = []
        if t is not None:
            try:
                vals.append(bytes.fromhex(t))
            except ValueError:
                pass
        vals += [pv.hex().encode(), pv.hex(), pv + b' ', pv.upper(), pv.lower(), pv.strip(), pv.rstrip(b'\0'), pv.split(b'\0')[0],
                 pv.decode('latin-1'), pv[:-1], pv + b'\n', pv[:64], pv[:72]]
        return _dedup(vals, pv)
    vals = []
    try:
        raw = bytes.fromhex(pv)
        vals.append(raw)                                   # the bytes a hex-looking text spells
        try:
            vals.append(raw.decode('utf-8'))               # and the text with that encoding
        except UnicodeDecodeError:
            vals.append(raw.decode('latin-1'))
    except ValueError:
        pass
    vals += [pv + ' ', pv.swapcase(), pv.upper(), pv.lower(), ' ' + pv, pv.strip(), pv.replace(' ', ''), pv.split('\x00')[0], pv.rstrip('\x00'),
             pv.encode('utf-8').hex(), pv.encode('utf-8').hex().encode(), pv[:-1], pv + '\n', pv.casefold(),
             unicodedata.normalize('NFKC', pv), unicodedata.normalize('NFKD', pv), pv[:64], pv[:72], pv[:255]]
    try:
        vals.append(pv.encode('latin-1'))                  # bytes of another codec
    except UnicodeEncodeError:
        pass
    try:
        vals.append(pv.encode('utf-8').decode('latin-1'))  # mojibake
    except UnicodeDecodeError:
        pass
    return _dedup(vals, pv)


def adv_pick(rng, big):
    """the adversarial passphrase arguments of this run, with their group"""
    group = {v: g for g, vs in ADV.items() for v in vs}
    if big:
        out = [(v, g) for g, vs in ADV.items() for v in vs]
        for _ in range(40):             # random members of the hex-looking family
            n = rng.randrange(1, 20)
            t = ''.join(rng.choice('0123456789abcdefABCDEF') for _ in range(n))
            if rng.random() < 0.3:
                i = rng.randrange(len(t) + 1)
                t = t[:i] + ' ' + t[i:]
            out.append((t, 'hex_rand'))
        return out
    out = [(v, group[v]) for v in ADV_CORE]
    for g, vs in ADV.items():
        rest = [v for v in vs if v not in ADV_CORE]
        if rest:
            out.append((rng.choice(rest), g))
    for _ in range(3):
        n = 2 * rng.randrange(1, 9)
        out.append((''.join(rng.choice('0123456789abcdefABCDEF') for _ in range(n)), 'hex_rand'))
    return out


def gen_cases(rng, tier):
    big = tier == 'thorough'
    nws = networks()
    names = sorted(nws)
    cs = []
    heavy = []      # thunks that need the judge's scrypt to build the request; run in a thread pool

    def add(kind, req):
        cs.append(Case(kind, req))

    # ---- corpus: published vectors, decrypt and (plain mode) encrypt; the two-call entropy histories
    for e, pw, w in VECTORS:
        k, c = wif_secret(w)
        add('vec_dec', dec_req('key', e, None if len(cs) % 2 else 'bitcoin', pw))
        if e[:3] in ('6PR', '6PY'):
            add('vec_enc', enc_req('hex', k, c, 'bitcoin', pw))
        else:
            add('vec_decinfo', 'decinfo %s %s' % (shex(e), pwtok(pw)))
    add('vec_dec', dec_req('hdkey', VECTORS[3][0], None, VECTORS[3][1]))
    add('vec_enc', enc_req('hdkey', wif_secret(VECTORS[1][2])[0], False, 'bitcoin', 'Satoshi'))
    for h in ('I,I', 'N,N', 'I,N,I,N', 'N,Nx,N', 'Ix,I,I', 'N,N,N,N,N'):
        add('fresh', 'fresh ' + h)
    for _ in range(40 if big else 3):
        add('fresh', 'fresh ' + ','.join(rng.choice(['I', 'N', 'N', 'Ix', 'Nx']) for _ in range(rng.randrange(2, 6))))

    # ---- oracle cross-checks
    for pw, salt, n, r, p, dk in ((b'pw', b'salt', 16384, 8, 8, 64), (b'', b'\0\0\0\0', 16384, 8, 8, 32),
                                  (b'\x02' + b'\x11' * 32, b'12345678abcd', 1024, 1, 1, 64)):
        add('oracle_scrypt', 'oracle_scrypt %s %s %d %d %d %d' % (hx(pw), hx(salt), n, r, p, dk))
    for _ in range(200 if big else 24):
        add('oracle_aes', 'oracle_aes %s %s %s' % (rng.choice('ED'), rng.randbytes(32).hex(), rng.randbytes(16).hex()))

    # ---- addresses (cheap): every network, both forms
    for nw in names:
        for c in (True, False):
            for k in [1, CN - 1] + [rand_secret(rng) for _ in range(30 if big else 2)]:
                add('addr', 'addr %s %s %d %d' % (nw, hx(nws[nw]), 1 if c else 0, k))

    # ---- plain mode: encrypt, decrypt with the right / a wrong passphrase, right / wrong / no network
    def plain(k, c, nw, pw, kfmt, extra):
        def build():
            out = [Case('enc', enc_req(kfmt, k, c, nw, pw))]
            e = ref_encrypt(nws[nw], c, k, nfc_bytes(pw))
            out.append(Case('dec_right', dec_req('key', e, nw, pw)))
            if 'wrong' in extra:
                out.append(Case('dec_wrong_pass', dec_req('key', e, nw, pw + rng_suffix)))
            if 'nonet' in extra:
                out.append(Case('dec_no_network', dec_req('key', e, None, pw)))
            if 'othernet' in extra:
                out.append(Case('dec_other_network', dec_req('key', e, 'dogecoin' if nw != 'dogecoin' else 'bitcoin', pw)))
            if 'hdkey' in extra:
                out.append(Case('dec_right', dec_req('hdkey', e, nw, pw)))
            if 'checksum' in extra:
                bad = e[:-1] + B58[(B58.index(e[-1]) + 1) % 58]
                out.append(Case('dec_bad_checksum', dec_req('key', bad, nw, pw)))
            if 'flag20' in extra and c:
                d = b58dec(e)[:-4]
                out.append(Case('dec_flag20', dec_req('key', b58check(d[:2] + b'\x20' + d[3:]), nw, pw)))
            if 'midchar' in extra:
                i = 20 + k % 20
                bad = e[:i] + B58[(B58.index(e[i]) + 7) % 58] + e[i + 1:]
                out.append(Case('dec_corrupted', dec_req('key', bad, nw, pw)))
            return out
        return build
    rng_suffix = 'x'
    fixed = [(1, True, 'bitcoin', 'p', 'int', ('wrong', 'checksum', 'flag20')), (CN - 1, False, 'bitcoin', 'TestingOneTwoThree', 'hex', ('nonet',)),
             (0xabcdef, True, 'litecoin', PASSES[5], 'int', ('nonet', 'othernet')), ((1 << 128) - 5, False, 'testnet', '', 'bytes', ('wrong',)),
             (rng.randrange(1, CN), True, 'dogecoin', PASSES[6], 'hex', ('hdkey', 'midchar')),
             (rng.randrange(1, CN), False, 'bitcoinlib_test', PASSES[4], 'bytes', ('wrong',))]
    for f in fixed:
        heavy.append(plain(*f))
    for _ in range(160 if big else 4):
        extra = tuple(x for x in ('wrong', 'nonet', 'othernet', 'hdkey', 'checksum', 'flag20', 'midchar') if rng.random() < 0.18)
        heavy.append(plain(rand_secret(rng), rng.random() < 0.5, rng.choice(names), rand_pass(rng), rng.choice(KFMTS), extra))
    # NFC / NFD forms of the same text: BIP38 says both must give the same key
    for i in range(0, len(NF_PAIRS), 2):
        a, b = NF_PAIRS[i], NF_PAIRS[i + 1]
        k = rand_secret(rng)

        def build(a=a, b=b, k=k):
            e = ref_encrypt(nws['bitcoin'], True, k, nfc_bytes(a))
            return [Case('enc_nfc', enc_req('hex', k, True, 'bitcoin', a)), Case('enc_nfd', enc_req('hex', k, True, 'bitcoin', b)),
                    Case('dec_nfc', dec_req('key', e, 'bitcoin', a)), Case('dec_nfd', dec_req('key', e, 'bitcoin', b))]
        heavy.append(build)

    # ---- malformed / structural (cheap unless stated)
    base = VECTORS[0][0]
    body = b58dec(base)[:-4]
    for flag in range(256):                 # every flag byte of a plain-mode key (c0 / e0 / 20 reach scrypt)
        if flag in (0xc0, 0xe0, 0x20) and not (big or flag == 0xc0):
            continue
        add('dec_flag', dec_req('key', b58check(body[:2] + bytes([flag]) + body[3:]), None, 'TestingOneTwoThree'))
    for ident in (b'\x01\x41', b'\x01\x44', b'\x01\x00', b'\x00\x42', b'\x02\x42', b'\x01\x40', b'\x01\x45', b'\xff\xff'):
        s = b58check(ident + body[2:])
        add('dec_identifier', dec_req('key', s, None, 'x'))
        add('fmt', 'fmt ' + shex(s))
    for s in [base[:57], base + '1', base[:-1], '6P', '', '6' + base[1:], '5P' + base[2:], '6p' + base[2:], 'P6' + base[2:], base[1:] + '6',
              '6P' + '1' * 56, '6P' + 'z' * 56, '6O' + base[2:], '6Q' + base[2:]]:
        add('fmt', 'fmt ' + shex(s))
        add('dec_shape', dec_req('key', s, None, 'x'))
    for e, _, _ in VECTORS:
        add('fmt', 'fmt ' + shex(e))
    for _ in range(400 if big else 40):
        i = rng.randrange(2, 58)
        s = base[:i] + rng.choice(BADCH) + base[i + 1:]
        add('dec_badchar', dec_req('key', s, None, 'x'))
        add('fmt', 'fmt ' + shex(s))
    for _ in range(2000 if big else 150):
        n = rng.choice([56, 57, 58, 58, 58, 59, 60, rng.randrange(0, 80)])
        s = rng.choice(['6P', '6P', '6P', '5K', '6p', 'L', '']) + ''.join(rng.choice(B58) for _ in range(n))
        s = s[:n]
        add('fmt', 'fmt ' + shex(s))

    # ---- EC-multiplied mode
    salts8 = [bytes.fromhex('d7ebe42cf42a79f4'), bytes.fromhex('75ed1cdeb254cb38'), b'\0' * 8, b'\xff' * 8]
    inter_plans = [('MOLON LABE', None, None, salts8[0]), ('MOLON LABE', 100000, 1, salts8[0]), ('MOLON LABE', 100000, 1, salts8[0][:4]),
                   ('TestingOneTwoThree', 199999, 1, salts8[1]), (PASSES[5], 999999, 4095, salts8[3]), ('p', 100000, 4095, salts8[2][:4]),
                   ('', None, None, salts8[2]), (NF_PAIRS[0], None, None, salts8[1]), (NF_PAIRS[1], None, None, salts8[1]),
                   ('p', 100000, 0, salts8[0]), ('p', 999999, 0, salts8[0][:4])]
    for _ in range(60 if big else 2):
        ls = rng.random() < 0.6
        inter_plans.append((rand_pass(rng), rng.choice([100000, 999999, rng.randrange(100000, 1000000)]) if ls else None,
                            rng.choice([1, 4095, rng.randrange(1, 4096)]) if ls else None,
                            rng.randbytes(4 if ls and rng.random() < 0.3 else 8)))

    def inter_req(pw, lot, seq, salt):
        return 'inter %s %s %s %s' % (pwtok(pw), '-' if lot is None else lot, '-' if seq is None else seq, hx(salt))

    def ec(pw, lot, seq, salt, n_new, n_dec, extras):
        draws = []          # everything random is drawn here, before the thread pool runs
        for j in range(n_new):
            nw = 'bitcoin' if j % 3 != 2 else rng.choice(names)
            c = bool((j // 2) % 2) if j < 4 else rng.random() < 0.5
            seed = rng.randbytes(24) if j else bytes.fromhex('9b6cad86daddae99ac3b76c1e47e61bc7f4665d02e10c290')
            draws.append((nw, c, seed))

        def build():
            out = [Case('inter', inter_req(pw, lot, seq, salt))]
            ip = ref_intermediate(nfc_bytes(pw), lot, seq, salt)
            if ip is None:
                return out
            made = []
            for nw, c, seed in draws:
                out.append(Case('new', 'new %s %s %s %d %s' % (nw, hx(nws[nw]), shex(ip), 1 if c else 0, hx(seed))))
                made.append((nw, ref_create_new(ip, c, seed, nws[nw])[0]))
            for j, (nw, wif) in enumerate(made[:n_dec]):
                out.append(Case('ec_dec_right' if nws[nw] == b'\x00' else 'ec_dec_foreign', dec_req('key', wif, nw, pw)))
                if j == 0 and extras:
                    out.append(Case('ec_decinfo', 'decinfo %s %s' % (shex(wif), pwtok(pw))))
                    out.append(Case('ec_dec_wrong_pass', dec_req('key', wif, nw, pw + 'y')))
                if j == 1:
                    out.append(Case('ec_dec_no_network', dec_req('key', wif, None, pw)))
            return out
        return build
    for i, pl in enumerate(inter_plans):
        heavy.append(ec(*pl, n_new=(30 if big else 4) if i < 6 else (12 if big else 2),
                        n_dec=(3 if i < 4 else 1) if not big else 4, extras=big or i < 6))
    # invalid arguments of the generating functions (cheap)
    for lot, seq, salt in ((99999, 1, salts8[0]), (1000000, 1, salts8[0]), (100000, 4096, salts8[0]), (100000, -1, salts8[0]),
                           (100000, None, salts8[0]), (None, 5, salts8[0]), (None, None, salts8[0][:4]), (100000, 1, salts8[0][:5]),
                           (None, None, b''), (None, None, salts8[0] + b'\1'), (0, 5, salts8[0]), (100000, 1, salts8[0][:3])):
        add('inter_invalid', inter_req('p', lot, seq, salt))
    good_ip = 'passphraserDFxboKK9cTkBQMb73vdzgsXB5L6cCMFCzTVoMTpMWYD8SJXv3jcKyHbRWBcza'
    ipb = b58check_dec(good_ip)
    seed0 = '9b6cad86daddae99ac3b76c1e47e61bc7f4665d02e10c290'
    bad_ips = [good_ip[:-1] + 'b', good_ip[:-2], good_ip + '1', 'passphrase', b58check(ipb[:-1]), b58check(ipb + b'\0'),
               b58check(b'\x2c\xe9\xb3\xe1\xff\x39\xe2\x52' + ipb[8:]), b58check(b'\0' * 8 + ipb[8:]), good_ip[:20] + '0' + good_ip[21:],
               good_ip[:20] + '_' + good_ip[21:], b58check(ipb[:8] + b'\0' * 8 + ipb[16:])]
    for ip in bad_ips:
        for c in (0, 1):
            add('new_malformed', 'new bitcoin 00 %s %d %s' % (shex(ip), c, seed0))
    for nw in names:
        for c in (0, 1):
            add('new', 'new %s %s %s %d %s' % (nw, hx(nws[nw]), shex(good_ip), c, seed0))
    for _ in range(1500 if big else 30):
        add('new', 'new %s %s %s %d %s' % ('bitcoin', '00', shex(good_ip), rng.randrange(2), rng.randbytes(24).hex()))

    # ---- adversarial passphrase arguments through every entry point; every ciphertext is built by the judge
    advs = adv_pick(rng, big)
    n_alias = 99 if big else 2
    kf_cycle = ['hex', 'int', 'bytes', 'hdkey']
    for i, (pv, grp) in enumerate(advs):
        k = rand_secret(rng) if i % 3 else [1, CN - 1, 0xabcdef][(i // 3) % 3]
        c = bool(i % 2)
        nw = 'bitcoin' if i % 4 else names[(i // 4) % len(names)]
        kfmt = kf_cycle[i % 4]
        al = aliases(pv)
        if not big and len(al) > n_alias:       # the most promising one + a random other one
            al = [al[0], rng.choice(al[1:])]

        def build_plain(pv=pv, grp=grp, k=k, c=c, nw=nw, kfmt=kfmt, al=al, i=i):
            out = [Case('adv_enc:' + grp, enc_req(kfmt, k, c, nw, pv))]
            e = ref_encrypt(nws[nw], c, k, spec_bytes(pv))
            out.append(Case('adv_dec_right:' + grp, dec_req('hdkey' if i % 5 == 4 else 'key', e, nw if i % 3 else None if nws[nw] == b'\x00' else nw, pv)))
            if i % 3 == 0 or big:
                out.append(Case('adv_decinfo:' + grp, 'decinfo %s %s' % (shex(e), pwtok(pv))))
            if i % 4 == 1 or big:
                addr = ref_address(nws[nw], c, k).encode()
                out.append(Case('adv_encfn:' + grp, 'encfn %064x %s %s %s %s' % (k, 'sb'[(i // 4) % 2], hx(addr),
                                                                           ('e0' if c else 'c0') if (i // 8) % 2 == 0 or not c else 'def', pwtok(pv))))
            for a in al:
                # a ciphertext made for pv, opened with a different passphrase; and the reverse direction
                out.append(Case('adv_dec_alias:' + grp, dec_req('key', e, nw, a)))
            if al and (i % 2 == 0 or big):
                e2 = ref_encrypt(nws[nw], c, k, spec_bytes(al[0]))
                out.append(Case('adv_dec_alias_rev:' + grp, dec_req('key', e2, nw, pv)))
            return out
        heavy.append(build_plain)

    # EC-multiplied: intermediate code for the argument -> new keys (judge-built code) -> decrypt (judge-built keys)
    ec_core = ['123456', 'cafebabe', 'dead beef', 'CAFEBABE', '12 ', 'deadbeef' * 8, '', ' ', 'pass\x00word', 'caf\u00e9', 'e\u0301', b'123456', b'\x124V']
    ec_advs = advs if big else [x for j, x in enumerate(advs) if x[0] in ec_core or j % 9 == 4]
    for i, (pv, grp) in enumerate(ec_advs):
        ls = i % 2 == 0
        lot = [100000, 999999, 567890, 262144][(i // 2) % 4] if ls else None
        seq = [1, 4095, 2049, 17][(i // 2) % 4] if ls else None
        salt = rng.randbytes(4 if ls and i % 4 == 0 else 8)
        seeds = [rng.randbytes(24), rng.randbytes(24)]
        al = aliases(pv)
        if not big and len(al) > 1:
            al = [al[0]] if i % 2 else [rng.choice(al)]

        def build_ec(pv=pv, grp=grp, lot=lot, seq=seq, salt=salt, seeds=seeds, al=al, i=i):
            out = [Case('adv_inter:' + grp, inter_req(pv, lot, seq, salt))]
            ip = ref_intermediate(spec_bytes(pv), lot, seq, salt)
            for j, seed in enumerate(seeds):
                c = bool((i + j) % 2)
                out.append(Case('adv_new:' + grp, 'new bitcoin 00 %s %d %s' % (shex(ip), 1 if c else 0, hx(seed))))
                wif = ref_create_new(ip, c, seed, b'\x00')[0]
                if j == 0:
                    out.append(Case('adv_ec_dec_right:' + grp, dec_req('hdkey' if i % 5 == 2 else 'key', wif, 'bitcoin' if i % 2 else None, pv)))
                    for a in al:
                        out.append(Case('adv_ec_dec_alias:' + grp, dec_req('key', wif, 'bitcoin', a)))
                elif i % 2 == 0 or big:
                    out.append(Case('adv_ec_decinfo:' + grp, 'decinfo %s %s' % (shex(wif), pwtok(pv))))
                else:
                    out.append(Case('adv_ec_dec_right:' + grp, dec_req('key', wif, 'bitcoin', pv)))
            return out
        heavy.append(build_ec)

    # ---- the WRONG-passphrase direction through every import entry point and every argument of it.  Ciphertexts are built by
    # the judge (plain compressed / uncompressed / foreign network, EC-multiplied with and without lot/sequence); each is opened
    # with the right passphrase where the entry point is BIP38-conformant (Key, HDKey legacy, with every further argument) and with
    # wrong passphrases of several kinds through ALL entry points, including the witness types whose right-passphrase behaviour is
    # the recorded class hdkey_default_witness (there a refusal is what the library does; returning a key is never acceptable).
    wp_plans = [('plain', True, 'bitcoin', 'ﬁsh & Chips™ ２０２４', None, None),
                ('plain', False, 'bitcoin', 'Correct Horse 9', None, None),
                ('plain', True, 'litecoin', 'x²+y³ Pass', None, None),
                ('ec', True, 'bitcoin', 'Molon Labe ㄱㅏ', None, None),
                ('ec', False, 'bitcoin', 'ﬁsh & Chips™', 567890, 4095),
                ('ec', True, 'bitcoin', 'Correct Horse 9', 100000, 1)]
    if big:
        for _ in range(12):
            ls = rng.random() < 0.5
            wp_plans.append((rng.choice(['plain', 'ec']), rng.random() < 0.5, rng.choice(['bitcoin', 'bitcoin', 'litecoin', 'dogecoin']),
                             rng.choice(COMPAT_STABLE + ['Correct Horse 9', 'Pass Word']) + ' Aa', rng.choice(LOTS_OK) if ls else None,
                             rng.choice(SEQS_OK) if ls else None))
    for i, (mode, c, nw, pv, lot, seq) in enumerate(wp_plans):
        if mode == 'ec' and nw != 'bitcoin':
            nw = 'bitcoin'          # EC-multiplied keys of other networks: recorded class ec_foreign_network
        k = rand_secret(rng)
        salt, seed = rng.randbytes(8), rng.randbytes(24)
        wr = wrong_passes(pv)
        n_w, n_v = len(wr), len(WP_VARIANTS)
        rot = rng.randrange(64)

        def build_wp(i=i, mode=mode, c=c, nw=nw, pv=pv, lot=lot, seq=seq, k=k, salt=salt, seed=seed, wr=wr, rot=rot):
            out = []
            if mode == 'plain':
                e = ref_encrypt(nws[nw], c, k, nfc_bytes(pv))
                out.append(Case('wp_enc', enc_req(KFMTS[i % 3], k, c, nw, pv)))
            else:
                e = ref_create_new(ref_intermediate(nfc_bytes(pv), lot, seq, salt), c, seed, nws[nw])[0]
            for j, v in enumerate(WP_RIGHT):             # right passphrase: conformant entry points, every further argument
                if big or (i + j) % 3 == 0:
                    out.append(Case('wp_right:' + v, dec_req(v, e, nw if (i + j) % 3 else None if nws[nw] == b'\x00' else nw, pv)))
            # wrong passphrase: every entry point x every kind (thorough); quick: three kinds per key (so that the judge's scrypt
            # is shared), every second entry point per key, the default HDKey call with all three
            wq = wr if big else [wr[(rot + t) % len(wr)] for t in range(min(3, len(wr)))]
            for j, v in enumerate(WP_VARIANTS):
                for m, (wk, w) in enumerate(wq):
                    if big or ((i + j) % 2 == 0 and (j // 2 + rot) % len(wq) == m) or (v == 'hd:def' and i in (0, 3, 4)):
                        out.append(Case('wp_wrong:%s:%s' % (v, wk), dec_req(v, e, nw if (j + m) % 4 else None if nws[nw] == b'\x00' else nw, w)))
            if mode == 'ec':
                out.append(Case('wp_decinfo_right', 'decinfo %s %s' % (shex(e), pwtok(pv))))
                for m, (wk, w) in enumerate(wq):
                    if big or m == rot % len(wq):
                        out.append(Case('wp_decinfo_wrong:' + wk, 'decinfo %s %s' % (shex(e), pwtok(w))))
            return out
        heavy.append(build_wp)

    # ---- compatibility characters (NFC keeps them, NFKC folds them) in EVERY branch of intermediate-code creation, judged by
    # the BIP (NFC, never NFKC); keys made from the judge's code must open with their own passphrase and not with the folded one
    cp_pass = COMPAT_STABLE + COMPAT_UNSTABLE if big else COMPAT_STABLE[:6] + COMPAT_UNSTABLE[:3]
    for i, pv in enumerate(cp_pass):
        branches = [(None, None, 8)]
        if big:
            branches += [(l, s, n) for l in LOTS_OK for s in SEQS_OK[1:] for n in (4, 8)]
        else:
            branches += [(LOTS_OK[i % len(LOTS_OK)], SEQS_OK[1:][(i // 2) % 3], 4 if i % 3 == 0 else 8)]
        stable = nfc_bytes(pv) == pv.encode('utf-8')
        folded = unicodedata.normalize('NFKC', pv)
        for b, (lot, seq, sl) in enumerate(branches):
            salt, seed = rng.randbytes(sl), rng.randbytes(24)

            def build_cp(i=i, b=b, pv=pv, lot=lot, seq=seq, salt=salt, seed=seed, stable=stable, folded=folded):
                tag = 'lot' if lot is not None else 'nolot'
                out = [Case('compat_inter:' + tag, inter_req(pv, lot, seq, salt))]
                if not stable or not (big or (i + b) % 2 == 0):
                    return out          # a non-NFC passphrase at the decrypting side is the recorded class passphrase_not_nfc
                c = bool((i + b) % 2)
                ip = ref_intermediate(nfc_bytes(pv), lot, seq, salt)
                out.append(Case('compat_new:' + tag, 'new bitcoin 00 %s %d %s' % (shex(ip), 1 if c else 0, hx(seed))))
                wif = ref_create_new(ip, c, seed, b'\x00')[0]
                out.append(Case('compat_dec_right:' + tag, dec_req('key' if (i + b) % 3 else 'hd:legacy', wif, 'bitcoin' if i % 2 else None, pv)))
                if folded != pv:
                    out.append(Case('compat_dec_folded:' + tag, dec_req('key' if (i + b) % 2 else 'hd:def', wif, 'bitcoin', folded)))
                return out
            heavy.append(build_cp)
    # every lot / sequence boundary (cheap where the arguments are invalid: refused before scrypt)
    for j, (lot, seq) in enumerate([(0, 0), (0, 1), (1, 1), (1, 4095), (4095, 1), (99999, 4095), (1000000, 0), (1048575, 1), (1048575, 4095),
                                    (1048576, 1), (100000, 4096), (999999, 4096), (999999, 1048575), (100000, -1), (-1, 1), (4294967295, 1)]):
        add('compat_inter_invalid', inter_req(cp_pass[j % len(cp_pass)], lot, seq, salts8[j % 4] if j % 3 else salts8[j % 4][:4]))
    for j, (lot, seq) in enumerate([(100000, 0), (999999, 0)]):       # sequence 0 is legal per the BIP (recorded class sequence_zero_refused)
        add('compat_inter:seq0', inter_req(cp_pass[j], lot, seq, salts8[j]))

    with ThreadPoolExecutor(12) as ex:
        for out in ex.map(lambda f: f(), heavy):
            cs.extend(out)
    _PENDING[:] = cs
    return cs


# ================================================================ oracle resolution (two-phase protocol, batched)
_TABLE = {}


def _answer(q):
    f = q.split(':')
    if f[0] == 'S':
        return hx(SC(unhx(f[1]), unhx(f[2]), int(f[3]), int(f[4]), int(f[5]), int(f[6])))
    key, blk = unhx(f[1]), unhx(f[2])
    if len(key) != 32 or len(blk) != 16:
        return None
    return hx(aes_enc(key, blk) if f[0] == 'E' else aes_dec(key, blk))


def _preseed(req):
    """Optimisation only: the oracle calls the judge itself makes for this request (both passphrase forms, lax
    decoding) are offered to the model up front, so that most requests resolve in one driver run.  Whatever is
    missing is still answered query by query below."""
    t = req.split(' ')
    _REC.log = log = []
    try:
        if t[0] in ('enc', 'spec_enc'):
            for pw in set(pw_parts(t[6], t[7])[1:]):
                ref_encrypt(unhx(t[5]), t[3] == '1', int(t[2]), pw)
        elif t[0] in ('dec', 'spec_dec'):
            for pw in set(pw_parts(t[5], t[6])[1:]):
                ref_decrypt(_text(t[2]), pw, unhx(t[4]), strict=False, trace=True)
        elif t[0] == 'decinfo':
            for pw in set(pw_parts(t[2], t[3])[1:]):
                ref_decrypt(_text(t[1]), pw, b'\x00', strict=False, trace=True)
        elif t[0] == 'encfn':
            ref_encrypt_raw(unhx(t[1]), unhx(t[3]), pw_parts(t[5], t[6])[1], 0xe0 if t[4] == 'def' else int(t[4], 16))
        elif t[0] in ('inter', 'spec_inter'):
            ref_intermediate(pw_parts(t[1], t[2])[2], None if t[3] == '-' else int(t[3]), None if t[4] == '-' else int(t[4]), unhx(t[5]))
        elif t[0] == 'new':
            ref_create_new(_text(t[3]), t[4] == '1', unhx(t[5]), unhx(t[2]))
    except Exception:
        pass
    finally:
        _REC.log = None
    out = []
    for e in log:
        q = ':'.join([e[0]] + [hx(x) if isinstance(x, bytes) else str(x) for x in e[1:]])
        a = _answer(q)
        if a is not None and q + ':' + a not in out:
            out.append(q + ':' + a)
    return out


_OUT = {}          # request -> answer of the extracted model once all its oracle queries are in the table
_TWIN = ('enc ', 'dec ', 'inter ')


def twin_of(req):
    """the request that evaluates the extracted Gallina model OF THE BIP TEXT on the same arguments, or None"""
    if not req.startswith(_TWIN):
        return None
    t = req.split(' ')
    if t[0] == 'dec':
        txt = _text(t[2])
        if len(txt) != 58 or any(ch not in B58 for ch in txt):
            return None         # the BIP speaks about Base58Check strings of 43 bytes; anything else is judged by ref_decrypt alone
    if t[0] == 'inter' and (t[3] == '-') != (t[4] == '-'):
        return None
    return 'spec_' + req


def _run_driver_par(exe, lines, nproc=8):
    if len(lines) < 64:
        rc, outs, err = core.run_driver(exe, lines)
        return outs if len(outs) == len(lines) else None, err
    n = min(nproc, len(lines) // 32)
    chunks = [lines[i::n] for i in range(n)]
    with ThreadPoolExecutor(n) as ex:
        rs = list(ex.map(lambda ch: core.run_driver(exe, ch), chunks))
    outs = [None] * len(lines)
    for w, (rc, o, err) in enumerate(rs):
        if len(o) != len(chunks[w]):
            return None, err
        for j, x in enumerate(o):
            outs[w + j * n] = x
    return outs, ''


def _resolve(reqs):
    exe, out = core.build_driver(DRIVER)
    if exe is None:
        raise RuntimeError('driver build failed: ' + out[-300:])
    todo = []
    for r in reqs:
        for q in (r, twin_of(r)):
            if q is not None and q not in _TABLE and q not in todo:
                todo.append(q)
    with ThreadPoolExecutor(12) as ex:
        tabs = dict(zip(todo, ex.map(_preseed, todo)))
    for _ in range(10):
        if not todo:
            break
        lines = [r + ' | ' + ' '.join(tabs[r]) if tabs[r] else r for r in todo]
        outs, err = _run_driver_par(exe, lines)
        if outs is None:
            raise RuntimeError('driver failed while resolving oracle queries: ' + err[-300:])
        miss = {}
        for r, o in zip(todo, outs):
            if o.startswith('ORACLE-MISS '):
                miss[r] = o[len('ORACLE-MISS '):]
            else:
                _TABLE[r] = tabs[r]
                _OUT[r] = o
        qs = sorted(set(miss.values()))
        with ThreadPoolExecutor(12) as ex:
            ans = dict(zip(qs, ex.map(_answer, qs)))
        todo = []
        for r, q in miss.items():
            if ans[q] is None:
                _TABLE[r] = tabs[r]         # a query outside the oracle's domain stays a miss (reported by the diff)
                _OUT[r] = 'ORACLE-MISS ' + q
            else:
                tabs[r].append(q + ':' + ans[q])
                todo.append(r)
    for r in todo:
        _TABLE[r] = tabs[r]


def model_req(c):
    if c.req not in _TABLE:
        pend = [x.req for x in _PENDING if x.req not in _TABLE]
        _resolve(pend if c.req in pend else [c.req])
    t = _TABLE[c.req]
    return c.req + ' | ' + ' '.join(t) if t else c.req


def same(c, io, mo):
    if c.req.startswith('fresh'):
        return io.split(' ')[:2] == mo.split(' ')[:2]
    return io == mo


def is_trivial(c, out):
    return out.startswith(('ERR', 'NOTPROT', 'BADREQ', 'CRASH')) or out == 'other'


# ================================================================ property-level verdict on the implementation
def _text(h):
    return unhx(h).decode('utf-8')


def _class(c):
    """Recorded classes, decided from the request alone."""
    t = c.req.split(' ')
    k = t[0]
    if k in ('enc', 'dec') and t[1] == 'hdkeydef':
        return 'hdkey_default_witness'
    if k in ('enc', 'dec', 'decinfo', 'encfn'):
        isb, raw, nfcb = pw_parts(t[-2], t[-1])
        if not isb and raw != nfcb:
            return 'passphrase_not_nfc'
    if k == 'dec':
        d = b58dec(_text(t[2]))
        if d is not None and d[:2] == b'\x01\x43' and unhx(t[4]) != b'\x00':
            return 'ec_foreign_network'
    if k == 'inter' and t[3] != '-' and t[4] == '0' and 100000 <= int(t[3]) <= 999999:
        return 'sequence_zero_refused'
    return None


def _spec_model(c, expected):
    """The second judge: the extracted Gallina model of the BIP text must give [expected] for this request.
    -> None (agrees / not applicable) or a message."""
    tw = twin_of(c.req)
    if tw is None:
        return None
    if tw not in _OUT:
        try:
            _resolve([c.req])
        except Exception as e:
            return 'the Gallina model of the BIP text could not be evaluated: %s' % str(e)[:120]
    got = _OUT.get(tw)
    if got == expected:
        return None
    return ('the two specification judges disagree (Python BIP38: %s, extracted Gallina spec_*: %s); the implementation answered'
            % (expected[:90], (got or '?')[:90]))


def prop_check(c, out):
    t = c.req.split(' ')
    k = t[0]
    if out.startswith('CRASH') or out == 'BADREQ' or out.startswith('ERR other'):
        return 'unexpected answer %r' % out[:160]
    if k == 'enc':
        _, kfmt, sec, cc, nw, pfx, pwr, pwn = t
        isb, raw, sb = pw_parts(pwr, pwn)
        exp = 'OK ' + ref_encrypt(unhx(pfx), cc == '1', int(sec), sb)
        dis = _spec_model(c, exp)
        if dis:
            return dis + ' ' + out
        return None if out == exp else 'Key(%s).encrypt(%s) gives %s, BIP38 (passphrase bytes %s) gives %s' % (
            sec, _show_pw(pwr), out, hx(sb)[:80], exp)
    if k == 'encfn':
        _, priv, akind, addr, fl, pwr, pwn = t
        isb, raw, sb = pw_parts(pwr, pwn)
        exp = 'OK ' + ref_encrypt_raw(unhx(priv), unhx(addr), sb, 0xe0 if fl == 'def' else int(fl, 16))
        return None if out == exp else 'bip38_encrypt(%s, %s, %s) gives %s, BIP38 (passphrase bytes %s) gives %s' % (
            priv, unhx(addr).decode(), _show_pw(pwr), out, hx(sb)[:80], exp)
    if k == 'dec':
        _, cls, s, nw, pfx, pwr, pwn = t
        isb, raw, sb = pw_parts(pwr, pwn)
        s = _text(s)
        r = ref_decrypt(s, sb, unhx(pfx), strict=True)
        dis = _spec_model(c, 'NONE' if r is None else 'OK %d %d' % (r[0], 1 if r[1] else 0))
        if dis:
            return dis + ' ' + out
        if r is not None:
            exp = 'OK %d %d' % (r[0], 1 if r[1] else 0)
            return None if out == exp else 'BIP38 decryption of %s with passphrase %s gives %s, the implementation %s' % (s, _show_pw(pwr), exp, out)
        if not out.startswith('OK'):
            return None
        lax = ref_decrypt(s, sb, unhx(pfx), strict=False)
        if lax is not None and out == 'OK %d %d' % (lax[0], 1 if lax[1] else 0):
            return None     # laxer than the BIP (checksum / flag byte not verified) but the right key: observation only
        return 'decryption of %s with passphrase %s must fail (wrong passphrase / network / corrupted key) but returned %s' % (s, _show_pw(pwr), out)
    if k == 'decinfo':
        s = _text(t[1])
        isb, raw, sb = pw_parts(t[2], t[3])
        r = ref_decrypt(s, sb, b'\x00', strict=True)
        if r is None:
            if d_is_ec(s):
                return None if not out.startswith('OK') else 'bip38_decrypt must fail but returned %s' % out[:80]
            return None         # plain mode: the low-level function returns unchecked bytes by design (checked in Key(...))
        o = lambda v: '-' if v is None else str(v)
        f = out.split(' ')
        if d_is_ec(s):
            exp = ['OK', '%064x' % r[0], None, '1' if r[1] else '0', o(r[2]), o(r[3])]
            ok = len(f) == 7 and all(e is None or e == g for e, g in zip(exp, f))
            return None if ok else 'bip38_decrypt gives %s, BIP38 gives key/compressed/lot/sequence %s' % (out, exp)
        exp = ['OK', '%064x' % r[0], hx(b58dec(s)[3:7]), '1' if r[1] else '0', '-', '-', '-']
        return None if f == exp else 'bip38_decrypt(%s, %s) gives %s, BIP38 gives %s' % (s, _show_pw(t[2]), out, ' '.join(exp))
    if k == 'inter':
        _, pwr, pwn, lot, sq, salt = t
        isb, raw, sb = pw_parts(pwr, pwn)
        r = ref_intermediate(sb, None if lot == '-' else int(lot), None if sq == '-' else int(sq), unhx(salt))
        dis = _spec_model(c, 'NONE' if r is None else 'OK ' + r)
        if dis:
            return dis + ' ' + out
        if r is None:
            return None if out.startswith('ERR') else 'invalid arguments accepted: %s' % out
        if isb and out == 'ERR type':
            return None         # the passphrase parameter is documented as str; refusing a bytes object is not a wrong result
        return None if out == 'OK ' + r else 'intermediate code for passphrase %s: %s, BIP38 gives %s' % (_show_pw(pwr), out, r)
    if k == 'new':
        _, nw, pfx, ip, cc, seed = t
        r = ref_create_new(_text(ip), cc == '1', unhx(seed), unhx(pfx))
        if r is None:
            return None if out.startswith('ERR') else 'malformed intermediate code accepted: %s' % out[:80]
        return None if out == 'OK %s %s %s %s' % r else 'new key %s, BIP38 gives %s' % (out, r)
    if k == 'fresh':
        f = out.split(' ')
        ops = t[1].split(',')
        if len(f) != 4:
            return 'unexpected answer %r' % out[:160]
        uses, drawn, dig = f[1].split(','), f[2].split(','), f[3].split(',')
        seen = {}
        for i, op in enumerate(ops):        # 1. no two default-relying calls may use the same chunk
            if op.endswith('x'):
                continue
            if uses[i] in seen:
                return ('call %d (%s) uses entropy chunk %s already used by call %d: the default is bound once at import, not drawn per call%s'
                        % (i + 1, op, uses[i], seen[uses[i]] + 1, '; results identical' if dig[i] == dig[seen[uses[i]]] else ''))
            seen[uses[i]] = i
        for i, op in enumerate(ops):        # 2. each must be drawn inside the call that uses it
            if not op.endswith('x') and uses[i] not in drawn[i].split(';'):
                return 'call %d (%s) uses chunk %s which was not drawn during the call (drawn: %s)' % (i + 1, op, uses[i], drawn[i])
        for i in range(len(ops)):
            for j in range(i):
                if ops[i][0] == ops[j][0] == 'N' and dig[i] == dig[j]:
                    return 'calls %d and %d generated the same key' % (j + 1, i + 1)
        return None
    return None


def _show_pw(tok):
    isb, raw, _ = pw_parts(tok, tok)
    if isb:
        return repr(raw)[:60]
    try:
        return repr(raw.decode('utf-8'))[:60]
    except UnicodeDecodeError:
        return repr(raw)[:60]


def d_is_ec(s):
    d = b58dec(s)
    return d is not None and d[:2] == b'\x01\x43'


KNOWN_CLASSES = {
    'passphrase_not_nfc': lambda c, io, mo: _class(c) == 'passphrase_not_nfc',
    'ec_foreign_network': lambda c, io, mo: _class(c) == 'ec_foreign_network',
    'sequence_zero_refused': lambda c, io, mo: _class(c) == 'sequence_zero_refused',
    # replayed only, never generated.  The class is "a standard key is REFUSED": an answer that returns a key is never in it
    'hdkey_default_witness': lambda c, io, mo: _class(c) == 'hdkey_default_witness' and (c.req.startswith('enc ') or io.startswith('ERR')),
}


def reproduce_known(entry, rundir):
    rc, out, err = core.run_impl(IMPL, [entry['witness']['request']], rundir)
    return len(out) == 1 and out[0] == entry['witness']['impl_answer']
