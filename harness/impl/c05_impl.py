"""Implementation adapter for C05: same request lines as ocaml/c05_driver.ml, answered by /repo through
Output(...), Transaction.add_output(...), Output(lock_script=...).address/.script_type, Transaction.parse(raw).outputs
(public API only).
Answer: "<lock hex> <script_type> <network name> <address string>" ("-" = empty string, ERR = raises) or ERR.

via: out = Output(1000, network=N, ...)                       add = Transaction(network=N).add_output(1000, ...)
     tx  = a raw transaction (written here byte by byte) paying to the script, read with Transaction.parse(raw, network=N)
     rt  = Output(...) put into Transaction(outputs=[o]), serialised with raw() and read back with Transaction.parse
     ks  = (hd requests with a history) the script written from the key's hash160 property, read with Output(lock_script=)
Histories: an `hd` request may carry a 12th token, a `key` request a 10th: steps replayed on the key object before it is used
(replay()); any request may end in '@2' / '@f': the same argument objects were used for an earlier output (make())."""
import sys, os, logging
sys.path.insert(0, os.path.dirname(os.path.abspath(__file__)))
from common_impl import hx, unhx, serve
logging.disable(logging.CRITICAL)
from bitcoinlib.transactions import Output, Transaction
from bitcoinlib.keys import Address, HDKey, Key

# private keys 1, 2, 3 and their public keys (the generator point and its multiples; fixed test constants)
_PUB = {
    '0279be667ef9dcbbac55a06295ce870b07029bfcdb2dce28d959f2815b16f81798': 1,
    '02c6047f9441ed7d6d3045406e95c07cd85c778e4b8cef3ca7abac09b95c709ee5': 2,
    '02f9308a019258c31049344f85f89d5229b531c845836f99b08601f113bce036f9': 3,
    '0479be667ef9dcbbac55a06295ce870b07029bfcdb2dce28d959f2815b16f81798'
    '483ada7726a3c4655da4fbfc0e1108a8fd17b448a68554199c47d08ffb10d4b8': 1,
}
CHAIN = bytes(range(32))
PREV = bytes([0xaa]) * 32


def opt(t):
    return None if t == '-' else t


def varint(n):
    if n < 253:
        return bytes([n])
    if n < 65536:
        return b'\xfd' + n.to_bytes(2, 'little')
    return b'\xfe' + n.to_bytes(4, 'little')


def raw_tx_paying_to(script, value=1000):
    """version 1, one input (no script), one output, locktime 0 — the legacy wire format, written by hand"""
    return (b'\x01\x00\x00\x00' + b'\x01' + PREV + b'\x00\x00\x00\x00' + b'\x00' + b'\xff\xff\xff\xff' +
            b'\x01' + value.to_bytes(8, 'little') + varint(len(script)) + script + b'\x00\x00\x00\x00')


# '@2' / '@f' as last token of a request: the very same argument objects (Address, HDKey, bytes) were already used for an
# output before — of the same network ('@2'), or of another one, which mostly refuses them ('@f')
_EARLIER = [None]


def make(net, via, **kw):
    kw = {k: v for k, v in kw.items() if v is not None}
    if _EARLIER[0]:
        n0 = net if _EARLIER[0] == '@2' else ('litecoin' if net != 'litecoin' else 'bitcoin')
        _EARLIER[0] = None
        try:
            o0 = Output(1000, network=n0, **kw)
            o0.address, o0.script_type, o0.as_dict()
        except RecursionError:
            raise
        except Exception:
            pass
    if via == 'out':
        return Output(1000, network=net, **kw)
    if via == 'add':
        t = Transaction(network=net)
        t.add_output(1000, **kw)
        return t.outputs[-1]
    if via == 'tx':
        t = Transaction.parse(raw_tx_paying_to(kw['lock_script']), network=net)
        return t.outputs[0]
    if via == 'rt':
        o = Output(1000, network=net, **kw)
        t = Transaction(outputs=[o], network=net)
        t.add_input(PREV, 0)
        return Transaction.parse(t.raw(), network=net).outputs[0]
    raise ValueError(via)


def show(o):
    try:
        a = o.address
        a = a if a else '-'
    except Exception:
        a = 'ERR'
    st = o.script_type if o.script_type else '-'
    return '%s %s %s %s' % (hx(o.lock_script), st, o.network.name, a)


def priv_of(pub):
    return _PUB[pub.hex()].to_bytes(32, 'big')


def hdkey(form, pub, net, wt, ms):
    if form == 'raw':
        return HDKey(pub, network=net, witness_type=wt, multisig=ms)
    if form == 'pubkc':
        return HDKey(key=pub, chain=CHAIN, is_private=False, network=net, witness_type=wt, multisig=ms)
    if form == 'priv64':
        return HDKey(priv_of(pub) + CHAIN, network=net, witness_type=wt, multisig=ms)
    if form == 'privkc':
        return HDKey(key=priv_of(pub), chain=CHAIN, network=net, witness_type=wt, multisig=ms)
    if form == 'keyobj':
        return HDKey(Key(priv_of(pub), network=net), network=net, witness_type=wt, multisig=ms)
    if form == 'public':
        return HDKey(priv_of(pub) + CHAIN, network=net, witness_type=wt, multisig=ms).public()
    raise ValueError(form)


def _quiet(f):
    """one step of a history: a look at the key; a refused look (BKeyError ...) is part of the history as well"""
    try:
        return f()
    except RecursionError:
        raise
    except Exception:
        return None


def replay(h, hist, net):
    """earlier calls on the SAME key object (the `hd` request's 12th token, steps separated by ','):
       a:<script_type|->:<encoding|->  h.address(script_type=..., encoding=...)      ao  h.address_obj
       px  h.address(prefix=b'\x05')   w / wp / wk  h.wif() / wif_public() / wif_key()   h  h.hash160   pb  public_byte/hex
       d   h.as_dict()                  o / of  an Output was built from it before (own network / another one)
       s   Script(keys=[h], script_types=['p2pkh']).serialize()                        p   continue with h.public() (a copy)
       au / cu  h.address_uncompressed() / h.address(compressed=False)
       n:<network>  h.network_change(network): from here on the key IS a key of that network
       wx  h.wif(witness_type=<another>, multisig=<the other>), wif_public likewise      c  h.subkey_for_path('0/1')"""
    from bitcoinlib.scripts import Script
    for st in hist.split(','):
        f = st.split(':')
        c = f[0]
        if c == 'a':
            _quiet(lambda: h.address(script_type=opt(f[1]), encoding=opt(f[2])))
        elif c == 'ao':
            _quiet(lambda: h.address_obj)
        elif c == 'px':
            _quiet(lambda: h.address(prefix=b'\x05'))
        elif c == 'w':
            _quiet(lambda: h.wif())
        elif c == 'wp':
            _quiet(lambda: h.wif_public())
        elif c == 'wk':
            _quiet(lambda: h.wif_key())
        elif c == 'h':
            _quiet(lambda: h.hash160)
        elif c == 'pb':
            _quiet(lambda: (h.public_byte, h.public_hex, h.public_compressed_byte))
        elif c == 'd':
            _quiet(lambda: h.as_dict())
        elif c == 'o':
            _quiet(lambda: Output(1000, address=h, network=net).address)
        elif c == 'of':
            _quiet(lambda: Output(1000, address=h, network=('litecoin' if net != 'litecoin' else 'bitcoin')))
        elif c == 's':
            _quiet(lambda: Script(keys=[h], script_types=['p2pkh']).serialize())
        elif c == 'p':
            h = h.public()
        elif c == 'n':
            h.network_change(f[1])
        elif c == 'wx':
            ow = 'segwit' if h.witness_type != 'segwit' else 'p2sh-segwit'
            _quiet(lambda: (h.wif(witness_type=ow, multisig=not h.multisig), h.wif_public(witness_type=ow, multisig=not h.multisig)))
        elif c == 'c':
            _quiet(lambda: h.subkey_for_path('0/1').address())
        elif c == 'au':
            _quiet(lambda: h.address_uncompressed())
        elif c == 'cu':
            _quiet(lambda: h.address(compressed=False))
        else:
            raise ValueError(st)
    return h


def dispatch(t):
    if t[0] == 'F':
        t = t[2:]
    _EARLIER[0] = None
    if t[-1] in ('@2', '@f'):
        _EARLIER[0] = t[-1]
        t = t[:-1]
    k = t[0]
    try:
        if k == 'str':
            return show(make(t[1], t[2], address=t[3]))
        if k == 'parse':
            return show(make(t[1], t[2], address=Address.parse(t[3], network=opt(t[5]))))
        if k == 'aobj':
            a = Address(hashed_data=unhx(t[7]), script_type=opt(t[4]), encoding=opt(t[5]), witver=int(t[6]), network=t[3])
            return show(make(t[1], t[2], address=a))
        if k == 'adata':
            a = Address(data=unhx(t[7]), script_type=opt(t[4]), encoding=opt(t[5]), witver=int(t[6]), network=t[3])
            return show(make(t[1], t[2], address=a))
        if k == 'hd':
            form = t[10] if len(t) > 10 else 'raw'
            h = hdkey(form, unhx(t[6]), t[3], t[4], t[5] == '1')
            if len(t) > 11:
                try:
                    h = replay(h, t[11], t[3])
                except ValueError:
                    return 'BADREQ'
            if t[2] == 'ks':
                # the script written from the key's own hash (a property of the object), read back as an output
                from bitcoinlib.scripts import Script
                lt = {'legacy': 'p2pkh', 'segwit': 'p2wpkh'}[h.witness_type]
                return show(make(t[1], 'out', lock_script=Script(script_types=[lt], public_hash=h.hash160).serialize()))
            return show(make(t[1], t[2], address=h))
        if k == 'key':
            pub = unhx(t[5])
            if t[4] == 'kpub':
                ko = Key(pub, network=t[3])
            else:
                ko = Key(priv_of(pub), network=t[3], compressed=(len(pub) == 33))
            if ko.public_byte != pub:
                return 'BADREQ'
            if len(t) > 9:
                try:
                    ko = replay(ko, t[9], t[3])
                except ValueError:
                    return 'BADREQ'
            return show(make(t[1], t[2], address=ko.address_obj))
        if k == 'pk':
            return show(make(t[1], t[2], public_key=unhx(t[5]), script_type=opt(t[3]), encoding=opt(t[4])))
        if k == 'hash':
            wv = int(t[4])
            return show(make(t[1], t[2], public_hash=unhx(t[6]), script_type=opt(t[3]), witver=(wv if t[2] != 'add' else None),
                             encoding=opt(t[5])))
        if k == 'script':
            return show(make(t[1], t[2], lock_script=unhx(t[3])))
        if k == 'gen':
            wv = int(t[9])
            return show(make(t[1], t[2], address=opt(t[4]), public_hash=(unhx(t[5]) or None), public_key=(unhx(t[6]) or None),
                             lock_script=(unhx(t[7]) or None), script_type=opt(t[8]), witver=(wv if wv else None),
                             encoding=opt(t[10])))
    except RecursionError:
        raise
    except Exception:
        return 'ERR'
    return 'BADREQ'


serve(dispatch)
