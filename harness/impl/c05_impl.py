"""Implementation adapter for C05: same request lines as ocaml/c05_driver.ml, answered by /repo through
Output(...), Transaction.add_output(...), Output(lock_script=...).address/.script_type (public API only).
Answer: "<lock hex> <script_type> <network name> <address string>" ("-" = empty string, ERR = raises) or ERR."""
import sys, os, logging
sys.path.insert(0, os.path.dirname(os.path.abspath(__file__)))
from common_impl import hx, unhx, serve
logging.disable(logging.CRITICAL)
from bitcoinlib.transactions import Output, Transaction
from bitcoinlib.keys import Address, HDKey


def opt(t):
    return None if t == '-' else t


def make(net, via, **kw):
    kw = {k: v for k, v in kw.items() if v is not None}
    if via == 'out':
        return Output(1000, network=net, **kw)
    t = Transaction(network=net)
    t.add_output(1000, **kw)
    return t.outputs[-1]


def show(o):
    try:
        a = o.address
        a = a if a else '-'
    except Exception:
        a = 'ERR'
    st = o.script_type if o.script_type else '-'
    return '%s %s %s %s' % (hx(o.lock_script), st, o.network.name, a)


def dispatch(t):
    if t[0] == 'F':
        t = t[2:]
    k = t[0]
    try:
        if k == 'str':
            return show(make(t[1], t[2], address=t[3]))
        if k == 'parse':
            return show(make(t[1], t[2], address=Address.parse(t[3], network=opt(t[5]))))
        if k == 'aobj':
            a = Address(hashed_data=unhx(t[7]), script_type=opt(t[4]), encoding=opt(t[5]), witver=int(t[6]), network=t[3])
            return show(make(t[1], t[2], address=a))
        if k == 'hd':
            h = HDKey(unhx(t[6]), network=t[3], witness_type=t[4], multisig=(t[5] == '1'))
            return show(make(t[1], t[2], address=h))
        if k == 'pk':
            return show(make(t[1], t[2], public_key=unhx(t[5]), script_type=opt(t[3]), encoding=opt(t[4])))
        if k == 'hash':
            wv = int(t[4])
            return show(make(t[1], t[2], public_hash=unhx(t[6]), script_type=opt(t[3]), witver=(wv if t[2] == 'out' else None),
                             encoding=opt(t[5])))
        if k == 'script':
            return show(make(t[1], t[2], lock_script=unhx(t[3])))
    except RecursionError:
        raise
    except Exception:
        return 'ERR'
    return 'BADREQ'


serve(dispatch)
