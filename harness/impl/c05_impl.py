"""Implementation adapter for C05: same request lines as ocaml/c05_driver.ml, answered by /repo through
Output(...), Transaction.add_output(...), Output(lock_script=...).address/.script_type, Transaction.parse(raw).outputs
(public API only).
Answer: "<lock hex> <script_type> <network name> <address string>" ("-" = empty string, ERR = raises) or ERR.

via: out = Output(1000, network=N, ...)                       add = Transaction(network=N).add_output(1000, ...)
     tx  = a raw transaction (written here byte by byte) paying to the script, read with Transaction.parse(raw, network=N)
     rt  = Output(...) put into Transaction(outputs=[o]), serialised with raw() and read back with Transaction.parse"""
import sys, os, logging
sys.path.insert(0, os.path.dirname(os.path.abspath(__file__)))
from common_impl import hx, unhx, serve
logging.disable(logging.CRITICAL)
from bitcoinlib.transactions import Output, Transaction
from bitcoinlib.keys import Address, HDKey, Key

# private keys 1, 2, 3 and their public keys (the generator point and its multiples; fixed test constants)
_PUB = {
    '0279be667ef9dcbbac55a06295ce870b07029bfcdb2dce28d959f2815b16f81798': 1,
    '02c6047f9441ed7d6d3045406e95c07cd85c778e4b8cef3ca7abac09b95c709ee5': 2,
    '02f9308a019258c31049344f85f89d5229b531c845836f99b08601f113bce036f9': 3,
    '0479be667ef9dcbbac55a06295ce870b07029bfcdb2dce28d959f2815b16f81798'
    '483ada7726a3c4655da4fbfc0e1108a8fd17b448a68554199c47d08ffb10d4b8': 1,
}
CHAIN = bytes(range(32))
PREV = bytes([0xaa]) * 32


def opt(t):
    return None if t == '-' else t


def varint(n):
    if n < 253:
        return bytes([n])
    if n < 65536:
        return b'\xfd' + n.to_bytes(2, 'little')
    return b'\xfe' + n.to_bytes(4, 'little')


def raw_tx_paying_to(script, value=1000):
    """version 1, one input (no script), one output, locktime 0 — the legacy wire format, written by hand"""
    return (b'\x01\x00\x00\x00' + b'\x01' + PREV + b'\x00\x00\x00\x00' + b'\x00' + b'\xff\xff\xff\xff' +
            b'\x01' + value.to_bytes(8, 'little') + varint(len(script)) + script + b'\x00\x00\x00\x00')


def make(net, via, **kw):
    kw = {k: v for k, v in kw.items() if v is not None}
    if via == 'out':
        return Output(1000, network=net, **kw)
    if via == 'add':
        t = Transaction(network=net)
        t.add_output(1000, **kw)
        return t.outputs[-1]
    if via == 'tx':
        t = Transaction.parse(raw_tx_paying_to(kw['lock_script']), network=net)
        return t.outputs[0]
    if via == 'rt':
        o = Output(1000, network=net, **kw)
        t = Transaction(outputs=[o], network=net)
        t.add_input(PREV, 0)
        return Transaction.parse(t.raw(), network=net).outputs[0]
    raise ValueError(via)


def show(o):
    try:
        a = o.address
        a = a if a else '-'
    except Exception:
        a = 'ERR'
    st = o.script_type if o.script_type else '-'
    return '%s %s %s %s' % (hx(o.lock_script), st, o.network.name, a)


def priv_of(pub):
    return _PUB[pub.hex()].to_bytes(32, 'big')


def hdkey(form, pub, net, wt, ms):
    if form == 'raw':
        return HDKey(pub, network=net, witness_type=wt, multisig=ms)
    if form == 'pubkc':
        return HDKey(key=pub, chain=CHAIN, is_private=False, network=net, witness_type=wt, multisig=ms)
    if form == 'priv64':
        return HDKey(priv_of(pub) + CHAIN, network=net, witness_type=wt, multisig=ms)
    if form == 'privkc':
        return HDKey(key=priv_of(pub), chain=CHAIN, network=net, witness_type=wt, multisig=ms)
    if form == 'keyobj':
        return HDKey(Key(priv_of(pub), network=net), network=net, witness_type=wt, multisig=ms)
    if form == 'public':
        return HDKey(priv_of(pub) + CHAIN, network=net, witness_type=wt, multisig=ms).public()
    raise ValueError(form)


def dispatch(t):
    if t[0] == 'F':
        t = t[2:]
    k = t[0]
    try:
        if k == 'str':
            return show(make(t[1], t[2], address=t[3]))
        if k == 'parse':
            return show(make(t[1], t[2], address=Address.parse(t[3], network=opt(t[5]))))
        if k == 'aobj':
            a = Address(hashed_data=unhx(t[7]), script_type=opt(t[4]), encoding=opt(t[5]), witver=int(t[6]), network=t[3])
            return show(make(t[1], t[2], address=a))
        if k == 'adata':
            a = Address(data=unhx(t[7]), script_type=opt(t[4]), encoding=opt(t[5]), witver=int(t[6]), network=t[3])
            return show(make(t[1], t[2], address=a))
        if k == 'hd':
            form = t[10] if len(t) > 10 else 'raw'
            h = hdkey(form, unhx(t[6]), t[3], t[4], t[5] == '1')
            return show(make(t[1], t[2], address=h))
        if k == 'key':
            pub = unhx(t[5])
            if t[4] == 'kpub':
                ko = Key(pub, network=t[3])
            else:
                ko = Key(priv_of(pub), network=t[3], compressed=(len(pub) == 33))
            if ko.public_byte != pub:
                return 'BADREQ'
            return show(make(t[1], t[2], address=ko.address_obj))
        if k == 'pk':
            return show(make(t[1], t[2], public_key=unhx(t[5]), script_type=opt(t[3]), encoding=opt(t[4])))
        if k == 'hash':
            wv = int(t[4])
            return show(make(t[1], t[2], public_hash=unhx(t[6]), script_type=opt(t[3]), witver=(wv if t[2] != 'add' else None),
                             encoding=opt(t[5])))
        if k == 'script':
            return show(make(t[1], t[2], lock_script=unhx(t[3])))
        if k == 'gen':
            wv = int(t[9])
            return show(make(t[1], t[2], address=opt(t[4]), public_hash=(unhx(t[5]) or None), public_key=(unhx(t[6]) or None),
                             lock_script=(unhx(t[7]) or None), script_type=opt(t[8]), witver=(wv if wv else None),
                             encoding=opt(t[10])))
    except RecursionError:
        raise
    except Exception:
        return 'ERR'
    return 'BADREQ'


serve(dispatch)
