"""Implementation adapter for C03 (BIP32): same line protocol as ocaml/c03_driver.ml, answers from /repo
through HDKey.from_seed / HDKey(...) / subkey_for_path / child_private / child_public / public() / wif()."""
import sys, os, logging
sys.path.insert(0, os.path.dirname(os.path.abspath(__file__)))
from common_impl import hx, unhx, serve
logging.disable(logging.CRITICAL)
from bitcoinlib.keys import HDKey

NET = dict(network='bitcoin', witness_type='legacy')


def key_of_fields(kind, k, c, d, f, i):
    return HDKey(key=unhx(k), chain=unhx(c), depth=int(d), parent_fingerprint=unhx(f), child_index=int(i),
                 is_private=(kind == 'prv'), **NET)


def key_of_tok(t):
    p = t.split(':')
    if p[0] == 'seed':
        return HDKey.from_seed(unhx(p[1]), **NET)
    if p[0] == 'seedpub':
        return HDKey.from_seed(unhx(p[1]), **NET).public()
    if p[0] == 'xstr':
        return HDKey(p[1])
    return key_of_fields(*p)


def show(k, w):
    if k.is_private:
        priv = k.private_hex
        try:
            wprv = k.wif(is_private=True, witness_type='legacy', multisig=False) if w else 'x'
        except Exception:
            wprv = 'ERR'
    else:
        priv = '-'
        wprv = '-' if w else 'x'
        if k.private_hex is not None or k.secret is not None or k.private_byte is not None:
            priv = 'LEAK'
    try:
        wpub = k.wif_public(witness_type='legacy', multisig=False) if w else 'x'
    except Exception:
        wpub = 'ERR'
    return ' '.join([priv, k.public_hex, hx(k.chain), str(k.depth), str(k.child_index), hx(k.parent_fingerprint),
                     wprv, wpub])


def dispatch(t):
    kind = t[0]
    w = t[-1] != '-'
    try:
        if kind == 'derive':
            k = key_of_tok(t[1])
            path = unhx(t[2]).decode('ascii')
            if t[3] == 'l':
                path = path.split('/')
            return show(k.subkey_for_path(path), w)
        if kind == 'split':
            k = key_of_tok(t[1])
            return show(k.subkey_for_path(unhx(t[2]).decode('ascii')).public().subkey_for_path(unhx(t[3]).decode('ascii')), w)
        if kind == 'cpriv':
            return show(key_of_tok(t[1]).child_private(int(t[2]), hardened=(t[3] == '1')), w)
        if kind == 'cpub':
            return show(key_of_tok(t[1]).child_public(int(t[2])), w)
    except RecursionError:
        raise
    except Exception:
        return 'ERR'
    return 'BADREQ'


serve(dispatch)
