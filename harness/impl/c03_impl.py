"""Implementation adapter for C03 (BIP32): same line protocol as ocaml/c03_driver.ml, answers from /repo
through HDKey.from_seed / HDKey(...) / subkey_for_path / child_private / child_public / public() / wif()."""
import sys, os, logging
sys.path.insert(0, os.path.dirname(os.path.abspath(__file__)))
from common_impl import hx, unhx, serve
logging.disable(logging.CRITICAL)
from bitcoinlib.keys import HDKey, Key

NET = dict(network='bitcoin', witness_type='legacy')


def key_of_fields(kind, k, c, d, f, i, kw=NET):
    return HDKey(key=unhx(k), chain=unhx(c), depth=int(d), parent_fingerprint=unhx(f), child_index=int(i),
                 is_private=(kind == 'prv'), **kw)


def key_of_tok(t, kw=None):
    """the start object; [kw] = the settings a session asks for (network, witness_type, multisig)"""
    p = t.split(':')
    if p[0] == 'seed':
        return HDKey.from_seed(unhx(p[1]), **(kw or NET))
    if p[0] == 'seedpub':
        return HDKey.from_seed(unhx(p[1]), **(kw or NET)).public()
    if p[0] == 'phrase':
        return HDKey.from_passphrase(unhx(p[1]).decode('utf8'), password=unhx(p[2]).decode('utf8'), **(kw or NET))
    if p[0] == 'xstr':
        return HDKey(p[1], **(kw or {}))
    if p[0] == 'ctor':
        return key_of_ctor(p[1], p[2], p[3], p[4:], kw)
    if p[0] == 'xwif':
        k = HDKey.from_wif(p[1], **({'network': kw['network'], 'multisig': kw['multisig']} if kw else {}))
        if kw:
            k.witness_type = kw['witness_type']      # from_wif takes the witness type from the version bytes only
        return k
    return key_of_fields(*p, kw=(kw or NET))


def key_of_ctor(form, opts, aux, fields, kw):
    """every way the constructor accepts the key material (k, c) and the metadata of [fields]:
    form  how the key is handed over (positional import_key unless 'K' in opts: import_key= keyword)
    opts  m: depth / parent_fingerprint / child_index passed explicitly (always when they are not the defaults)
          z: chain omitted (only when c is 32 zero bytes, the documented default)      p: is_private passed explicitly
          c: compressed=True explicitly   t: key_type='bip32' explicitly   n: no network / witness_type / multisig arguments
          o: the Key / HDKey object handed over was made for another network
    aux   a string made by the harness (WIF | BIP38 string,password hex | x,y of the point) or '-'"""
    kind, k, c, d, f, i = fields
    private = kind == 'prv'
    kb, cb = unhx(k), unhx(c)
    a = {}
    if 'z' not in opts:
        a['chain'] = cb
    if 'm' in opts:
        a.update(depth=int(d), parent_fingerprint=unhx(f), child_index=int(i))
    if 'p' in opts:
        a['is_private'] = private
    if 'c' in opts:
        a['compressed'] = True
    if 't' in opts:
        a['key_type'] = 'bip32'
    if 'n' not in opts:
        a.update(kw or NET)
    net = a.get('network', 'bitcoin')
    onet = ('testnet' if net == 'bitcoin' else 'bitcoin') if 'o' in opts else net
    if form == 'kwbytes':
        return HDKey(key=kb, chain=cb, **{x: y for x, y in a.items() if x != 'chain'})
    if form == 'kwhex':
        return HDKey(key=k, **a)
    if form == 'kwint':
        return HDKey(key=int(k, 16), **a)
    if form == 'kwboth':                          # key= wins over import_key
        return HDKey('00' * 31 + '01', key=kb, **a)
    if form == 'cat64':
        v = kb + cb
        a.pop('chain', None)
    elif form == 'hex':
        v = k
    elif form == 'hexc':
        v = k + '01'
    elif form == 'bytes':
        v = kb
    elif form == 'bytesc':
        v = kb + b'\1'
    elif form == 'int':
        v = int(k, 16)
    elif form == 'wif':
        v = aux
    elif form == 'bip38':
        v, pw = aux.split(',')
        a['password'] = unhx(pw).decode('utf8')
    elif form == 'keyhex':
        v = Key(k, network=onet)
    elif form == 'keybytes':
        v = Key(kb, network=onet)
    elif form == 'keyint':
        v = Key(int(k, 16), network=onet)
    elif form == 'keywif':
        v = Key(aux, network=net)
    elif form == 'keypos':                        # Key(import_key=..., is_private=True) spelled with keywords
        v = Key(import_key=k, network=onet, compressed=True, is_private=True)
    elif form == 'hdobj':                         # an HDKey object with another chain code and other metadata
        v = HDKey(key=kb, chain=bytes(range(32, 64)), depth=9, parent_fingerprint=b'\xaa\xbb\xcc\xdd', child_index=77,
                  network=onet, witness_type='legacy')
    elif form == 'hdobjsame':                     # an HDKey object that already is the key asked for
        v = HDKey(key=kb, chain=cb, depth=int(d), parent_fingerprint=unhx(f), child_index=int(i), network=onet)
    elif form == 'hdseed':                        # a master made by from_seed, re-used for its secret only
        v = HDKey(key=kb, chain=bytes(32), network=onet)
    elif form == 'pubhex':
        v = k
    elif form == 'pubbytes':
        v = kb
    elif form == 'point':
        x, y = aux.split(',')
        v = (int(x, 16), int(y, 16))
    else:
        raise ValueError('ctor form')
    if 'K' in opts:
        return HDKey(import_key=v, **a)
    return HDKey(v, **a)


WT = {'l': 'legacy', 'p': 'p2sh-segwit', 's': 'segwit'}
WT_REV = {v: k for k, v in WT.items()}


def show_obj(k, w):
    return '%s %s %s %d' % (show(k, w), k.network.name, WT_REV.get(k.witness_type, '?' + str(k.witness_type)),
                            1 if k.multisig else 0)


def session_op(obj, op):
    """one call on [obj]; returns the object the call returns ([obj] itself for calls that return no key)"""
    kind = op[0]
    if kind == 'p':
        path = unhx(op[1]).decode('ascii')
        return obj.subkey_for_path(path.split('/') if op[2] == 'l' else path)
    if kind == 'cpriv':
        return obj.child_private(int(op[1]), hardened=(op[2] == '1'))
    if kind == 'cpub':
        return obj.child_public(int(op[1]))
    if kind == 'pub':
        return obj.public()
    if kind == 'pm':
        account, purpose = int(op[1]), (None if op[2] == '-' else int(op[2]))
        multi = None if op[3] == '-' else op[3] == '1'
        wit = None if op[4] == '-' else WT[op[4]]
        if op[6] == 'mm':
            return obj.public_master_multisig(account, purpose, wit, op[5] == '1')
        return obj.public_master(account, purpose, multi, wit, op[5] == '1')
    if kind == 'net':
        obj.network_change(op[1])
        return obj
    if kind == 'exp':
        which = op[1]
        try:                                   # the exports only observe; what they print or raise is not the answer
            if which == 'wif':
                obj.wif()
            elif which == 'wifpub':
                obj.wif_public()
            elif which == 'wifprv':
                obj.wif_private()
            elif which == 'wifkey':
                obj.wif_key()
            elif which == 'dict':
                obj.as_dict()
            elif which == 'dictprv':
                obj.as_dict(include_private=True)
            elif which == 'json':
                obj.as_json(include_private=True)
            elif which == 'repr':
                repr(obj)
            elif which == 'addr':
                obj.address()
            elif which == 'fp':
                obj.fingerprint
            elif which == 'hash':
                hash(obj), obj.hash160, bytes(obj), obj.public_point()
            elif which == 'wifidx':
                obj.wif(is_private=(int(op[2]) % 2 == 1), child_index=int(op[2]))
        except RecursionError:
            raise
        except Exception:
            pass
        return obj
    raise ValueError('session op')


def session(t):
    cfg = t[2].split(',')
    kw = dict(network=cfg[0], witness_type=WT[cfg[4]], multisig=(cfg[5] == '1'))
    try:
        slots = [key_of_tok(t[1], kw)]
    except RecursionError:
        raise
    except Exception:
        return 'ERR'
    out = []
    for st in t[3:]:
        f = st.split(',')
        slot, w, op = int(f[0]), f[1] == '1', f[2:]
        obj = slots[slot] if slot < len(slots) else None
        if obj is None:
            slots.append(None)
            out.append('T none R FAIL')
            continue
        try:
            r = session_op(obj, op)
        except RecursionError:
            raise
        except Exception:
            r = None
        if r is None:
            slots.append(None)
            res = 'FAIL'
        elif r is obj:
            slots.append(None)
            res = 'SELF'
        else:
            slots.append(r)
            res = 'NEW ' + show_obj(r, w)
        out.append('T %s R %s' % (show_obj(obj, False), res))
    return ' | '.join(out)


def show(k, w):
    if k.is_private:
        priv = k.private_hex
        try:
            wprv = k.wif(is_private=True, witness_type='legacy', multisig=False) if w else 'x'
        except Exception:
            wprv = 'ERR'
    else:
        priv = '-'
        wprv = '-' if w else 'x'
        if k.private_hex is not None or k.secret is not None or k.private_byte is not None:
            priv = 'LEAK'
    try:
        wpub = k.wif_public(witness_type='legacy', multisig=False) if w else 'x'
    except Exception:
        wpub = 'ERR'
    return ' '.join([priv, k.public_hex, hx(k.chain), str(k.depth), str(k.child_index), hx(k.parent_fingerprint),
                     wprv, wpub])


def dispatch(t):
    kind = t[0]
    w = t[-1] != '-'
    if kind == 'sess':
        return session(t)
    try:
        if kind == 'derive':
            k = key_of_tok(t[1])
            path = unhx(t[2]).decode('ascii')
            if t[3] == 'l':
                path = path.split('/')
            return show(k.subkey_for_path(path), w)
        if kind == 'split':
            k = key_of_tok(t[1])
            return show(k.subkey_for_path(unhx(t[2]).decode('ascii')).public().subkey_for_path(unhx(t[3]).decode('ascii')), w)
        if kind == 'cpriv':
            return show(key_of_tok(t[1]).child_private(int(t[2]), hardened=(t[3] == '1')), w)
        if kind == 'cpub':
            return show(key_of_tok(t[1]).child_public(int(t[2])), w)
        if kind == 'wifidx':
            k = key_of_tok(t[1])
            try:
                r = k.wif(is_private=(t[3] == '1'), child_index=(None if t[2] == '-' else int(t[2])), witness_type='legacy',
                          multisig=False)
            except Exception:
                r = 'ERR'
            return '%s %d' % (r, k.child_index)
    except RecursionError:
        raise
    except Exception:
        return 'ERR'
    return 'BADREQ'


serve(dispatch)
