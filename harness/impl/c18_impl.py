"""Implementation adapter for C18: same line protocol as ocaml/c18_driver.ml, answers from /repo."""
import sys, os, logging
sys.path.insert(0, os.path.dirname(os.path.abspath(__file__)))
from common_impl import hx, unhx, serve
logging.disable(logging.CRITICAL)
from io import BytesIO
from bitcoinlib.encoding import int_to_varbyteint, varbyteint_to_int, read_varbyteint, read_varbyteint_return, varstr
from bitcoinlib.scripts import Script, ScriptError, data_pack, encode_num, decode_num


def cmds_of_tok(t):
    if t == '-':
        return []
    r = []
    for s in t.split(','):
        r.append(int(s[1:], 16) if s[0] == 'o' else unhx(s[1:]))
    return r


def tok_of_items(l):
    if not l:
        return '-'
    r = []
    for c in l:
        if isinstance(c, int):
            r.append('o%02x' % c)
        elif isinstance(c, (bytes, bytearray)):
            r.append('d' + hx(bytes(c)))
        elif isinstance(c, list):
            r.append('[' + tok_of_items(c) + ']')
        else:
            r.append('?' + type(c).__name__)
    return ','.join(r)


# ---- argument forms (the helpers are documented for str as well as bytes, and are called with int-likes / buffers)
class _IntSub(int):
    pass


def _err(e):
    return 'ERR'


def _buf(form, b):
    if form == 'bytes':
        return b
    if form == 'bytearray':
        return bytearray(b)
    if form == 'memoryview':
        return memoryview(b)
    if form == 'list':
        return list(b)
    if form == 'hexstr':
        return b.hex()
    if form == 'str':                      # the token is the UTF-8 (surrogatepass) form of the text
        return b.decode('utf-8', 'surrogatepass')
    raise ValueError(form)


def _num(form, n):
    if form == 'int':
        return n
    if form == 'bool':
        return bool(n)
    if form == 'intsub':
        return _IntSub(n)
    if form == 'float':
        return float(n)
    if form == 'decstr':
        return str(n)
    if form == 'decimal':
        from decimal import Decimal
        return Decimal(n)
    if form == 'fraction':
        from fractions import Fraction
        return Fraction(n)
    raise ValueError(form)


def dispatch_forms(t):
    k = t[0]
    try:
        if k == 'varstr_a':
            return hx(varstr(_buf(t[1], unhx(t[2]))))
        if k == 'cs_enc_a':
            return hx(int_to_varbyteint(_num(t[1], int(t[2]))))
        if k == 'cs_dec_a':
            v, n = varbyteint_to_int(_buf(t[1], unhx(t[2])))
            return '%d %d' % (v, n)
        if k == 'data_pack_a':
            return hx(bytes(data_pack(_buf(t[1], unhx(t[2])))))
        if k == 'encode_num_a':
            return hx(encode_num(_num(t[1], int(t[2]))))
        if k == 'decode_num_a':
            return str(int(decode_num(_buf(t[1], unhx(t[2])))))
        if k == 'serialize_a':
            cmds = [c if isinstance(c, int) else _buf(t[1], c) for c in cmds_of_tok(t[2])]
            return hx(Script(cmds).serialize())
    except Exception as e:
        return _err(e)
    return None


def dispatch(t):
    k = t[0]
    if k.endswith('_a'):
        r = dispatch_forms(t)
        return 'BADREQ' if r is None else r
    if k == 'cs_enc':
        try:
            return hx(int_to_varbyteint(int(t[1])))
        except Exception:
            return 'ERR'
    if k == 'cs_dec':
        b = unhx(t[1])
        v, n = varbyteint_to_int(b)
        # the two stream readers must agree with it
        s = BytesIO(b); v2 = read_varbyteint(s); p2 = s.tell()
        s = BytesIO(b); v3, raw3 = read_varbyteint_return(s); p3 = s.tell()
        extra = ''
        if (v2, p2) != (v, n) or (v3, p3) != (v, n) or raw3 != b[:n]:
            extra = ' READERS-DIFFER %r %r' % ((v2, p2), (v3, p3, raw3.hex()))
        return '%d %d%s' % (v, n, extra)
    if k == 'varstr':
        try:
            return hx(varstr(unhx(t[1])))
        except Exception:
            return 'ERR'
    if k == 'encode_num':
        return hx(encode_num(int(t[1])))
    if k == 'decode_num':
        return str(decode_num(unhx(t[1])))
    if k == 'data_pack':
        try:
            return hx(data_pack(unhx(t[1])))
        except Exception:
            return 'ERR'
    if k == 'serialize':
        try:
            return hx(Script(cmds_of_tok(t[1])).serialize())
        except Exception:
            return 'ERR'
    if k == 'parse':
        b = unhx(t[2])
        try:
            if t[1] == 'len':
                s = Script.parse_bytes(b)
            elif t[1] == 'hex':
                s = Script.parse_hex(b.hex())
            else:
                s = Script.parse(b)
        except (ScriptError, IndexError):
            return 'ERR soft'
        except Exception:
            return 'ERR hard'
        items = tok_of_items(s.commands)
        try:
            re = hx(s.serialize())
        except Exception:
            re = 'ERR'
        return items + ' ' + re
    return 'BADREQ'


serve(dispatch)
