"""Implementation adapter for C14: answers the request lines of ocaml/c14_driver.ml from /repo (public API only:
encoding.change_base / to_bytes, Mnemonic(lang).to_mnemonic / to_entropy / to_seed / generate / detect_language /
word / wordlist, HDKey.from_passphrase).  Sentences travel as index lists; words are looked up in the
repository's own word-list files, read here independently of the Mnemonic class."""
import sys, os, logging, unicodedata
sys.path.insert(0, os.path.dirname(os.path.abspath(__file__)))
from common_impl import hx, unhx, serve
logging.disable(logging.CRITICAL)
import bitcoinlib
from bitcoinlib.encoding import change_base, to_bytes
from bitcoinlib.mnemonic import Mnemonic
from bitcoinlib.keys import HDKey

WLDIR = os.path.join(os.path.dirname(bitcoinlib.__file__), 'wordlist')
_WL, _IDX, _MN = {}, {}, {}


def wl(lang):
    if lang not in _WL:
        with open(os.path.join(WLDIR, lang + '.txt'), encoding='utf8') as f:
            _WL[lang] = [w.strip() for w in f.read().split('\n') if w.strip()]
        _IDX[lang] = {w: i for i, w in enumerate(_WL[lang])}
    return _WL[lang]


def mn(lang):
    if lang not in _MN:
        _MN[lang] = Mnemonic(lang)
    return _MN[lang]


def zs(t):
    return [] if t == '-' else [int(x) for x in t.split(',')]


def szs(l):
    return ','.join(str(x) for x in l) if len(l) else '-'


def text(t):
    """comma-separated hex code points -> str"""
    return '' if t == '-' else ''.join(chr(int(x, 16)) for x in t.split(','))


def sentence(lang, form, idx, sub=None):
    words = [wl(lang)[i] for i in idx]
    if sub is not None:
        words[sub[0]] = sub[1]
    if form == 'ideo':
        return '　'.join(words)
    s = ' '.join(words)
    if form == 'nfc':
        return unicodedata.normalize('NFC', s)
    if form == 'nfkc':
        return unicodedata.normalize('NFKC', s)
    return s


def idx_of_sentence(lang, s):
    wl(lang)
    ws = s.split(' ')
    out = []
    for w in ws:
        if w not in _IDX[lang]:
            return 'RAW ' + s.encode('utf8', 'backslashreplace').hex()
        out.append(_IDX[lang][w])
    flag = '' if s == unicodedata.normalize('NFKD', ' '.join(wl(lang)[i] for i in out)) else ' !form'
    return szs(out) + flag


def err(ex):
    return 'ERR ' + type(ex).__name__


def dispatch(t):
    k = t[0]
    try:
        if k == 'cb10_2':
            r = change_base(int(t[1]), 10, 2, int(t[2]))
            return r if r else '-'
        if k == 'cb256_2':
            r = change_base(unhx(t[1]), 256, 2, int(t[2]))
            return r if r else '-'
        if k == 'cb2_2048':
            return szs(change_base('' if t[1] == '-' else t[1], 2, 2048))
        if k == 'cb2048_256':
            r = change_base(zs(t[1]), 2048, 256, int(t[2]), output_even=False)
            return hx(r) if isinstance(r, bytes) else 'NOTBYTES %r' % (r,)
        if k == 'cb2_256':
            r = change_base('' if t[1] == '-' else t[1], 2, 256, int(t[2]))
            return hx(r) if isinstance(r, bytes) else 'NOTBYTES %r' % (r,)
        if k == 'to_bytes':
            return hx(to_bytes(unhx(t[1])))
        if k == 'mn':          # mn <lang> <entropy hex>      bytes argument, check_on_curve=False
            return idx_of_sentence(t[1], mn(t[1]).to_mnemonic(unhx(t[2]), check_on_curve=False))
        if k == 'mnhex':       # hex-string argument
            return idx_of_sentence(t[1], mn(t[1]).to_mnemonic(t[2], check_on_curve=False))
        if k == 'mncurve':     # default switches (check_on_curve=True)
            return idx_of_sentence(t[1], mn(t[1]).to_mnemonic(unhx(t[2])))
        if k == 'gen':         # gen <lang> <strength> <urandom hex>
            data = unhx(t[3])
            real = os.urandom
            os.urandom = lambda n: data[:n] if len(data) >= n else real(n)
            try:
                s = mn(t[1]).generate(int(t[2]))
            finally:
                os.urandom = real
            return idx_of_sentence(t[1], s)
        if k == 'ent':         # ent <lang> <form> <idx list>
            return hx(mn(t[1]).to_entropy(sentence(t[1], t[2], zs(t[3]))))
        if k == 'entw':        # entw <lang> <idx list> <pos> <word code points>
            return hx(mn(t[1]).to_entropy(sentence(t[1], 'plain', zs(t[2]), (int(t[3]), text(t[4])))))
        if k == 'seed':        # seed <lang> <form> <idx list> <password code points>
            return hx(mn(t[1]).to_seed(sentence(t[1], t[2], zs(t[3])), text(t[4])))
        if k == 'seedw':       # seedw <lang> <idx list> <pos> <word code points> <password code points>
            return hx(mn(t[1]).to_seed(sentence(t[1], 'plain', zs(t[2]), (int(t[3]), text(t[4]))), text(t[5])))
        if k == 'hdkey':       # hdkey <lang> <idx list> <password code points>
            key = HDKey.from_passphrase(sentence(t[1], 'plain', zs(t[2])), text(t[3]))
            return key.private_hex + key.chain.hex()
        if k == 'detect':      # detect <lang> <idx list>
            return Mnemonic.detect_language(sentence(t[1], 'plain', zs(t[2])))
        if k == 'wlfacts':     # the list the class serves: length, distinct, NFKD-normal, equal to the file, word(i)
            m = Mnemonic(t[1])
            ws = m.wordlist()
            nf = all(unicodedata.normalize('NFKD', w) == w for w in ws)
            same = ws == wl(t[1]) and all(m.word(i) == ws[i] for i in (0, 1, 1023, 2046, 2047))
            clean = all(w and not any(c.isspace() for c in w) for w in ws)
            return '%d %d %d %d %d' % (len(ws), len(set(ws)), nf, same, clean)
    except RecursionError:
        raise
    except BaseException as ex:
        if isinstance(ex, (KeyboardInterrupt, SystemExit)):
            raise
        return err(ex)
    return 'BADREQ'


serve(dispatch)
