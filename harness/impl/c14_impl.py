"""Implementation adapter for C14: answers the request lines of ocaml/c14_driver.ml from /repo (public API only:
encoding.change_base / to_bytes, Mnemonic(lang).to_mnemonic / to_entropy / to_seed / generate / detect_language /
sanitize_mnemonic / word / wordlist, HDKey.from_passphrase), with every public argument settable.
Sentences travel as index lists (mapped through the FROZEN BIP39 word lists of /verif/corpus/C14/wordlist, never
through the repository's files) or as literal text (code points).  `seq` runs several calls in this one process
on one Mnemonic object per language."""
import sys, os, logging, unicodedata
sys.path.insert(0, os.path.dirname(os.path.abspath(__file__)))
from common_impl import hx, unhx, serve
logging.disable(logging.CRITICAL)
import bitcoinlib
from bitcoinlib.encoding import change_base, to_bytes
from bitcoinlib.mnemonic import Mnemonic
from bitcoinlib.keys import HDKey

WLDIR = os.path.join(os.path.dirname(os.path.dirname(os.path.dirname(os.path.abspath(__file__)))), 'corpus', 'C14',
                     'wordlist')
_WL, _IDX, _MN = {}, {}, {}
FRESH = [False]          # inside a `seq ... fresh` session: a new Mnemonic object for every call


def wl(lang):
    if lang == 'default':
        lang = 'english'
    if lang not in _WL:
        with open(os.path.join(WLDIR, lang + '.txt'), encoding='utf8') as f:
            _WL[lang] = [w.strip() for w in f.read().split('\n') if w.strip()]
        _IDX[lang] = {w: i for i, w in enumerate(_WL[lang])}
    return _WL[lang]


def mn(lang):
    if FRESH[0]:
        return Mnemonic() if lang == 'default' else Mnemonic(lang)
    if lang not in _MN:
        _MN[lang] = Mnemonic() if lang == 'default' else Mnemonic(lang)
    return _MN[lang]


def cps(s):
    return ','.join('%x' % ord(c) for c in s) if s else '-'


def as_arg(form, s):
    """a text argument as str ('s') or as its UTF-8 bytes ('b')"""
    return s.encode('utf8') if form == 'b' else s


def zs(t):
    return [] if t == '-' else [int(x) for x in t.split(',')]


def szs(l):
    return ','.join(str(x) for x in l) if len(l) else '-'


def text(t):
    """comma-separated hex code points -> str"""
    return '' if t == '-' else ''.join(chr(int(x, 16)) for x in t.split(','))


def sentence(lang, form, idx, sub=None):
    words = [wl(lang)[i] for i in idx]
    if sub is not None:
        words[sub[0]] = sub[1]
    if form == 'ideo':
        return '　'.join(words)
    s = ' '.join(words)
    if form == 'nfc':
        return unicodedata.normalize('NFC', s)
    if form == 'nfkc':
        return unicodedata.normalize('NFKC', s)
    return s


def idx_of_sentence(lang, s):
    wl(lang)
    if lang == 'default':
        lang = 'english'
    ws = s.split(' ')
    out = []
    for w in ws:
        if w not in _IDX[lang]:
            return 'RAW ' + s.encode('utf8', 'backslashreplace').hex()
        out.append(_IDX[lang][w])
    flag = '' if s == unicodedata.normalize('NFKD', ' '.join(wl(lang)[i] for i in out)) else ' !form'
    return szs(out) + flag


def err(ex):
    return 'ERR ' + type(ex).__name__


def dispatch(t):
    k = t[0]
    try:
        if k == 'cb10_2':
            r = change_base(int(t[1]), 10, 2, int(t[2]))
            return r if r else '-'
        if k == 'cb256_2':
            r = change_base(unhx(t[1]), 256, 2, int(t[2]))
            return r if r else '-'
        if k == 'cb2_2048':
            return szs(change_base('' if t[1] == '-' else t[1], 2, 2048))
        if k == 'cb2048_256':
            r = change_base(zs(t[1]), 2048, 256, int(t[2]), output_even=False)
            return hx(r) if isinstance(r, bytes) else 'NOTBYTES %r' % (r,)
        if k == 'cb2_256':
            r = change_base('' if t[1] == '-' else t[1], 2, 256, int(t[2]))
            return hx(r) if isinstance(r, bytes) else 'NOTBYTES %r' % (r,)
        if k == 'to_bytes':
            return hx(to_bytes(unhx(t[1])))
        if k == 'mn':          # mn <lang> <entropy hex>      bytes argument, check_on_curve=False
            return idx_of_sentence(t[1], mn(t[1]).to_mnemonic(unhx(t[2]), check_on_curve=False))
        if k == 'mnhex':       # hex-string argument
            return idx_of_sentence(t[1], mn(t[1]).to_mnemonic(t[2], check_on_curve=False))
        if k == 'mncurve':     # default switches (check_on_curve=True)
            return idx_of_sentence(t[1], mn(t[1]).to_mnemonic(unhx(t[2])))
        if k == 'gen':         # gen <lang> <strength> <urandom hex>
            data = unhx(t[3])
            real = os.urandom
            os.urandom = lambda n: data[:n] if len(data) >= n else real(n)
            try:
                s = mn(t[1]).generate(int(t[2]))
            finally:
                os.urandom = real
            return idx_of_sentence(t[1], s)
        if k == 'ent':         # ent <lang> <form> <idx list>
            return hx(mn(t[1]).to_entropy(sentence(t[1], t[2], zs(t[3]))))
        if k == 'entw':        # entw <lang> <idx list> <pos> <word code points>
            return hx(mn(t[1]).to_entropy(sentence(t[1], 'plain', zs(t[2]), (int(t[3]), text(t[4])))))
        if k == 'seed':        # seed <lang> <form> <idx list> <password code points>
            return hx(mn(t[1]).to_seed(sentence(t[1], t[2], zs(t[3])), text(t[4])))
        if k == 'seedw':       # seedw <lang> <idx list> <pos> <word code points> <password code points>
            return hx(mn(t[1]).to_seed(sentence(t[1], 'plain', zs(t[2]), (int(t[3]), text(t[4]))), text(t[5])))
        if k == 'hdkey':       # hdkey <lang> <idx list> <password code points>
            key = HDKey.from_passphrase(sentence(t[1], 'plain', zs(t[2])), text(t[3]))
            return key.private_hex + key.chain.hex()
        if k == 'detect':      # detect <lang> <idx list>
            return Mnemonic.detect_language(sentence(t[1], 'plain', zs(t[2])))
        if k == 'wlfacts':     # the list the class serves: length, distinct, NFKD-normal, equal to the FROZEN list, word(i)
            m = Mnemonic(t[1])
            ws = m.wordlist()
            nf = all(unicodedata.normalize('NFKD', w) == w for w in ws)
            same = ws == wl(t[1]) and all(m.word(i) == wl(t[1])[i] for i in range(2048))
            clean = all(w and not any(c.isspace() for c in w) for w in ws)
            r = '%d %d %d %d %d' % (len(ws), len(set(ws)), nf, same, clean)
            if not same:
                r += ' first-difference-at-%s' % next((i for i, (a, b) in enumerate(zip(ws, wl(t[1]))) if a != b), 'end')
            return r
        if k == 'wlfiles':     # the word-list files the library ships
            d = os.path.join(os.path.dirname(bitcoinlib.__file__), 'wordlist')
            return ','.join(sorted(f[:-4] for f in os.listdir(d) if f.endswith('.txt')))
        # ---- literal-text requests with every switch explicit
        if k == 'tmn':         # tmn <lang> <add_checksum> <check_on_curve> <b|h> <entropy hex>
            data = t[5] if t[4] == 'h' else unhx(t[5])
            return idx_of_sentence(t[1], mn(t[1]).to_mnemonic(data, add_checksum=t[2] == '1', check_on_curve=t[3] == '1'))
        if k == 'tgen':        # tgen <lang> <strength> <add_checksum|d> <urandom hex>     ('d' = argument left out)
            data = unhx(t[4])
            asked = []
            real = os.urandom

            def fake(n):
                asked.append(n)
                return data[:n] if len(data) >= n >= 0 else real(n)
            os.urandom = fake
            try:
                if t[3] == 'd':
                    s = mn(t[1]).generate(int(t[2]))
                else:
                    s = mn(t[1]).generate(int(t[2]), add_checksum=t[3] == '1')
            finally:
                os.urandom = real
            return idx_of_sentence(t[1], s) + ' asked=' + ','.join(str(n) for n in asked)
        if k == 'tent':        # tent <lang> <includes_checksum|d> <s|b> <text>
            arg = as_arg(t[3], text(t[4]))
            if t[2] == 'd':
                return hx(mn(t[1]).to_entropy(arg))
            return hx(mn(t[1]).to_entropy(arg, includes_checksum=t[2] == '1'))
        if k == 'tseed':       # tseed <lang> <validate|d> <s|b> <s|b> <text> <password>
            arg, pw = as_arg(t[3], text(t[5])), as_arg(t[4], text(t[6]))
            if t[2] == 'd':
                return hx(mn(t[1]).to_seed(arg, pw))
            return hx(mn(t[1]).to_seed(arg, pw, validate=t[2] == '1'))
        if k == 'tsan':        # tsan <lang> <s|b> <text>
            return 'S ' + cps(mn(t[1]).sanitize_mnemonic(as_arg(t[2], text(t[3]))))
        if k == 'tdet':        # tdet <lang|static> <s|b> <text>
            f = Mnemonic.detect_language if t[1] == 'static' else mn(t[1]).detect_language
            return f(as_arg(t[2], text(t[3])))
        if k == 'thd':         # thd <lang of the sentence> <text> <password> <network> <key_type> <compressed> <witness_type> <multisig>
            if t[4] == 'd':    # only the two positional arguments
                key = HDKey.from_passphrase(text(t[2]), text(t[3]))
            else:
                key = HDKey.from_passphrase(text(t[2]), password=text(t[3]), network=t[4], key_type=t[5],
                                            compressed=t[6] == '1', witness_type=t[7], multisig=t[8] == '1')
            try:               # the serialisation is C03's business; some network / witness-type pairs have no prefix
                wif = key.wif(is_private=True) if key.key_type == 'bip32' else '-'
            except Exception as ex:
                wif = 'nowif:' + type(ex).__name__
            return '%s%s %s %s %d %s %d %s' % (key.private_hex, key.chain.hex(), key.network.name, key.key_type,
                                               key.compressed, key.witness_type, key.multisig, wif)
        if k == 'seq':         # seq <cached|fresh> sub-request | sub-request | ...   (one process, one object per language)
            subs, cur = [], []
            for x in t[2:]:
                if x == '|':
                    subs.append(cur)
                    cur = []
                else:
                    cur.append(x)
            subs.append(cur)
            FRESH[0] = t[1] == 'fresh'
            try:
                return ' | '.join(dispatch(q) if q and q[0] != 'seq' else 'BADREQ' for q in subs)
            finally:
                FRESH[0] = False
    except RecursionError:
        raise
    except BaseException as ex:
        if isinstance(ex, (KeyboardInterrupt, SystemExit)):
            raise
        return err(ex)
    return 'BADREQ'


serve(dispatch)
