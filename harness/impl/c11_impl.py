"""Implementation adapter for C11: same line protocol as ocaml/c11_driver.ml, answers from /repo.
Text strings travel as hex of their latin-1 bytes ('-' = empty)."""
import sys, os, logging, math
sys.path.insert(0, os.path.dirname(os.path.abspath(__file__)))
from common_impl import hx, unhx, serve
logging.disable(logging.CRITICAL)
from bitcoinlib.encoding import (change_base, base58encode, addr_base58_to_pubkeyhash, addr_bech32_to_pubkeyhash,
                                 addr_to_pubkeyhash, addr_bech32_checksum, pubkeyhash_to_addr_base58,
                                 pubkeyhash_to_addr_bech32, pubkeyhash_to_addr, convertbits, EncodingError)
from bitcoinlib.keys import deserialize_address, Address, Key, HDKey, BKeyError, bip38_decrypt


def s_of(h):
    return unhx(h).decode('latin-1')


def hs(s):
    return hx(s.encode('latin-1')) if isinstance(s, str) else hx(bytes(s))


def err(e):
    if isinstance(e, EncodingError):
        return 'ERR'
    if isinstance(e, AssertionError):
        return 'ERR assert'
    if isinstance(e, BKeyError):
        return 'ERR key'
    return 'ERR other:' + type(e).__name__


def info(d):
    pfx = d['prefix']
    pfx = pfx.encode('latin-1') if isinstance(pfx, str) else pfx
    net = d['network']
    return '%s pfx=%s pkh=%s net=%s st=%s wt=%s nets=%s wv=%s raw=%s' % (
        d['encoding'], hx(pfx), hx(d['public_key_hash_bytes']),
        'None' if net is None else ("''" if net == '' else net),
        d['script_type'] or '-', d['witness_type'] or '-', ','.join(d['networks']) or '-',
        d['witver'], hx(d['raw']))


def dispatch(t):
    k = t[0]
    try:
        if k == 'b58enc':
            return hs(base58encode(unhx(t[1])))
        if k == 'b58dec':
            try:
                return hx(change_base(s_of(t[1]), 58, 256, int(t[2])))
            except Exception:
                return 'ERR'
        if k == 'addr58':
            return hx(addr_base58_to_pubkeyhash(s_of(t[1])))
        if k == 'a2p':
            return hx(addr_to_pubkeyhash(s_of(t[1])))
        if k == 'enc58':
            return hs(pubkeyhash_to_addr_base58(unhx(t[2]).hex(), unhx(t[1])))
        if k == 'deser':
            enc = {'none': None, 'b58': 'base58', 'bech32': 'bech32'}[t[1]]
            try:
                return info(deserialize_address(s_of(t[2]), encoding=enc))
            except BKeyError:
                return 'ERR key'
            except EncodingError:
                return 'ERR enc'
        if k == 'bech32dec':
            return hx(addr_bech32_to_pubkeyhash(s_of(t[1]), include_witver=True))
        if k == 'bech32enc':
            try:
                return hs(pubkeyhash_to_addr_bech32(unhx(t[1]).hex(), s_of(t[2]), int(t[3]), '1', int(t[4])))
            except (EncodingError, IndexError):
                return 'ERR'
        if k == 'bech32chk':
            return str(addr_bech32_checksum(s_of(t[1])))
        if k == 'convertbits':
            l = [] if t[4] == '-' else [int(x) for x in t[4].split(',')]
            try:
                r = convertbits(l, int(t[1]), int(t[2]), t[3] == '1')
            except EncodingError:
                return 'ERR'
            return 'None' if r is None else (','.join(str(x) for x in r) or '-')
        # ---- property-level observations (not modelled) ----
        if k == 'parse':
            a = Address.parse(s_of(t[1]))
            return 'OK ' + hs(a.address) + ' net=%s st=%s' % (a.network.name, a.script_type)
        if k == 'reenc':
            d = deserialize_address(s_of(t[1]))
            return 'OK ' + hs(pubkeyhash_to_addr(d['public_key_hash_bytes'].hex(), d['prefix'], d['encoding'],
                                                 d['witver'] or 0))
        if k == 'key':
            kk = Key(s_of(t[1]))
            return 'OK ' + hs(kk.wif()) + ' ' + kk.private_hex
        if k == 'hdkey':
            kk = HDKey(s_of(t[1]))
            return 'OK ' + hs(kk.wif(is_private=kk.is_private)) + ' ' + (kk.private_hex or kk.public_hex)
        if k == 'hdfromwif':
            kk = HDKey.from_wif(s_of(t[1]))
            return 'OK ' + hs(kk.wif(is_private=kk.is_private)) + ' ' + (kk.private_hex or kk.public_hex)
        if k == 'bip38':
            kk = Key(s_of(t[1]), password=s_of(t[2]))
            return 'OK ' + kk.private_hex
        if k == 'b32':            # b32 <string> <prefix|-> <include_witver> <as_hex>: every optional argument of the decoder
            a = {}
            if t[2] != '-':
                a['prefix'] = s_of(t[2])
            if t[3] != '-':
                a['include_witver'] = t[3] == '1'
            if t[4] != '-':
                a['as_hex'] = t[4] == '1'
            r = addr_bech32_to_pubkeyhash(s_of(t[1]), **a)
            return 'OK %s %s' % ('str' if isinstance(r, str) else 'bytes', r if isinstance(r, str) else hx(r))
        if k == 'a2px':           # a2px <string> <as_hex|-> <none|b58|bech32>
            a = {}
            if t[2] != '-':
                a['as_hex'] = t[2] == '1'
            if t[3] != 'none':
                a['encoding'] = {'b58': 'base58', 'bech32': 'bech32'}[t[3]]
            r = addr_to_pubkeyhash(s_of(t[1]), **a)
            if r is None:
                return 'ERR none'
            return 'OK %s %s' % ('str' if isinstance(r, str) else 'bytes', r if isinstance(r, str) else hx(r))
        if k == 'bip38fn':        # the decryption function itself (Key(...) only routes 58-character strings to it)
            r = bip38_decrypt(s_of(t[1]), s_of(t[2]))
            return 'OK ' + (r[0].hex() if isinstance(r[0], bytes) else str(r[0]))
        if k == 'bip38hd':
            kk = HDKey(s_of(t[1]), password=s_of(t[2]), witness_type='legacy')   # BIP38 address hashes are of legacy addresses
            return 'OK ' + kk.private_hex
        if k == 'floatguard':
            pf = math.log(256, 58)
            bad = [n for n in range(1, int(t[1])) if (n / pf).is_integer()]
            return ','.join(map(str, bad)) or '-'
    except RecursionError:
        raise
    except BaseException as e:
        return err(e)
    return 'BADREQ'


serve(dispatch)
