"""Implementation adapter for C09: wallet key histories answered by the real library (public API only).

Request line:   run <seedhex | -> <sentence>[+<hex of the UTF-8 password>] <cmd> <cmd> ...
                <sentence> = the mnemonic words joined by _ , or  hex:<hex of the UTF-8 sentence>  (non-ASCII languages)
Answer line:    one token per command (see harness/props/c09.py for the grammar); every command that can touch the
                key table is followed by ~<snapshot of Wallet.keys()> (new rows in full, known rows compact).
Every wallet lives in its own sqlite file under the cwd (the run directory); no network is touched
(bitcoinlib.wallets.Service is replaced by a stub that answers "nothing found")."""
import sys, os, logging, itertools
sys.path.insert(0, os.path.dirname(os.path.abspath(__file__)))
from common_impl import serve
logging.disable(logging.CRITICAL)
import sqlalchemy.event
import sqlalchemy.engine


@sqlalchemy.event.listens_for(sqlalchemy.engine.Engine, 'connect')
def _fast_sqlite(dbapi_con, _rec):
    """durability is of no interest here (the files are still real files and are really re-opened)"""
    try:
        cur = dbapi_con.cursor()
        cur.execute('PRAGMA synchronous=OFF')
        cur.execute('PRAGMA journal_mode=MEMORY')
        cur.close()
    except Exception:
        pass


import bitcoinlib.wallets as bw
from bitcoinlib.wallets import Wallet, WalletError, wallet_create_or_open
from bitcoinlib.keys import HDKey, BKeyError
from bitcoinlib.mnemonic import Mnemonic


class _NoService(object):
    """offline stand-in for bitcoinlib.services.services.Service: no provider ever answers with data"""
    def __init__(self, *a, **k):
        self.complete = True
        self.errors = {}
        self.results = {}

    def getutxos(self, *a, **k):
        return []

    def gettransactions(self, *a, **k):
        return []

    def blockcount(self, *a, **k):
        return 0

    def getbalance(self, *a, **k):
        return 0


bw.Service = _NoService
_counter = itertools.count()
_WT = {'l': 'legacy', 'p': 'p2sh-segwit', 's': 'segwit', '-': None}
_WTL = {'legacy': 'l', 'p2sh-segwit': 'p', 'segwit': 's'}


def opt_int(s):
    return None if s == '-' else int(s)


def opt_str(s):
    return None if s == '-' else s


def opt_bool(s):
    return None if s == '-' else s == '1'


def fmt_key(k):
    """a handed-out WalletKey: path|address|wif|address_index"""
    return '%s|%s|%s|%s' % (k.path, k.address, k.wif, k.address_index)


def fmt_keys(ks):
    return ','.join(fmt_key(k) for k in ks) if ks else '-'


def fmt_db(k):
    """a DbKey row of Wallet.keys()"""
    return '|'.join(str(x) for x in (
        k.id, k.path, k.address, k.wif, k.account_id, '-' if k.change is None else k.change, k.address_index, k.depth,
        int(bool(k.used)), k.purpose, k.network_name, k.witness_type, int(bool(k.is_private)),
        '-' if k.cosigner_id is None else k.cosigner_id))


def fmt_compact(k):
    """a row already reported in full: the columns that position it (they must never change)"""
    return '/'.join(str(x) for x in (
        k.id, k.account_id, '-' if k.change is None else k.change, k.address_index, k.depth, int(bool(k.used)),
        _WTL.get(k.witness_type, '?'), k.network_name))


class Slot(object):
    def __init__(self, w, name, uri):
        self.w, self.name, self.uri = w, name, uri
        self.handed = []      # WalletKey objects handed out in this session (kept alive on purpose)
        self.seen = set()     # ids of the rows already reported in full

    def snapshot(self):
        """Wallet.keys() after the command: every row, new ones in full"""
        try:
            rows = []
            for k in self.w.keys():
                if k.id in self.seen:
                    rows.append(fmt_compact(k))
                else:
                    self.seen.add(k.id)
                    rows.append(fmt_db(k))
            return '~' + ';'.join(rows)
        except Exception as e:
            return '~CRASH:' + type(e).__name__


def leaves(w):
    return [k for k in w.keys(depth=w.key_depth)]


def sentence_of(tok):
    """(sentence, password) of the second request token"""
    pw = ''
    if '+' in tok:
        tok, pwhex = tok.split('+', 1)
        pw = bytes.fromhex(pwhex).decode('utf8')
    if tok.startswith('hex:'):
        return bytes.fromhex(tok[4:]).decode('utf8'), pw
    return tok.replace('_', ' '), pw


def run(toks):
    seed = bytes.fromhex(toks[1]) if toks[1] != '-' else None
    words, password = sentence_of(toks[2])
    if seed is None:      # the request leaves the seed to BIP39: computed by the library from sentence and password
        seed = Mnemonic().to_seed(words, password)
    slots = {}
    out = []
    uid = next(_counter)
    for cmd in toks[3:]:
        f = cmd.split(':')
        c = f[0]
        s = None
        try:
            if c == 'C':
                slot, kind, net, wt, acct = f[1], f[2], f[3], _WT[f[4]], int(f[5])
                srcname = f[6] if len(f) > 6 and f[6] != '-' else None
                flags = f[7] if len(f) > 7 else ''
                given = f[8] if len(f) > 8 else None        # extended key text supplied by the harness
                lang = f[9] if len(f) > 9 else 'english'
                name = 'w%d_%s' % (uid, slot)
                uri = 'sqlite:///' + os.path.join(os.getcwd(), 'c09_%s_%d.sqlite' % (name, os.getpid()))
                src = slots.get(srcname) if srcname else None
                if srcname and src is None:
                    out.append('C=NOSLOT')
                    continue
                pw = ''
                if kind == 'seed':
                    key = HDKey.from_seed(seed, network=net, witness_type=wt)
                elif kind == 'mnem':          # the sentence itself; the password travels as Wallet.create's own argument
                    key, pw = words, password
                elif kind == 'mnemk':         # HDKey.from_passphrase object
                    key = HDKey.from_passphrase(words, password=password, network=net, witness_type=wt)
                elif kind == 'mnems':         # Mnemonic(language).to_seed -> HDKey.from_seed (any language)
                    key = HDKey.from_seed(Mnemonic(lang).to_seed(words, password), network=net, witness_type=wt)
                elif kind == 'xprv':
                    key = src.w.wif(is_private=True)
                elif kind == 'wkey':          # the WalletKey object of the source wallet's main key
                    key = src.w.main_key
                elif kind == 'xpub':
                    key = src.w.public_master(account_id=acct).wif
                elif kind == 'xpubw':     # the wallet-level export instead of the WalletKey attribute
                    key = src.w.wif(is_private=False, account_id=acct)
                elif kind == 'axprv':
                    key = src.w.public_master(account_id=acct, as_private=True).wif
                elif kind in ('xprvs', 'xpubs', 'axprvs'):      # extended key text written by the harness
                    key = given
                elif kind in ('xprvk', 'xpubk', 'axprvk'):      # ... parsed into an HDKey object first
                    key = HDKey(given, network=net, witness_type=wt)
                elif kind.startswith('depth'):      # depth<n>[p]: the key <n> levels down the documented path (p: public)
                    from bitcoinlib.networks import Network
                    from bitcoinlib.main import get_key_structure_data
                    full = ["%d'" % get_key_structure_data(wt, False)[1], "%d'" % Network(net).bip44_cointype,
                            "%d'" % acct, '0', '0']
                    key = HDKey.from_seed(seed, network=net, witness_type=wt).subkey_for_path(
                        '/'.join(['m'] + full[:int(kind[5])]))
                    if kind.endswith('p'):
                        key = key.public()
                elif kind == 'single':        # a single-key wallet: one private key, no derivation (scheme 'single')
                    m = HDKey.from_seed(seed, network=net, witness_type=wt)
                    key = HDKey(key=m.private_byte, chain=m.chain, network=net, witness_type=wt, key_type='single')
                else:
                    return 'BADREQ'
                kw = dict(keys=key, account_id=acct, db_uri=uri)
                if kind == 'single':
                    kw['scheme'] = 'single'
                if 'n' not in flags:
                    kw['network'] = net
                if 'w' not in flags:
                    kw['witness_type'] = wt
                if pw:
                    kw['password'] = pw
                if 'o' in flags:
                    w = wallet_create_or_open(name, **kw)
                else:
                    w = Wallet.create(name, **kw)
                s = slots[slot] = Slot(w, name, uri)
                out.append('C=ok' + s.snapshot())
                continue
            if f[1] not in slots:
                out.append(c + '=NOSLOT')
                continue
            s = slots[f[1]]
            w = s.w
            if c == 'K':
                acct, chg, wt, net, n = opt_int(f[2]), int(f[3]), _WT[f[4]], opt_str(f[5]), int(f[6])
                ckw = {'cosigner_id': int(f[7])} if len(f) > 7 and f[7] != '-' else {}
                if n == 1 and chg == 1 and not ckw:
                    ks = [w.new_key_change(account_id=acct, witness_type=wt, network=net)]
                elif n == 1:
                    ks = [w.new_key(account_id=acct, change=chg, witness_type=wt, network=net, **ckw)]
                else:
                    ks = w.new_keys(account_id=acct, change=chg, witness_type=wt, network=net, number_of_keys=n, **ckw)
                s.handed += ks
                out.append('K=' + fmt_keys(ks) + s.snapshot())
            elif c == 'G':
                acct, chg, wt, net, n = opt_int(f[2]), int(f[3]), _WT[f[4]], opt_str(f[5]), int(f[6])
                ckw = {'cosigner_id': int(f[7])} if len(f) > 7 and f[7] != '-' else {}
                if n == 1 and chg == 1 and not ckw:
                    ks = [w.get_key_change(account_id=acct, witness_type=wt, network=net)]
                elif n == 1:
                    ks = [w.get_key(account_id=acct, witness_type=wt, network=net, change=chg, **ckw)]
                elif chg == 1 and not ckw:
                    ks = w.get_keys_change(account_id=acct, witness_type=wt, network=net, number_of_keys=n)
                else:
                    ks = w.get_keys(account_id=acct, witness_type=wt, network=net, number_of_keys=n, change=chg, **ckw)
                s.handed += ks
                out.append('G=' + fmt_keys(ks) + s.snapshot())
            elif c == 'A':
                acct, wt, net = opt_int(f[2]), _WT[f[3]], opt_str(f[4])
                k = w.new_account(account_id=acct, witness_type=wt, network=net)
                s.handed.append(k)
                out.append('A=' + fmt_keys([k]) + s.snapshot())
            elif c == 'P':
                spec, acct, chg, idx, wt, net = f[2], opt_int(f[3]), int(f[4]), int(f[5]), _WT[f[6]], opt_str(f[7])
                parts = spec.split('.')
                if parts[0] == 'e':
                    path = []
                elif parts[0] == 'r':          # a list; a hardened item is the string "<n>'"
                    path = [(x[:-1] + "'") if x.endswith('h') else int(x) for x in parts[1:]]
                elif parts[0] == 's':          # the same relative path written as a string: "0/5"
                    path = '/'.join(x.replace('h', "'") for x in parts[1:])
                elif parts[0] == 'f':          # a full path: "m/84'/0'/0'/0/5" ("M/0/5" below an account-level key)
                    path = '/'.join(x.replace('h', "'") for x in parts[1:])
                else:
                    return 'BADREQ'
                lkw = {'level_offset': int(f[8])} if len(f) > 8 and f[8] != '-' else {}
                k = w.key_for_path(path, account_id=acct, change=chg, address_index=idx, witness_type=wt, network=net,
                                   **lkw)
                s.handed.append(k)
                out.append('P=' + fmt_keys([k]) + s.snapshot())
            elif c == 'B':      # keys_for_path([], ..., number_of_keys=n): explicit bulk creation
                acct, chg, idx, wt, net, n = opt_int(f[2]), int(f[3]), int(f[4]), _WT[f[5]], opt_str(f[6]), int(f[7])
                ks = w.keys_for_path([], account_id=acct, change=chg, address_index=idx, witness_type=wt, network=net,
                                     number_of_keys=n)
                s.handed += ks
                out.append('B=' + fmt_keys(ks) + s.snapshot())
            elif c == 'S':      # Wallet.scan() with providers that report nothing: creates the gap-limit keys
                gap, acct, chg, net = int(f[2]), opt_int(f[3]), opt_int(f[4]), opt_str(f[5])
                w.scan(scan_gap_limit=gap, account_id=acct, change=chg, network=net)
                out.append('S=ok' + s.snapshot())
            elif c == 'U':
                lv = leaves(w)
                if not lv:
                    raise ValueError('no keys yet')
                k = lv[int(f[2]) % len(lv)]
                # utxo_add() files the transaction under account 0 whatever the key's account is (and the balance
                # update then rewrites DbKey.account_id); the explicit form keeps the key where it is
                w.utxos_update(account_id=k.account_id, networks=k.network_name,
                               utxos=[{'address': k.address, 'script': '', 'confirmations': 1, 'output_n': 0,
                                       'txid': '%064x' % (int(f[2]) + 1), 'value': 100000}])
                out.append('U=%d' % k.id + s.snapshot())
            elif c == 'R':
                name, uri = s.name, s.uri
                s.handed = []
                s.w = None
                del w
                if len(f) > 2 and f[2] == 'o':      # "create or open" of an existing wallet opens it
                    s.w = wallet_create_or_open(name, db_uri=uri)
                else:
                    s.w = Wallet(name, db_uri=uri)
                out.append('R=ok' + s.snapshot())
            elif c == 'M':      # Wallet.public_master() (returns key.public(): mutates the cached WalletKey)
                k = w.public_master(account_id=opt_int(f[2]), witness_type=_WT[f[3]], network=opt_str(f[4]))
                s.handed.append(k)
                out.append('M=%s|%s' % (k.path, k.wif) + s.snapshot())
            elif c == 'Q':      # Wallet.account(account_id): the account key of the wallet's own purpose and network
                k = w.account(int(f[2]))
                s.handed.append(k)
                out.append('Q=' + fmt_keys([k]) + s.snapshot())
            elif c == 'X':      # WalletKey.public() on a key handed out by Wallet.key()
                lv = leaves(w)
                k = w.key(lv[int(f[2]) % len(lv)].id)
                p = k.public()
                s.handed.append(p)
                out.append('X=%s|%s' % (p.path, p.address))
            elif c == 'L':      # the listing functions: ids of the rows they return
                how, acct, chg, depth, used, wt, net = f[2], opt_int(f[3]), opt_int(f[4]), opt_int(f[5]), \
                    opt_bool(f[6]), _WT[f[7]], opt_str(f[8])
                if how == 'k':
                    rows = w.keys(account_id=acct, change=chg, depth=depth, used=used, witness_type=wt, network=net)
                    res = [str(r.id) for r in rows]
                elif how == 'a':        # witness_type is not an argument of the wrappers
                    rows = w.keys_addresses(account_id=acct, used=used, change=chg, network=net, depth=depth)
                    res = [str(r.id) for r in rows]
                elif how == 'p':
                    rows = w.keys_address_payment(account_id=acct, used=used, network=net)
                    res = [str(r.id) for r in rows]
                elif how == 'c':
                    rows = w.keys_address_change(account_id=acct, used=used, network=net)
                    res = [str(r.id) for r in rows]
                elif how == 'l':
                    res = w.addresslist(account_id=acct, used=used, network=net, change=chg, depth=depth)
                else:
                    return 'BADREQ'
                out.append('L=' + (';'.join(res) if res else '-'))
            elif c == 'D':
                out.append('D=' + ','.join(fmt_db(k) for k in w.keys()))
            else:
                return 'BADREQ'
        except (WalletError, BKeyError, ValueError) as e:
            out.append(c + '=ERR' + (s.snapshot() if (s is not None and s.w is not None and c not in 'XLD') else ''))
        except Exception as e:
            if c in 'PMA' and isinstance(e, TypeError) and 'NoneType' in str(e) and s is not None and s.w is not None:
                # keys_for_path found no key to derive from and returned None ("No master or public master key found
                # in this wallet"); key_for_path subscripts that: the request was refused
                out.append(c + '=ERR' + s.snapshot())
            else:
                out.append(c + '=CRASH:' + type(e).__name__)
    for s in slots.values():
        try:
            s.w.session.close()
        except Exception:
            pass
    return ' '.join(out)


def cosigner_seed(seed, i):
    """seed of cosigner i of a multisig scenario (the oracle derives the same)"""
    import hashlib, hmac
    return hmac.new(b'c09 cosigner', seed + bytes([i]), hashlib.sha512).digest()[:32]


def fmt_ms(k):
    """a handed-out multisig WalletKey"""
    return '%s|%s|%s|%s|%s|%s' % (k.path, k.address, k.address_index, k.change, k.account_id, k.cosigner_id)


def fmt_ms_row(r):
    return '/'.join(str(x) for x in (r.id, r.path.replace('/', '.'), r.address, r.address_index, r.change, r.account_id,
                                     r.cosigner_id, _WTL.get(r.witness_type, '?'), r.network_name, int(bool(r.used)),
                                     r.depth, r.key_type, r.purpose))


def msrun(toks):
    """multisig cosigner wallet histories (probe: judged by the independent oracle only).
    msrun <seedhex> C:<slot>:<net>:<wt>:<n>:<m>:<own>  then K / G / P / U / R / D on the slot"""
    seed = bytes.fromhex(toks[1])
    slots, out = {}, []
    uid = next(_counter)
    for cmd in toks[2:]:
        f = cmd.split(':')
        c = f[0]
        s = None
        try:
            if c == 'C':
                slot, net, wt, n, m, own = f[1], f[2], _WT[f[3]], int(f[4]), int(f[5]), int(f[6])
                keys = []
                for i in range(n):
                    k = HDKey.from_seed(cosigner_seed(seed, i), network=net, witness_type=wt, multisig=True)
                    keys.append(k if i == own else k.public_master_multisig(witness_type=wt))
                name = 'ms%d_%s' % (uid, slot)
                uri = 'sqlite:///' + os.path.join(os.getcwd(), 'c09_%s_%d.sqlite' % (name, os.getpid()))
                w = Wallet.create(name, keys=keys, sigs_required=m, network=net, witness_type=wt, db_uri=uri)
                s = slots[slot] = Slot(w, name, uri)
                out.append('C=%d' % w.cosigner_id + '~' + ';'.join(fmt_ms_row(r) for r in w.keys()))
                continue
            if f[1] not in slots:
                out.append(c + '=NOSLOT')
                continue
            s = slots[f[1]]
            w = s.w
            def extra(i):
                """optional trailing fields <wt>:<net>:<acct> (arguments that may not fit the cosigners' keys)"""
                kw = {}
                if len(f) > i and f[i] != '-':
                    kw['witness_type'] = _WT[f[i]]
                if len(f) > i + 1 and f[i + 1] != '-':
                    kw['network'] = f[i + 1]
                if len(f) > i + 2 and f[i + 2] != '-':
                    kw['account_id'] = int(f[i + 2])
                return kw
            if c == 'K':
                chg, cos, n = int(f[2]), opt_int(f[3]), int(f[4])
                if n == 1:
                    ks = [w.new_key(change=chg, cosigner_id=cos, **extra(5))]
                else:
                    ks = w.new_keys(change=chg, cosigner_id=cos, number_of_keys=n, **extra(5))
                res = 'K=' + ','.join(fmt_ms(k) for k in ks)
            elif c == 'G':
                chg, n = int(f[2]), int(f[3])
                kw = extra(5)
                if len(f) > 4 and f[4] != '-':
                    kw['cosigner_id'] = int(f[4])
                if n == 1:
                    ks = [w.get_key(change=chg, **kw)]
                else:
                    ks = w.get_keys(change=chg, number_of_keys=n, **kw)
                res = 'G=' + ','.join(fmt_ms(k) for k in ks)
            elif c == 'P':
                k = w.key_for_path([int(f[2]), int(f[3])], **extra(4))
                res = 'P=' + fmt_ms(k)
            elif c == 'U':
                lv = [k for k in w.keys() if k.key_type == 'multisig']
                if not lv:
                    raise ValueError('no keys yet')
                k = lv[int(f[2]) % len(lv)]
                w.utxos_update(account_id=k.account_id, networks=k.network_name,
                               utxos=[{'address': k.address, 'script': '', 'confirmations': 1, 'output_n': 0,
                                       'txid': '%064x' % (int(f[2]) + 1), 'value': 100000}])
                res = 'U=%d' % k.id
            elif c == 'R':
                name, uri = s.name, s.uri
                s.w = None
                del w
                s.w = Wallet(name, db_uri=uri)
                res = 'R=ok'
            else:
                return 'BADREQ'
            out.append(res + '~' + ';'.join(fmt_ms_row(r) for r in s.w.keys()))
        except (WalletError, BKeyError, ValueError) as e:
            try:
                out.append(c + '=ERR' + ('~' + ';'.join(fmt_ms_row(r) for r in s.w.keys()) if s is not None else ''))
            except Exception as e2:
                out.append(c + '=CRASH:' + type(e2).__name__)
        except Exception as e:
            out.append(c + '=CRASH:' + type(e).__name__)
    for s in slots.values():
        try:
            s.w.session.close()
        except Exception:
            pass
    return ' '.join(out)

_KP_NAMES = {'t': 'coin_type', 'a': 'account', 'c': 'change', 'i': 'address_index'}


def kp_levels(spec):
    """'ah.ch.ih' -> ['m', "account'", "change'", "address_index'"]"""
    return ['m'] + [_KP_NAMES[x[0]] + ("'" if x.endswith('h') else '') for x in spec.split('.')]


def fmt_kp(k):
    """a handed-out WalletKey of a custom key_path wallet"""
    return '|'.join(str(x) for x in (k.path, k.address, k.wif, k.address_index, k.change, k.account_id))


def fmt_kp_row(r):
    return '/'.join(str(x) for x in (r.id, r.path.replace('/', '.'), r.address, r.wif, r.address_index, r.change,
                                     r.account_id, r.depth, int(bool(r.used)), r.network_name,
                                     _WTL.get(r.witness_type, '?'), int(bool(r.is_private)), r.key_type))


def kprun(toks):
    """wallets with a custom key_path (hardened change / index levels, no purpose level, ...): probe, judged by the
    independent oracle only.   kprun <seedhex> C:<slot>:<net>:<wt>:<levels> then K / G / P / B / S / A / U / R"""
    seed = bytes.fromhex(toks[1])
    slots, out = {}, []
    uid = next(_counter)
    for cmd in toks[2:]:
        f = cmd.split(':')
        c = f[0]
        s = None
        try:
            if c == 'C':
                slot, net, wt, spec = f[1], f[2], _WT[f[3]], f[4]
                name = 'kp%d_%s' % (uid, slot)
                uri = 'sqlite:///' + os.path.join(os.getcwd(), 'c09_%s_%d.sqlite' % (name, os.getpid()))
                key = HDKey.from_seed(seed, network=net, witness_type=wt)
                w = Wallet.create(name, keys=key, network=net, witness_type=wt, key_path=kp_levels(spec), db_uri=uri)
                s = slots[slot] = Slot(w, name, uri)
                s.spec = spec.split('.')
                out.append('C=ok~' + ';'.join(fmt_kp_row(r) for r in w.keys()))
                continue
            if f[1] not in slots:
                out.append(c + '=NOSLOT')
                continue
            s = slots[f[1]]
            w = s.w
            hard = {x[0]: x.endswith('h') for x in s.spec}
            if c == 'K':
                acct, chg, n = opt_int(f[2]), int(f[3]), int(f[4])
                if n == 1 and chg == 1:
                    ks = [w.new_key_change(account_id=acct)]
                elif n == 1:
                    ks = [w.new_key(account_id=acct, change=chg)]
                else:
                    ks = w.new_keys(account_id=acct, change=chg, number_of_keys=n)
                res = 'K=' + ','.join(fmt_kp(k) for k in ks)
            elif c == 'G':
                acct, chg, n = opt_int(f[2]), int(f[3]), int(f[4])
                if n == 1:
                    ks = [w.get_key_change(account_id=acct) if chg == 1 else w.get_key(account_id=acct)]
                elif chg == 1:
                    ks = w.get_keys_change(account_id=acct, number_of_keys=n)
                else:
                    ks = w.get_keys(account_id=acct, number_of_keys=n)
                res = 'G=' + ','.join(fmt_kp(k) for k in ks)
            elif c == 'P':      # key_for_path([change, address_index]), hardened items written as "<n>'"
                acct, chg, idx = opt_int(f[2]), int(f[3]), int(f[4])
                path = [("%d'" % v) if hard[l] else v for l, v in (('c', chg), ('i', idx))]
                k = w.key_for_path(path, account_id=acct)
                res = 'P=' + fmt_kp(k)
            elif c == 'B':      # keys_for_path([], change, address_index, number_of_keys): explicit bulk creation
                acct, chg, idx, n = opt_int(f[2]), int(f[3]), int(f[4]), int(f[5])
                ks = w.keys_for_path([], account_id=acct, change=chg, address_index=idx, number_of_keys=n)
                res = 'B=' + ','.join(fmt_kp(k) for k in ks)
            elif c == 'S':
                w.scan(scan_gap_limit=int(f[2]))
                res = 'S=ok'
            elif c == 'A':
                k = w.new_account()
                res = 'A=' + fmt_kp(k)
            elif c == 'U':
                lv = [k for k in w.keys(depth=w.key_depth)]
                if not lv:
                    raise ValueError('no keys yet')
                k = lv[int(f[2]) % len(lv)]
                w.utxos_update(account_id=k.account_id, networks=k.network_name,
                               utxos=[{'address': k.address, 'script': '', 'confirmations': 1, 'output_n': 0,
                                       'txid': '%064x' % (int(f[2]) + 1), 'value': 100000}])
                res = 'U=%d' % k.id
            elif c == 'R':
                name, uri, spec = s.name, s.uri, s.spec
                s.w = None
                del w
                s.w = Wallet(name, db_uri=uri)
                res = 'R=ok'
            else:
                return 'BADREQ'
            out.append(res + '~' + ';'.join(fmt_kp_row(r) for r in s.w.keys()))
        except (WalletError, BKeyError, ValueError) as e:
            try:
                out.append(c + '=ERR' + ('~' + ';'.join(fmt_kp_row(r) for r in s.w.keys()) if s is not None else ''))
            except Exception as e2:
                out.append(c + '=CRASH:' + type(e2).__name__)
        except Exception as e:
            out.append(c + '=CRASH:' + type(e).__name__)
    for s in slots.values():
        try:
            s.w.session.close()
        except Exception:
            pass
    return ' '.join(out)


def expand(t):
    # expand <wt> <ms> <coin-ignored> <acct> <chg> <idx> <cos> <network>: keys.path_expand over the structure tables
    from bitcoinlib.keys import path_expand
    from bitcoinlib.main import get_key_structure_data
    wt, ms = _WT[t[1]], t[2] == '1'
    try:
        tpl, purpose, enc = get_key_structure_data(wt, ms)
        p = path_expand([], tpl, account_id=int(t[4]), cosigner_id=int(t[7]), purpose=purpose, address_index=int(t[6]),
                        change=int(t[5]), witness_type=wt, multisig=ms, network=t[8])
        return '/'.join(p) + ' ' + enc
    except (BKeyError, ValueError):
        return 'ERR'


def dispatch(t):
    if t[0] in ('run', 'probe'):      # probe: the same commands, judged by the independent oracle alone
        return run(t)
    if t[0] == 'expand':
        return expand(t)
    if t[0] == 'msrun':
        return msrun(t)
    if t[0] == 'kprun':
        return kprun(t)
    return 'BADREQ'


serve(dispatch)
