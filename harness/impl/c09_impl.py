"""Implementation adapter for C09: wallet key histories answered by the real library (public API only).

Request line:   run <seedhex> <mnemonic words joined by _ | -> <cmd> <cmd> ...
Answer line:    one token per command (see harness/props/c09.py for the grammar).
Every wallet lives in its own sqlite file under the cwd (the run directory); no network is touched
(bitcoinlib.wallets.Service is replaced by a stub that answers "nothing found")."""
import sys, os, logging, itertools
sys.path.insert(0, os.path.dirname(os.path.abspath(__file__)))
from common_impl import serve
logging.disable(logging.CRITICAL)
import bitcoinlib.wallets as bw
from bitcoinlib.wallets import Wallet, WalletError
from bitcoinlib.keys import HDKey, BKeyError


class _NoService(object):
    """offline stand-in for bitcoinlib.services.services.Service: no provider ever answers with data"""
    def __init__(self, *a, **k):
        self.complete = True
        self.errors = {}
        self.results = {}

    def getutxos(self, *a, **k):
        return []

    def gettransactions(self, *a, **k):
        return []

    def blockcount(self, *a, **k):
        return 0

    def getbalance(self, *a, **k):
        return 0


bw.Service = _NoService
_counter = itertools.count()
_WT = {'l': 'legacy', 'p': 'p2sh-segwit', 's': 'segwit', '-': None}


def opt_int(s):
    return None if s == '-' else int(s)


def opt_str(s):
    return None if s == '-' else s


def fmt_key(k):
    """a handed-out WalletKey: path|address|wif|address_index"""
    return '%s|%s|%s|%s' % (k.path, k.address, k.wif, k.address_index)


def fmt_keys(ks):
    return ','.join(fmt_key(k) for k in ks) if ks else '-'


def fmt_db(k):
    """a DbKey row of Wallet.keys()"""
    return '|'.join(str(x) for x in (
        k.id, k.path, k.address, k.wif, k.account_id, '-' if k.change is None else k.change, k.address_index, k.depth,
        int(bool(k.used)), k.purpose, k.network_name, k.witness_type, int(bool(k.is_private)),
        '-' if k.cosigner_id is None else k.cosigner_id))


class Slot(object):
    def __init__(self, w, name, uri):
        self.w, self.name, self.uri = w, name, uri
        self.handed = []      # WalletKey objects handed out in this session (kept alive on purpose)


def leaves(w):
    return [k for k in w.keys(depth=w.key_depth)]


def run(toks):
    seed = bytes.fromhex(toks[1])
    words = toks[2].replace('_', ' ')
    slots = {}
    out = []
    uid = next(_counter)
    for cmd in toks[3:]:
        f = cmd.split(':')
        c = f[0]
        try:
            if c == 'C':
                slot, kind, net, wt, acct = f[1], f[2], f[3], _WT[f[4]], int(f[5])
                name = 'w%d_%s' % (uid, slot)
                uri = 'sqlite:///' + os.path.join(os.getcwd(), 'c09_%s_%d.sqlite' % (name, os.getpid()))
                src = slots.get(f[6]) if len(f) > 6 else None
                if len(f) > 6 and src is None:
                    out.append('C=NOSLOT')
                    continue
                if kind == 'seed':
                    key = HDKey.from_seed(seed, network=net, witness_type=wt)
                elif kind == 'mnem':
                    key = words
                elif kind == 'xprv':
                    key = src.w.wif(is_private=True)
                elif kind == 'xpub':
                    key = src.w.public_master(account_id=acct).wif
                elif kind == 'xpubw':     # the wallet-level export instead of the WalletKey attribute
                    key = src.w.wif(is_private=False, account_id=acct)
                elif kind == 'axprv':
                    key = src.w.public_master(account_id=acct, as_private=True).wif
                else:
                    return 'BADREQ'
                w = Wallet.create(name, keys=key, network=net, witness_type=wt, account_id=acct, db_uri=uri)
                slots[slot] = Slot(w, name, uri)
                out.append('C=ok')
                continue
            if f[1] not in slots:
                out.append(c + '=NOSLOT')
                continue
            s = slots[f[1]]
            w = s.w
            if c == 'K':
                acct, chg, wt, net, n = opt_int(f[2]), int(f[3]), _WT[f[4]], opt_str(f[5]), int(f[6])
                if n == 1 and chg == 1:
                    ks = [w.new_key_change(account_id=acct, witness_type=wt, network=net)]
                elif n == 1:
                    ks = [w.new_key(account_id=acct, change=chg, witness_type=wt, network=net)]
                else:
                    ks = w.new_keys(account_id=acct, change=chg, witness_type=wt, network=net, number_of_keys=n)
                s.handed += ks
                out.append('K=' + fmt_keys(ks))
            elif c == 'G':
                acct, chg, wt, net, n = opt_int(f[2]), int(f[3]), _WT[f[4]], opt_str(f[5]), int(f[6])
                if n == 1 and chg == 1:
                    ks = [w.get_key_change(account_id=acct, witness_type=wt, network=net)]
                elif n == 1:
                    ks = [w.get_key(account_id=acct, witness_type=wt, network=net, change=chg)]
                elif chg == 1:
                    ks = w.get_keys_change(account_id=acct, witness_type=wt, network=net, number_of_keys=n)
                else:
                    ks = w.get_keys(account_id=acct, witness_type=wt, network=net, number_of_keys=n, change=chg)
                s.handed += ks
                out.append('G=' + fmt_keys(ks))
            elif c == 'A':
                acct, wt, net = opt_int(f[2]), _WT[f[3]], opt_str(f[4])
                k = w.new_account(account_id=acct, witness_type=wt, network=net)
                s.handed.append(k)
                out.append('A=' + fmt_keys([k]))
            elif c == 'P':
                spec, acct, chg, idx, wt, net = f[2], opt_int(f[3]), int(f[4]), int(f[5]), _WT[f[6]], opt_str(f[7])
                parts = spec.split('.')
                if parts[0] == 'e':
                    path = []
                elif parts[0] == 'r':
                    path = [int(x) for x in parts[1:]]
                elif parts[0] == 'f':
                    path = '/'.join(x.replace('h', "'") for x in parts[1:])
                else:
                    return 'BADREQ'
                k = w.key_for_path(path, account_id=acct, change=chg, address_index=idx, witness_type=wt, network=net)
                s.handed.append(k)
                out.append('P=' + fmt_keys([k]))
            elif c == 'B':      # keys_for_path([], ..., number_of_keys=n): explicit bulk creation
                acct, chg, idx, wt, net, n = opt_int(f[2]), int(f[3]), int(f[4]), _WT[f[5]], opt_str(f[6]), int(f[7])
                ks = w.keys_for_path([], account_id=acct, change=chg, address_index=idx, witness_type=wt, network=net,
                                     number_of_keys=n)
                s.handed += ks
                out.append('B=' + fmt_keys(ks))
            elif c == 'U':
                lv = leaves(w)
                k = lv[int(f[2]) % len(lv)]
                # utxo_add() files the transaction under account 0 whatever the key's account is (and the balance
                # update then rewrites DbKey.account_id); the explicit form keeps the key where it is
                w.utxos_update(account_id=k.account_id, networks=k.network_name,
                               utxos=[{'address': k.address, 'script': '', 'confirmations': 1, 'output_n': 0,
                                       'txid': '%064x' % (int(f[2]) + 1), 'value': 100000}])
                out.append('U=%d' % k.id)
            elif c == 'R':
                name, uri = s.name, s.uri
                s.handed = []
                s.w = None
                del w
                s.w = Wallet(name, db_uri=uri)
                out.append('R=ok')
            elif c == 'M':      # Wallet.public_master() (returns key.public(): mutates the cached WalletKey)
                k = w.public_master(account_id=opt_int(f[2]), witness_type=_WT[f[3]], network=opt_str(f[4]))
                s.handed.append(k)
                out.append('M=%s|%s' % (k.path, k.wif))
            elif c == 'X':      # WalletKey.public() on a key handed out by Wallet.key()
                lv = leaves(w)
                k = w.key(lv[int(f[2]) % len(lv)].id)
                p = k.public()
                s.handed.append(p)
                out.append('X=%s|%s' % (p.path, p.address))
            elif c == 'D':
                out.append('D=' + ','.join(fmt_db(k) for k in w.keys()))
            else:
                return 'BADREQ'
        except (WalletError, BKeyError, ValueError) as e:
            out.append(c + '=ERR')
        except Exception as e:
            out.append(c + '=CRASH:' + type(e).__name__)
    for s in slots.values():
        try:
            s.w.session.close()
        except Exception:
            pass
    return ' '.join(out)


def expand(t):
    # expand <wt> <ms> <coin-ignored> <acct> <chg> <idx> <cos> <network>: keys.path_expand over the structure tables
    from bitcoinlib.keys import path_expand
    from bitcoinlib.main import get_key_structure_data
    wt, ms = _WT[t[1]], t[2] == '1'
    try:
        tpl, purpose, enc = get_key_structure_data(wt, ms)
        p = path_expand([], tpl, account_id=int(t[4]), cosigner_id=int(t[7]), purpose=purpose, address_index=int(t[6]),
                        change=int(t[5]), witness_type=wt, multisig=ms, network=t[8])
        return '/'.join(p) + ' ' + enc
    except (BKeyError, ValueError):
        return 'ERR'


def dispatch(t):
    if t[0] == 'run':
        return run(t)
    if t[0] == 'expand':
        return expand(t)
    return 'BADREQ'


serve(dispatch)
