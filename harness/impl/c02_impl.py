"""Implementation adapter for C02: same line protocol as ocaml/c02_driver.ml, answers from the real library.

A scenario builds a REAL transaction with fixed test keys through the public API (Transaction, add_input,
add_output, sign, verify, raw, parse), applies the requested signing calls / field changes / signature-list edits
and reports, at every V (live object), R (Transaction.parse(t.raw())), Q (parse of raw() with hash-type bytes of
serialized signatures changed) and C (inputs rebuilt from serialized signatures through add_input) step, the
library's verdict, Input.valid, and the oracle matrix: which signature is valid for which listed key, computed here
WITHOUT the library — the digest is the consensus digest (independent legacy SignatureHash / BIP143 code of
harness/props/c01.py) FOR THE HASH TYPE THE SIGNATURE CARRIES, over the fields read from the serialized bytes with an
own parser; for R and Q the signatures (r, s, hash-type byte) are read from the bytes as well; ECDSA is fastecdsa
called directly with our own table of curve points."""
import sys, os, logging, hashlib, struct
from copy import deepcopy
_HERE = os.path.dirname(os.path.abspath(__file__))
sys.path.insert(0, _HERE)
sys.path.insert(1, os.path.dirname(_HERE))
sys.path.insert(2, os.path.join(os.path.dirname(_HERE), 'props'))
from common_impl import serve
import c01 as SPEC          # independent sighash + raw reader (protocol text; imports nothing from the library)
logging.disable(logging.CRITICAL)
from bitcoinlib.transactions import Transaction, TransactionError
from bitcoinlib.keys import Key, Signature, sign
from fastecdsa import _ecdsa
from fastecdsa import ecdsa as _fe_ecdsa
from fastecdsa.curve import secp256k1 as CURVE
from fastecdsa.keys import get_public_key

N = CURVE.q
CP = [str(x) for x in (CURVE.p, CURVE.a, CURVE.b, CURVE.q, CURVE.gx, CURVE.gy)]
KIND = {'pkh': 'p2pkh', 'pk': 'p2pk', 'sh': 'p2sh_multisig', 'wpkh': 'p2wpkh', 'shwpkh': 'p2sh_p2wpkh', 'wsh': 'p2wsh',
        'shwsh': 'p2sh_p2wsh'}
TYPES = {'pkh': ('sig_pubkey', 'legacy'), 'pk': ('signature', 'legacy'), 'wpkh': ('sig_pubkey', 'segwit'), 'shwpkh': ('p2sh_p2wpkh', 'p2sh-segwit'),
         'sh': ('p2sh_multisig', 'legacy'), 'wsh': ('p2sh_multisig', 'segwit'), 'shwsh': ('p2sh_p2wsh', 'p2sh-segwit')}
OUT_ADDR = ['1BvBMSEYstWetqTFn5Au4m4GFg7xJaNVN2', '1HLoD9E4SDFFPDiYfNYnkBLQ85Y51J3Zb1']

_secret, _point, _priv, _pubhex, POINT_OF_PUB = {}, {}, {}, {}, {}


def secret(i):
    if i not in _secret:
        _secret[i] = int.from_bytes(hashlib.sha256(b'verif-c02-key-%d' % i).digest(), 'big') % (N - 1) + 1
        q = get_public_key(_secret[i], CURVE)
        _point[i] = (q.x, q.y)
        comp = bytes([2 + (q.y & 1)]) + q.x.to_bytes(32, 'big')
        unc = b'\x04' + q.x.to_bytes(32, 'big') + q.y.to_bytes(32, 'big')
        _pubhex[(i, 'c')], _pubhex[(i, 'u')] = comp.hex(), unc.hex()
        POINT_OF_PUB[comp] = POINT_OF_PUB[unc] = (q.x, q.y)
    return _secret[i]


def tok(t):
    return int(t[:-1]), t[-1]


def priv(t):
    if t not in _priv:
        i, c = tok(t)
        _priv[t] = Key(secret(i), compressed=(c == 'c'))
    return _priv[t]


def pub(t):
    i, c = tok(t)
    secret(i)
    return Key(_pubhex[(i, c)])          # fresh public-only Key object


_vcache = {}


def ec_valid(r, s, digest, pt):
    k = (r, s, digest, pt)
    if k not in _vcache:
        _vcache[k] = bool(_ecdsa.verify(str(r), str(s), digest.hex(), str(pt[0]), str(pt[1]), *CP))
    return _vcache[k]


class Ctx:
    """what no serialization carries: the outputs being spent (kind, listed keys, threshold, amount), per input"""

    def __init__(self, specs):
        self.specs = specs
        self.values = [100000 + i for i in range(len(specs))]

    def desc(self):
        out = []
        for (ty, m, ks), v in zip(self.specs, self.values):
            keys = []
            for k in ks:
                i, c = tok(k)
                secret(i)
                b = bytes.fromhex(_pubhex[(i, c)])
                if b not in keys:                      # Input keeps a key once
                    keys.append(b)
            out.append(dict(kind=KIND[ty], keys=keys, m=(m if ty in ('sh', 'wsh', 'shwsh') else 1), value=v))
        return out


def spec_tx(raw, ctx):
    """the transaction as the consensus digest sees it: serialized fields from the bytes, spent outputs from ctx"""
    rt = SPEC.read_raw(raw)
    ins = [dict(prev=ri['prev'], vout=ri['vout'], seq=ri['seq'], **d) for ri, d in zip(rt['ins'], ctx.desc())]
    return dict(ver=rt['ver'], lock=rt['lock'], outs=rt['outs'], ins=ins), rt


def serialized_sigs(kind, ri):
    """the signature items of one input of a serialized transaction, by the layout of its kind"""
    if kind in ('p2wpkh', 'p2sh_p2wpkh'):
        return ri['wit'][:1] if len(ri['wit']) == 2 else []
    if kind in ('p2wsh', 'p2sh_p2wsh'):
        return ri['wit'][1:-1] if len(ri['wit']) >= 2 else []
    ss = SPEC.pushes(ri['script'])
    if kind == 'p2pkh':
        return ss[:1] if len(ss) == 2 else []
    if kind == 'p2pk':
        return ss[:1]
    return ss[1:-1] if len(ss) >= 2 else []          # p2sh multisig: OP_0 <sig>... <redeemScript>


def matrix_rows(tx, i, sigs):
    """sigs: [(r, s, hash-type byte)] -> rows over the listed keys of input i"""
    rows, dig = [], {}
    for r, s_, ht in sigs:
        if ht not in dig:
            dig[ht] = SPEC.consensus_sighash(tx, i, ht)[1]
        row = ''
        for k in tx['ins'][i]['keys']:
            pt = POINT_OF_PUB.get(k)
            row += '?' if pt is None else ('1' if ec_valid(r, s_, dig[ht], pt) else '0')
        rows.append(row)
    return ','.join(rows) if rows else '-'


def matrix_objects(raw, ctx, per_input_sigs):
    try:
        tx, _ = spec_tx(raw, ctx)
        return '|'.join(matrix_rows(tx, i, sigs) for i, sigs in enumerate(per_input_sigs))
    except Exception:
        return '?'


def matrix_raw(raw, ctx):
    try:
        tx, rt = spec_tx(raw, ctx)
        per = []
        for i, ri in enumerate(rt['ins']):
            sigs = [SPEC.der_sig(b) for b in serialized_sigs(tx['ins'][i]['kind'], ri)]
            per.append(matrix_rows(tx, i, sigs))
        return '|'.join(per)
    except Exception:
        return '?'


def observe(t, mat):
    try:
        v = t.verify()
    except Exception as e:
        return 'VE:' + type(e).__name__
    flags = ''.join('T' if i.valid is True else 'F' if i.valid is False else 'N' for i in t.inputs)
    return 'V%s/%s/%s' % ('T' if v else 'F', flags, mat)


def observe_live(t, ctx):
    sigs = [[(sg.r, sg.s, sg.hash_type) for sg in inp.signatures] for inp in t.inputs]
    return observe(t, matrix_objects(t.raw(), ctx, sigs))


def parse_and_observe(raw, ctx):
    t2 = Transaction.parse(raw)
    for p, ((ty, m, ks), a) in enumerate(zip(ctx.specs, t2.inputs)):
        a.value = ctx.values[p]            # the amount is not part of the serialization; the verifier supplies it
        if ty == 'pk':                     # ... and the key of a pay-to-pubkey output
            a.keys = [pub(ks[0])]
            t2.update_inputs(p)
    return observe(t2, matrix_raw(raw, ctx))


# ---------------------------------------------------------------- hash-type byte of serialized signatures
def der(r, s):
    def i2b(n):
        b = n.to_bytes((n.bit_length() + 7) // 8 or 1, 'big')
        return b'\x02' + bytes([len(b) + (b[0] >> 7)]) + (b'\x00' if b[0] >> 7 else b'') + b
    body = i2b(r) + i2b(s)
    return b'\x30' + bytes([len(body)]) + body


def ser_raw(rt, segwit):
    r = struct.pack('<I', rt['ver']) + (b'\x00\x01' if segwit else b'') + SPEC.cs(len(rt['ins']))
    for x in rt['ins']:
        r += x['prev'] + struct.pack('<I', x['vout']) + SPEC.cs(len(x['script'])) + x['script'] + struct.pack('<I', x['seq'])
    r += SPEC.cs(len(rt['outs'])) + b''.join(SPEC.ser_out(o) for o in rt['outs'])
    if segwit:
        for x in rt['ins']:
            r += SPEC.cs(len(x['wit'])) + b''.join(SPEC.cs(len(w)) + w for w in x['wit'])
    return r + struct.pack('<I', rt['lock'])


def patch_raw(raw, ctx, patches):
    """set the last byte of serialized signature `pos` of input `i` to `ht` (own reader and writer; a signature that is
    not serialized is left alone)"""
    rt = SPEC.read_raw(raw)
    segwit = raw[4:6] == b'\x00\x01'
    if ser_raw(rt, segwit) != raw:
        raise ValueError('own serializer does not reproduce raw()')
    desc = ctx.desc()
    for i, pos, ht in patches:
        if i >= len(rt['ins']):
            continue
        ri, kind = rt['ins'][i], desc[i]['kind']
        if kind in SPEC.SEGWIT_KINDS:
            first = 0 if kind in ('p2wpkh', 'p2sh_p2wpkh') else 1
            n = len(serialized_sigs(kind, ri))
            if pos < n:
                w = ri['wit'][first + pos]
                ri['wit'][first + pos] = w[:-1] + bytes([ht])
        else:
            items = SPEC.pushes(ri['script'])
            first = 0 if kind in ('p2pkh', 'p2pk') else 1
            n = len(serialized_sigs(kind, ri))
            if pos < n:
                items[first + pos] = items[first + pos][:-1] + bytes([ht])
                ri['script'] = b''.join(SPEC.push(x) for x in items)
    return ser_raw(rt, segwit)


def parse_patches(f):
    return [] if f == '-' else [tuple(int(x) for x in p.split('.')) for p in f.split(',')]


def ctor_and_observe(t, ctx, patches):
    """the same transaction built anew, every input through Transaction.add_input(keys=..., signatures=[DER || hash-type
    byte, ...]) with the bytes changed as requested; the matrix is computed from the bytes handed over"""
    per = []
    for i, inp in enumerate(t.inputs):
        l = [[sg.r, sg.s, sg.hash_type] for sg in inp.signatures]
        for pi, pos, ht in patches:
            if pi == i and pos < len(l):
                l[pos][2] = ht
        per.append([tuple(x) for x in l])
    t3 = Transaction(network='bitcoin', witness_type=t.witness_type, version=t.version_int, locktime=t.locktime)
    for i, ((ty, m, ks), inp) in enumerate(zip(ctx.specs, t.inputs)):
        st, wt = TYPES[ty]
        t3.add_input(inp.prev_txid, inp.output_n_int, keys=[pub(k) for k in ks], script_type=st,
                     sigs_required=(m if ty in ('sh', 'wsh', 'shwsh') else None), witness_type=wt, value=inp.value,
                     sequence=inp.sequence, signatures=[der(r, s_) + bytes([ht]) for r, s_, ht in per[i]])
    for o in t.outputs:
        t3.add_output(o.value, lock_script=o.lock_script)
    return observe(t3, matrix_objects(t3.raw(), ctx, per))


def place(t, ctx, i, ht, keys):
    """third-party signatures: made HERE (fastecdsa, RFC 6979) over the consensus digest of input i for hash type ht,
    carrying the byte ht, put into the input in the order given"""
    tx, _ = spec_tx(t.raw(), ctx)
    digest = SPEC.consensus_sighash(tx, i, ht)[1]
    l = []
    for k in keys:
        r, s_ = _fe_ecdsa.sign(digest, secret(tok(k)[0]), curve=CURVE, prehashed=True)
        if s_ > N // 2:
            s_ = N - s_
        l.append(Signature(r, s_, public_key=pub(k), hash_type=ht))
    inp = t.inputs[i]
    inp.signatures = l
    inp.unlocking_script = b''
    inp.witnesses = []
    inp.update_scripts(hash_type=1)


# ---------------------------------------------------------------- one attribute written by hand
# every attribute the three classes have in the tree this adapter was written for (frozen; AX reports anything else)
KNOWN_ATTRS = {
    't': {'block_hash', 'block_height', 'change', 'coinbase', 'confirmations', 'date', 'fee', 'fee_per_kb', 'flag', 'index',
          'input_total', 'inputs', 'locktime', 'network', 'output_total', 'outputs', 'rawtx', 'replace_by_fee', 'size',
          'status', 'txhash', 'txid', 'verified', 'version', 'version_int', 'vsize', 'witness_type'},
    'i': {'address', 'address_obj', 'compressed', 'double_spend', 'encoding', 'hash_type', 'index_n', 'key_path', 'keys',
          'locking_script', 'locktime_cltv', 'locktime_csv', 'network', 'output_n', 'output_n_int', 'prev_txid',
          'public_hash', 'redeemscript', 'script', 'script_type', 'sequence', 'signatures', 'sigs_required', 'sort',
          'strict', 'unlocking_script', 'valid', 'value', 'witness_type', 'witnesses'},
    'o': {'_address', '_address_obj', 'change', 'compressed', 'encoding', 'lock_script', 'network', 'output_n',
          'public_hash', 'public_key', 'script', 'script_type', 'spending_index_n', 'spending_txid', 'spent', 'value',
          'versionbyte', 'witness_type', 'witver'},
}


def target(t, obj):
    return t if obj == 't' else t.inputs[int(obj[1:])] if obj[0] == 'i' else t.outputs[int(obj[1:])]


def write_attr(t, ctx, obj, attr, variant):
    """assign ONE attribute, nothing else (no update_scripts, no second copy)"""
    o = target(t, obj)
    old = getattr(o, attr)
    if variant == 'auto':                    # by the type the attribute has now
        vs = variants_for(old)
        variant = vs[0] if vs else 'str' if isinstance(old, str) else 'keep'
    kind, _, arg = variant.partition(':')
    if kind == 'keep':
        return
    if kind == 'str':
        new = old + 'x'
    elif kind == 'flip':
        new = (old[:-1] + bytes([old[-1] ^ 1])) if old else b'\x51'
    elif kind == 'empty':
        new = b''
    elif kind == 'hex':
        new = bytes.fromhex(arg)
    elif kind == 'add':
        new = old + int(arg)
    elif kind == 'set':
        new = arg if isinstance(old, str) else bool(int(arg)) if isinstance(old, bool) else int(arg)
    elif kind == 'sel':
        new = [old[int(p_)] for p_ in arg.split('.')] if arg != '-' else []
    elif kind == 'none':
        new = None
    else:
        raise ValueError(variant)
    setattr(o, attr, new)
    if obj[0] == 'i' and attr == 'value':
        ctx.values[int(obj[1:])] = new       # no serialization carries the amount: the verifier is told what the object holds


def broadcast_verdict(t, ctx):
    """consensus-style verdict on the bytes raw() returns NOW (own reader, own digests, own matching; harness/props/c01.py),
    against the outputs being spent as the scenario describes them"""
    try:
        raw = t.raw()
    except Exception as e:
        return 'E'
    try:
        tx, rt = spec_tx(raw, ctx)
        if len(rt['ins']) != len(ctx.specs) or not rt['outs']:
            return 'F'
        for i, ri in enumerate(rt['ins']):
            if SPEC.verify_input(tx['ins'][i], ri, i, lambda p_, ht: SPEC.consensus_sighash(tx, p_, ht)[1]) is not None:
                return 'F'
    except Exception:
        return 'F'
    return 'T'


def copy_ctx(ctx):
    c = Ctx(ctx.specs)
    c.values = list(ctx.values)
    return c


def probe(t, ctx, obj, attr, variant):
    t2, ctx2 = deepcopy(t), copy_ctx(ctx)
    write_attr(t2, ctx2, obj, attr, variant)
    try:
        lib = 'T' if t2.verify() else 'F'
    except Exception as e:
        lib = 'E:' + type(e).__name__
    flags = ''.join('T' if i.valid is True else 'F' if i.valid is False else 'N' for i in t2.inputs)
    return 'B%s/%s/%s' % (lib, flags, broadcast_verdict(t2, ctx2))


def variants_for(v):
    if isinstance(v, bool):
        return ['set:%d' % (not v)]
    if isinstance(v, int):
        return ['add:1']
    if isinstance(v, bytes):
        return ['flip']
    if isinstance(v, list):
        return ['sel:-'] if v else []
    if v is None:
        return ['set:1']
    if isinstance(v, str):
        return []
    return ['none']


def unknown_attrs(t, ctx):
    out = []
    objs = [('t', t)] + [('i%d' % j, x) for j, x in enumerate(t.inputs)] + [('o%d' % j, x) for j, x in enumerate(t.outputs)]
    for obj, o in objs:
        for attr in sorted(vars(o)):
            if attr in KNOWN_ATTRS[obj[0]]:
                continue
            vs = variants_for(getattr(o, attr))
            if not vs:
                out.append('%s.%s' % (obj, attr))
            for variant in vs:
                try:
                    r = probe(t, ctx, obj, attr, variant)
                except Exception as e:
                    r = 'BE:' + type(e).__name__
                out.append('%s.%s.%s=%s' % (obj, attr, variant, r.replace('/', '|')))
    return 'X' + (','.join(out) or '-')


# ---------------------------------------------------------------- thresholds on the parse path
B58 = '123456789ABCDEFGHJKLMNPQRSTUVWXYZabcdefghijkmnopqrstuvwxyz'


def p2pkh_script(addr):
    n = 0
    for ch in addr:
        n = n * 58 + B58.index(ch)
    b = n.to_bytes(25, 'big')
    return b'\x76\xa9\x14' + b[1:21] + b'\x88\xac'


def num_item(n):
    """a number as a script item (consensus, minimal push): OP_1..OP_16, above that one byte of data"""
    return bytes([0x50 + n]) if 1 <= n <= 16 else bytes([1, n])


def ms_script(m, keys):
    return num_item(m) + b''.join(SPEC.push(k) for k in keys) + num_item(len(keys)) + b'\xae'


_own_sigs = {}


def own_sig(digest, i):
    k = (digest, i)
    if k not in _own_sigs:
        r, s_ = _fe_ecdsa.sign(digest, secret(i), curve=CURVE, prehashed=True)
        if s_ > N // 2:
            s_ = N - s_
        _own_sigs[k] = (r, s_)
    return _own_sigs[k]


def thr_digest(kind, tx, code, value, ht):
    if kind == 'sh':
        return SPEC.legacy_sighash(tx, 0, code, ht)[1]
    return SPEC.bip143_sighash(tx, 0, code, value, ht)[1]


def thr(src, kind, m, n, sel):
    """one m-of-n input (keys 0c .. (n-1)c) whose SERIALIZED signature list is `sel`, parsed and verified.
    src own: the bytes are written here from scratch (consensus number encoding, signatures made here);
    src lib: built, signed by all n keys and serialized by the library, then the signature list is replaced in the
    bytes (own reader / writer) by the selection of the library's own signatures"""
    FOREIGN = 30
    for i in range(n):
        secret(i)
    secret(FOREIGN)
    keys = [bytes.fromhex(_pubhex[(i, 'c')]) for i in range(n)]
    code = ms_script(m, keys)                     # what the output being spent commits to
    value = 100000
    toks = sel.split('.') if sel != '-' else []
    if src == 'own':
        outs = [(60000, p2pkh_script(OUT_ADDR[0])), (30000, p2pkh_script(OUT_ADDR[1]))]
        fields = dict(ver=1, lock=0, outs=outs, ins=[dict(prev=hashlib.sha256(b'prev-0').digest()[::-1], vout=0, seq=0xffffffff)])
        d1 = thr_digest(kind, fields, code, value, 1)
        sigs = []
        for tk in toks:
            if tk == 'f':
                r, s_ = own_sig(d1, FOREIGN)
            elif tk[0] == 'x':
                r, s_ = own_sig(d1, int(tk[1:]))
                s_ += 1
            else:
                r, s_ = own_sig(d1, int(tk))
            sigs.append(der(r, s_) + b'\x01')
        x = dict(fields['ins'][0], script=b'', wit=[])
        if kind == 'sh':
            x['script'] = b'\x00' + b''.join(SPEC.push(sg) for sg in sigs) + SPEC.push(code)
        else:
            x['wit'] = [b''] + sigs + [code]
            if kind == 'shwsh':
                x['script'] = SPEC.push(b'\x00\x20' + hashlib.sha256(code).digest())
        raw = ser_raw(dict(ver=1, lock=0, ins=[x], outs=outs), kind != 'sh')
    else:
        t, ctx = build('%s/%d/%s' % (kind, m, ','.join('%dc' % i for i in range(n))))
        t.sign([priv('%dc' % i) for i in range(n)])
        made = [sg.as_der_encoded() for sg in t.inputs[0].signatures]
        if len(made) != n:
            return 'LIBSIGS %d' % len(made)
        h = t.signature_hash(0, 1, t.inputs[0].witness_type)
        sigs = []
        for tk in toks:
            if tk == 'f':
                sigs.append(sign(h, priv('%dc' % FOREIGN)).as_der_encoded())
            elif tk[0] == 'x':
                sigs.append(variant(t.inputs[0].signatures[int(tk[1:])], 4).as_der_encoded())
            else:
                sigs.append(made[int(tk)])
        raw0 = t.raw()
        rt = SPEC.read_raw(raw0)
        segwit = raw0[4:6] == b'\x00\x01'
        if ser_raw(rt, segwit) != raw0:
            return 'OWNSER'
        ri = rt['ins'][0]
        if kind == 'sh':
            items = SPEC.pushes(ri['script'])
            ri['script'] = b'\x00' + b''.join(SPEC.push(sg) for sg in sigs) + SPEC.push(items[-1])
        else:
            ri['wit'] = [b''] + sigs + [ri['wit'][-1]]
        raw = ser_raw(rt, segwit)
    # the oracle matrix, from the bytes
    try:
        rt2 = SPEC.read_raw(raw)
        f2 = dict(ver=rt2['ver'], lock=rt2['lock'], outs=rt2['outs'],
                  ins=[dict(prev=y['prev'], vout=y['vout'], seq=y['seq']) for y in rt2['ins']])
        rows, dig = [], {}
        for sb in serialized_sigs(KIND[kind], rt2['ins'][0]):
            r, s_, ht = SPEC.der_sig(sb)
            if ht not in dig:
                dig[ht] = thr_digest(kind, f2, code, value, ht)
            rows.append(''.join('1' if ec_valid(r, s_, dig[ht], POINT_OF_PUB[k]) else '0' for k in keys))
        mat = ','.join(rows) if rows else '-'
    except Exception:
        mat = '?'
    try:
        t2 = Transaction.parse(raw)
    except Exception as e:
        return 'PE:' + type(e).__name__
    t2.inputs[0].value = value
    try:
        v = t2.verify()
    except Exception as e:
        return 'VE:' + type(e).__name__
    a = t2.inputs[0]
    return 'V%s/%s/%s/%d' % ('T' if v else 'F', 'T' if a.valid is True else 'F' if a.valid is False else 'N', mat,
                             a.sigs_required)


def build(ins):
    specs = []
    for s in ins.split(';'):
        ty, m, ks = s.split('/')
        specs.append((ty, int(m), ks.split(',')))
    segwit = any(TYPES[ty][1] != 'legacy' for ty, _, _ in specs)
    t = Transaction(network='bitcoin', witness_type='segwit' if segwit else 'legacy')
    for i, (ty, m, ks) in enumerate(specs):
        st, wt = TYPES[ty]
        multi = ty in ('sh', 'wsh', 'shwsh')
        t.add_input(hashlib.sha256(b'prev-%d' % i).digest(), i, keys=[pub(k) for k in ks], script_type=st,
                    sigs_required=(m if multi else None), witness_type=wt, value=100000 + i)
    t.add_output(60000, address=OUT_ADDR[0])
    t.add_output(30000, address=OUT_ADDR[1])
    return t, Ctx(specs)


def flip_last(b):
    return b[:-1] + bytes([b[-1] ^ 1])


def tamper(t, ctx, name, arg):
    """apply ('+') or revert ('-') one change of a committed field; both directions are the same toggle or +-1"""
    j, d = int(arg[:-1]), (1 if arg[-1] == '+' else -1)
    if name == 'outv':
        t.outputs[j].value += d
    elif name == 'outs':
        t.outputs[j].lock_script = flip_last(t.outputs[j].lock_script)
    elif name == 'prev':
        t.inputs[j].prev_txid = flip_last(t.inputs[j].prev_txid)
    elif name == 'outn':
        t.inputs[j].output_n_int += d
        t.inputs[j].output_n = t.inputs[j].output_n_int.to_bytes(4, 'big')
    elif name == 'seq':
        t.inputs[j].sequence -= d
    elif name == 'lock':
        t.locktime += d
    elif name == 'ver':
        t.version_int += d
        t.version = t.version_int.to_bytes(4, 'big')
    elif name == 'inv':
        t.inputs[j].value += d
        ctx.values[j] += d
    else:
        raise ValueError(name)


def variant(sg, v):
    r, s = sg.r, sg.s
    if v == 1:
        s = N - s
    elif v == 2:
        r += 1
    elif v == 3:
        r -= 1
    elif v == 4:
        s += 1
    elif v == 5:
        s -= 1
    # r / s change; the hash-type byte the signature carries is not part of this edit (a third-party signature placed
    # for another hash type keeps its byte)
    n = Signature(r, s, public_key=sg.public_key, hash_type=sg.hash_type)
    n._c02_var = v
    return n


def edit(t, i, kind, pos, arg):
    inp = t.inputs[i]
    l = inp.signatures
    if kind == 'ins':
        h = t.signature_hash(i, 1, inp.witness_type)
        l.insert(pos % (len(l) + 1), sign(h, priv(arg)))
    elif l:
        p = pos % len(l)
        if kind == 'drop':
            del l[p]
        elif kind == 'dup':
            l.insert(p + 1, deepcopy(l[p]))
        elif kind == 'swap':
            if p + 1 < len(l):
                l[p], l[p + 1] = l[p + 1], l[p]
        elif kind == 'untag':
            n = Signature.parse_bytes(l[p].as_der_encoded())
            n._c02_var = getattr(l[p], '_c02_var', 0)
            l[p] = n
        elif kind == 'var':
            if getattr(l[p], '_c02_var', 0) == 0:
                l[p] = variant(l[p], int(arg))
    # as if the input had been created with this signature list: no script left over from the previous list
    inp.unlocking_script = b''
    inp.witnesses = []
    inp.update_scripts(hash_type=1)


def unalias(t):
    """Transaction.sign's fall-back loop can put ONE Signature object into two slots (finding resign_keeps_stale);
    a later verify() then re-tags both at once.  Python object identity is outside the model (DESIGN 4.6): the
    duplicates are replaced by equal copies here, so that every list element is an object of its own."""
    for inp in t.inputs:
        seen = set()
        for j, sg in enumerate(inp.signatures):
            if id(sg) in seen:
                inp.signatures[j] = deepcopy(sg)
            seen.add(id(inp.signatures[j]))


def scenario(ins, ops):
    t, ctx = build(ins)
    out = []
    for o in (ops.split(';') if ops != '-' else []):
        f = o.split('/')
        f[0] = f[0].rstrip('+-')          # expectation marks are for the property-level oracle only
        if f[0] == 'S':
            keys = [priv(k) for k in f[4].split(',')] if f[4] != '-' else []
            try:
                t.sign(keys, index_n=None if f[1] == '*' else int(f[1]), replace_signatures=(f[2] == 'r'),
                       fail_on_unknown_key=(f[3] == 'f'))
                out.append('S0')
            except TransactionError:
                out.append('S1')
            except ValueError:
                out.append('S2')
            unalias(t)
        elif f[0] == 'V':
            out.append(observe_live(t, ctx))
        elif f[0] == 'R':
            try:
                out.append(parse_and_observe(t.raw(), ctx))
            except Exception as e:
                out.append('RE:' + type(e).__name__)
        elif f[0] == 'Q':
            try:
                out.append(parse_and_observe(patch_raw(t.raw(), ctx, parse_patches(f[1])), ctx))
            except Exception as e:
                out.append('QE:' + type(e).__name__)
        elif f[0] == 'C':
            try:
                out.append(ctor_and_observe(t, ctx, parse_patches(f[1])))
            except Exception as e:
                out.append('CE:' + type(e).__name__)
        elif f[0] == 'P':
            place(t, ctx, int(f[1]), int(f[2]), f[3].split(',') if f[3] != '-' else [])
        elif f[0] == 'T':
            tamper(t, ctx, f[1], f[2])
        elif f[0] == 'A':
            out.append(probe(t, ctx, f[1], f[2], f[3]))
        elif f[0] == 'AW':
            write_attr(t, ctx, f[1], f[2], f[3])
        elif f[0] == 'AX':
            out.append(unknown_attrs(t, ctx))
        elif f[0] == 'X':
            edit(t, int(f[1]), f[2], int(f[3]), f[4] if len(f) > 4 else None)
        else:
            return 'BADREQ'
    return ' '.join(out) if out else '-'


# ---------------------------------------------------------------- library operations that re-sign (request mut)
SEQ_CFG = {'fin': 0xffffffff, 'nf': 0xfffffffe, 'rbf': 0xffffffff, 'relb': 10, 'relt': (1 << 22) + 3, 'zero': 0}


def prev_of(i):
    return hashlib.sha256(b'prev-%d' % i).digest()


def build_priv(specs, cfg, lock, first=0, witness_type=None):
    """like build(), but every input holds the PRIVATE keys of its first m listed keys (what sign_and_update() signs with)
    and the transaction starts in the requested sequence / locktime configuration"""
    segwit = any(TYPES[ty][1] != 'legacy' for ty, _, _ in specs)
    t = Transaction(network='bitcoin', witness_type=witness_type or ('segwit' if segwit else 'legacy'), locktime=lock,
                    replace_by_fee=(cfg == 'rbf'))
    for i, (ty, m, ks) in enumerate(specs):
        st, wt = TYPES[ty]
        multi = ty in ('sh', 'wsh', 'shwsh')
        keys = [priv(k) if p < m else pub(k) for p, k in enumerate(ks)]
        t.add_input(prev_of(first + i), first + i, keys=keys, script_type=st, sigs_required=(m if multi else None),
                    witness_type=wt, value=100000 + first + i, sequence=SEQ_CFG[cfg])
    return t


def resync(t, ctx, book):
    """the spent outputs in the order the inputs have NOW (shuffle / merge move them)"""
    ctx.specs = [book[bytes(i.prev_txid)][0] for i in t.inputs]
    ctx.values = [i.value for i in t.inputs]


def mut(ins, cfg, steps):
    cfg, _, lock = cfg.partition(':')
    specs = []
    for s in ins.split(';'):
        ty, m, ks = s.split('/')
        specs.append((ty, int(m), ks.split(',')))
    t = build_priv(specs, cfg, int(lock or 0))
    t.add_output(60000, address=OUT_ADDR[0])
    t.add_output(30000 + len(specs) * 100, address=OUT_ADDR[1], change=True)
    ctx = Ctx(specs)
    book = {bytes(i.prev_txid): (sp, i.value) for i, sp in zip(t.inputs, specs)}
    t.sign()
    t.update_totals()
    out = []
    nmerge = 0
    for o in steps.split(';'):
        f = o.split('/')
        try:
            if f[0] == 'ltb':
                t.set_locktime_blocks(int(f[1]))
            elif f[0] == 'ltt':
                t.set_locktime_time(int(f[1]))
            elif f[0] == 'lrb':
                t.set_locktime_relative_blocks(int(f[2]), input_index_n=int(f[1]))
            elif f[0] == 'lrt':
                t.set_locktime_relative_time(int(f[2]), input_index_n=int(f[1]))
            elif f[0] == 'su':
                t.sign_and_update(index_n=int(f[1]) if len(f) > 1 else None)
            elif f[0] == 'bf':
                t.bumpfee(extra_fee=int(f[1]))
            elif f[0] == 'ao':
                t.add_output(int(f[1]), address=OUT_ADDR[0])
                t.sign(replace_signatures=True)
            elif f[0] == 'sh':
                import random as _r
                _r.seed(int(f[1]))
                t.shuffle()
                t.sign_and_update()
            elif f[0] == 'mg':
                nmerge += 1
                sp = [('pkh' if t.witness_type == 'legacy' else 'wpkh', 1, ['%dc' % (8 + nmerge)])]
                t2 = build_priv(sp, 'fin', 0, first=10 + nmerge, witness_type=t.witness_type)
                t2.add_output(50000, address=OUT_ADDR[1])
                t2.sign()
                book[bytes(t2.inputs[0].prev_txid)] = (sp[0], t2.inputs[0].value)
                import random as _r
                _r.seed(int(f[1]))
                t.merge_transaction(t2)
            elif f[0] == 'ut':
                t.update_totals()
            else:
                return 'BADREQ'
        except Exception as e:
            out.append('ME:' + type(e).__name__)
            continue
        resync(t, ctx, book)
        try:
            lib = 'T' if t.verify() else 'F'
        except Exception as e:
            lib = 'E'
        rawv = broadcast_verdict(t, ctx)
        try:
            par = parse_and_observe(t.raw(), ctx)[1:2]
        except Exception as e:
            par = 'E'
        out.append('M%s/%s/%s' % (lib, rawv, par))
    return ' '.join(out) if out else '-'


# ---------------------------------------------------------------- signature argument forms (request sigf)
_lead_sigs = {}


def lead_ok(lead, r, s_):
    if lead == 'any':
        return True
    v = r if lead[0] == 'r' else s_
    top = v >> 248
    return {'30': top == 0x30, '00': top == 0, 'hi': top >= 0x80, '7f': 0x30 < top < 0x80}[lead[1:]]


def own_sign_lead(digest, i, lead):
    """ECDSA made HERE with a searched nonce: r (or s) gets the requested leading byte (low s as Bitcoin requires)"""
    key = (digest, i, lead)
    if key not in _lead_sigs:
        d, z = secret(i), int.from_bytes(digest, 'big')
        ctr = 0
        while True:
            k = int.from_bytes(hashlib.sha256(b'verif-c02-nonce' + digest + struct.pack('<II', i, ctr)).digest(), 'big') % (N - 1) + 1
            ctr += 1
            r = get_public_key(k, CURVE).x % N
            if not r or (lead[0] == 'r' and not lead_ok(lead, r, 0)):
                continue
            s_ = pow(k, -1, N) * (z + r * d) % N
            if not s_:
                continue
            if s_ > N // 2:
                s_ = N - s_
            if lead_ok(lead, r, s_):
                break
        _lead_sigs[key] = (r, s_)
    return _lead_sigs[key]


def sig_form(form, r, s_, k):
    rs = r.to_bytes(32, 'big') + s_.to_bytes(32, 'big')
    if form == 'derb':
        return der(r, s_) + b'\x01'
    if form == 'derh':
        return (der(r, s_) + b'\x01').hex()
    if form == 'rsb':
        return rs
    if form == 'rsh':
        return rs.hex()
    sg = Signature(r, s_, public_key=pub(k), hash_type=1)
    if form == 'obj':
        return sg
    if form == 'objnokey':
        return Signature(r, s_)
    if form == 'libhex':
        return sg.hex()
    if form == 'libbytes':
        return sg.bytes()
    if form == 'libder':
        return sg.as_der_encoded()
    if form == 'libderh':
        return sg.as_der_encoded(as_hex=True)
    raise ValueError(form)


def sigf(ins, lead, form, ctor):
    """every input rebuilt from PUBLIC keys + signatures handed over in one argument form; the signatures are made here
    over the consensus digest of the unsigned transaction (own digest code) with a nonce searched for the leading byte"""
    from bitcoinlib.transactions import Input
    t, ctx = build(ins)
    tx, _ = spec_tx(t.raw(), ctx)
    per = []
    for i, (ty, m, ks) in enumerate(ctx.specs):
        digest = SPEC.consensus_sighash(tx, i, 1)[1]
        per.append([(k,) + own_sign_lead(digest, tok(k)[0], lead) for k in ks[:m]])
    if form == 'asdict':
        # exported by the library itself: a first transaction holding Signature objects, Input.as_dict()['signatures']
        t0, _ = build(ins)
        for inp, l in zip(t0.inputs, per):
            inp.signatures = [Signature(r, s_, public_key=pub(k), hash_type=1) for k, r, s_ in l]
        handed = [inp.as_dict()['signatures'] for inp in t0.inputs]
    else:
        handed = [[sig_form(form, r, s_, k) for k, r, s_ in l] for l in per]
    segwit = t.witness_type
    inputs = []
    t3 = Transaction(network='bitcoin', witness_type=segwit)
    for i, (ty, m, ks) in enumerate(ctx.specs):
        st, wt = TYPES[ty]
        kw = dict(keys=[pub(k) for k in ks], script_type=st, sigs_required=(m if ty in ('sh', 'wsh', 'shwsh') else None),
                  witness_type=wt, value=100000 + i, signatures=(handed[i][0] if ctor == 'one' else handed[i]))
        if ctor == 'inp':
            inputs.append(Input(prev_of(i), i, index_n=i, network='bitcoin', **kw))
        else:
            t3.add_input(prev_of(i), i, **kw)
    if ctor == 'inp':
        t3 = Transaction(inputs=inputs, network='bitcoin', witness_type=segwit)
    t3.add_output(60000, address=OUT_ADDR[0])
    t3.add_output(30000, address=OUT_ADDR[1])
    kept = '.'.join(str(len(inp.signatures)) for inp in t3.inputs)
    try:
        lib = 'T' if t3.verify() else 'F'
    except Exception as e:
        lib = 'E'
    rawv = broadcast_verdict(t3, ctx)
    try:
        par = parse_and_observe(t3.raw(), ctx)[1:2]
    except Exception:
        par = 'E'
    return 'F%s/%s/%s/%s' % (lib, rawv, par, kept)


def dispatch(t):
    if t[0] in ('mut', 'sigf'):
        try:
            return mut(t[1], t[2], t[3]) if t[0] == 'mut' else sigf(t[1], t[2], t[3], t[4])
        except Exception as e:
            return 'CRASH %s %s' % (type(e).__name__, str(e)[:80].replace('\n', ' '))
    if t[0] == 'scn':
        try:
            return scenario(t[1], t[2])
        except Exception as e:
            return 'CRASH %s %s' % (type(e).__name__, str(e)[:80].replace('\n', ' '))
    if t[0] == 'thr':
        try:
            return thr(t[1], t[2], int(t[3]), int(t[4]), t[5])
        except Exception as e:
            return 'CRASH %s %s' % (type(e).__name__, str(e)[:80].replace('\n', ' '))
    return 'BADREQ'


serve(dispatch)
