"""Implementation adapter for C02: same line protocol as ocaml/c02_driver.ml, answers from the real library.

A scenario builds a REAL transaction with fixed test keys through the public API (Transaction, add_input,
add_output, sign, verify, raw, parse), applies the requested signing calls / field changes / signature-list edits
and reports, at every V (live object) and R (Transaction.parse(t.raw())) step, the library's verdict, Input.valid,
and — computed here with fastecdsa directly on the library's signature_hash output, from (r, s) and our own
table of curve points — which signature is valid for which listed key (the oracle matrix)."""
import sys, os, logging, hashlib
from copy import deepcopy
sys.path.insert(0, os.path.dirname(os.path.abspath(__file__)))
from common_impl import serve
logging.disable(logging.CRITICAL)
from bitcoinlib.transactions import Transaction, TransactionError
from bitcoinlib.keys import Key, Signature, sign
from fastecdsa import _ecdsa
from fastecdsa.curve import secp256k1 as CURVE
from fastecdsa.keys import get_public_key

N = CURVE.q
CP = [str(x) for x in (CURVE.p, CURVE.a, CURVE.b, CURVE.q, CURVE.gx, CURVE.gy)]
TYPES = {'pkh': ('sig_pubkey', 'legacy'), 'wpkh': ('sig_pubkey', 'segwit'), 'shwpkh': ('p2sh_p2wpkh', 'p2sh-segwit'),
         'sh': ('p2sh_multisig', 'legacy'), 'wsh': ('p2sh_multisig', 'segwit'), 'shwsh': ('p2sh_p2wsh', 'p2sh-segwit')}
OUT_ADDR = ['1BvBMSEYstWetqTFn5Au4m4GFg7xJaNVN2', '1HLoD9E4SDFFPDiYfNYnkBLQ85Y51J3Zb1']

_secret, _point, _priv, _pubhex, POINT_OF_PUB = {}, {}, {}, {}, {}


def secret(i):
    if i not in _secret:
        _secret[i] = int.from_bytes(hashlib.sha256(b'verif-c02-key-%d' % i).digest(), 'big') % (N - 1) + 1
        q = get_public_key(_secret[i], CURVE)
        _point[i] = (q.x, q.y)
        comp = bytes([2 + (q.y & 1)]) + q.x.to_bytes(32, 'big')
        unc = b'\x04' + q.x.to_bytes(32, 'big') + q.y.to_bytes(32, 'big')
        _pubhex[(i, 'c')], _pubhex[(i, 'u')] = comp.hex(), unc.hex()
        POINT_OF_PUB[comp] = POINT_OF_PUB[unc] = (q.x, q.y)
    return _secret[i]


def tok(t):
    return int(t[:-1]), t[-1]


def priv(t):
    if t not in _priv:
        i, c = tok(t)
        _priv[t] = Key(secret(i), compressed=(c == 'c'))
    return _priv[t]


def pub(t):
    i, c = tok(t)
    secret(i)
    return Key(_pubhex[(i, c)])          # fresh public-only Key object


_vcache = {}


def ec_valid(r, s, digest, pt):
    k = (r, s, digest, pt)
    if k not in _vcache:
        _vcache[k] = bool(_ecdsa.verify(str(r), str(s), digest.hex(), str(pt[0]), str(pt[1]), *CP))
    return _vcache[k]


def matrix(t):
    per_input = []
    for i, inp in enumerate(t.inputs):
        if not inp.signatures:
            per_input.append('-')
            continue
        try:
            h = t.signature_hash(i, 1, inp.witness_type)
        except Exception:
            per_input.append('?')
            continue
        rows = []
        for sg in inp.signatures:
            row = ''
            for k in inp.keys:
                pt = POINT_OF_PUB.get(k.public_byte)
                row += '?' if pt is None else ('1' if ec_valid(sg.r, sg.s, h, pt) else '0')
            rows.append(row)
        per_input.append(','.join(rows) if rows else '-')
    return '|'.join(per_input)


def observe(t):
    try:
        v = t.verify()
    except Exception as e:
        return 'VE:' + type(e).__name__
    flags = ''.join('T' if i.valid is True else 'F' if i.valid is False else 'N' for i in t.inputs)
    return 'V%s/%s/%s' % ('T' if v else 'F', flags, matrix(t))


def build(ins):
    specs = []
    for s in ins.split(';'):
        ty, m, ks = s.split('/')
        specs.append((ty, int(m), ks.split(',')))
    segwit = any(TYPES[ty][1] != 'legacy' for ty, _, _ in specs)
    t = Transaction(network='bitcoin', witness_type='segwit' if segwit else 'legacy')
    for i, (ty, m, ks) in enumerate(specs):
        st, wt = TYPES[ty]
        multi = ty in ('sh', 'wsh', 'shwsh')
        t.add_input(hashlib.sha256(b'prev-%d' % i).digest(), i, keys=[pub(k) for k in ks], script_type=st,
                    sigs_required=(m if multi else None), witness_type=wt, value=100000 + i)
    t.add_output(60000, address=OUT_ADDR[0])
    t.add_output(30000, address=OUT_ADDR[1])
    return t


def flip_last(b):
    return b[:-1] + bytes([b[-1] ^ 1])


def tamper(t, name, arg):
    """apply ('+') or revert ('-') one change of a committed field; both directions are the same toggle or +-1"""
    j, d = int(arg[:-1]), (1 if arg[-1] == '+' else -1)
    if name == 'outv':
        t.outputs[j].value += d
    elif name == 'outs':
        t.outputs[j].lock_script = flip_last(t.outputs[j].lock_script)
    elif name == 'prev':
        t.inputs[j].prev_txid = flip_last(t.inputs[j].prev_txid)
    elif name == 'outn':
        t.inputs[j].output_n_int += d
        t.inputs[j].output_n = t.inputs[j].output_n_int.to_bytes(4, 'big')
    elif name == 'seq':
        t.inputs[j].sequence -= d
    elif name == 'lock':
        t.locktime += d
    elif name == 'ver':
        t.version_int += d
        t.version = t.version_int.to_bytes(4, 'big')
    elif name == 'inv':
        t.inputs[j].value += d
    else:
        raise ValueError(name)


def variant(sg, v):
    r, s = sg.r, sg.s
    if v == 1:
        s = N - s
    elif v == 2:
        r += 1
    elif v == 3:
        r -= 1
    elif v == 4:
        s += 1
    elif v == 5:
        s -= 1
    n = Signature(r, s, public_key=sg.public_key, hash_type=1)
    n._c02_var = v
    return n


def edit(t, i, kind, pos, arg):
    inp = t.inputs[i]
    l = inp.signatures
    if kind == 'ins':
        h = t.signature_hash(i, 1, inp.witness_type)
        l.insert(pos % (len(l) + 1), sign(h, priv(arg)))
    elif l:
        p = pos % len(l)
        if kind == 'drop':
            del l[p]
        elif kind == 'dup':
            l.insert(p + 1, deepcopy(l[p]))
        elif kind == 'swap':
            if p + 1 < len(l):
                l[p], l[p + 1] = l[p + 1], l[p]
        elif kind == 'untag':
            n = Signature.parse_bytes(l[p].as_der_encoded())
            n._c02_var = getattr(l[p], '_c02_var', 0)
            l[p] = n
        elif kind == 'var':
            if getattr(l[p], '_c02_var', 0) == 0:
                l[p] = variant(l[p], int(arg))
    # as if the input had been created with this signature list: no script left over from the previous list
    inp.unlocking_script = b''
    inp.witnesses = []
    inp.update_scripts(hash_type=1)


def unalias(t):
    """Transaction.sign's fall-back loop can put ONE Signature object into two slots (finding resign_keeps_stale);
    a later verify() then re-tags both at once.  Python object identity is outside the model (DESIGN 4.6): the
    duplicates are replaced by equal copies here, so that every list element is an object of its own."""
    for inp in t.inputs:
        seen = set()
        for j, sg in enumerate(inp.signatures):
            if id(sg) in seen:
                inp.signatures[j] = deepcopy(sg)
            seen.add(id(inp.signatures[j]))


def scenario(ins, ops):
    t = build(ins)
    out = []
    for o in (ops.split(';') if ops != '-' else []):
        f = o.split('/')
        f[0] = f[0].rstrip('+-')          # expectation marks are for the property-level oracle only
        if f[0] == 'S':
            keys = [priv(k) for k in f[4].split(',')] if f[4] != '-' else []
            try:
                t.sign(keys, index_n=None if f[1] == '*' else int(f[1]), replace_signatures=(f[2] == 'r'),
                       fail_on_unknown_key=(f[3] == 'f'))
                out.append('S0')
            except TransactionError:
                out.append('S1')
            except ValueError:
                out.append('S2')
            unalias(t)
        elif f[0] == 'V':
            out.append(observe(t))
        elif f[0] == 'R':
            try:
                t2 = Transaction.parse(t.raw())
                for a, b in zip(t2.inputs, t.inputs):
                    a.value = b.value          # the amount is not part of the serialization; the verifier supplies it
            except Exception as e:
                out.append('RE:' + type(e).__name__)
                continue
            out.append(observe(t2))
        elif f[0] == 'T':
            tamper(t, f[1], f[2])
        elif f[0] == 'X':
            edit(t, int(f[1]), f[2], int(f[3]), f[4] if len(f) > 4 else None)
        else:
            return 'BADREQ'
    return ' '.join(out) if out else '-'


def dispatch(t):
    if t[0] == 'scn':
        try:
            return scenario(t[1], t[2])
        except Exception as e:
            return 'CRASH %s %s' % (type(e).__name__, str(e)[:80].replace('\n', ' '))
    return 'BADREQ'


serve(dispatch)
