"""Shared by the implementation adapters (run inside /venv with PYTHONPATH=/repo)."""
import sys


def hx(b):
    return b.hex() if len(b) else '-'


def unhx(s):
    return b'' if s == '-' else bytes.fromhex(s)


def serve(dispatch):
    out = sys.stdout
    for line in sys.stdin:
        toks = line.strip().split(' ')
        try:
            r = dispatch(toks)
        except RecursionError:
            r = 'CRASH recursion'
        out.write(r + '\n')
    out.flush()
