"""Shared by the implementation adapters (run inside /venv with PYTHONPATH=/repo)."""
import sys


def hx(b):
    return b.hex() if len(b) else '-'


def unhx(s):
    return b'' if s == '-' else bytes.fromhex(s)


def serve(dispatch):
    out = sys.stdout
    for line in sys.stdin:
        toks = line.strip().split(' ')
        try:
            r = dispatch(toks)
        except RecursionError:
            r = 'CRASH recursion'
        except Exception as e:
            # an exception the adapter did not expect from the library is an ANSWER (compared with the model and
            # judged by the oracle), never a reason for the adapter to die: a crashed adapter yields no verdict
            r = 'CRASH %s: %s' % (type(e).__name__, ' '.join(str(e).split())[:120])
        out.write(r + '\n')
    out.flush()
