"""Implementation adapter for C19: same request lines as ocaml/c19_driver.ml, answered by the real
Script(cmds).evaluate(message, env_data) and Script.stack of /repo (public API only).

  ev <env> <libsigs> <coresigs> <cmds>      (the two oracle tables are for the models; ignored here)
answer: VALID | INVALID | UNIMPL | CRASH:<ExceptionType>, then the stack bottom..top ("." empty stack)
  p2sh <pb|ph|pio|add> <scriptSig hex> <scriptPubKey hex>   raw bytes PARSED by the library, then evaluated (see run_p2sh)
answer: as for ev
  ses <libsigs> <coresigs> <step> ...       several constructor / evaluate calls in one process (see run_session)
answer: one token per step joined by ";"
"""
import sys, os, logging, hashlib
sys.path.insert(0, os.path.dirname(os.path.abspath(__file__)))
from common_impl import hx, unhx, serve
logging.disable(logging.CRITICAL)
from bitcoinlib.scripts import Script, ScriptError

MESSAGE = hashlib.sha256(b'c19').digest()


def cmds_of_tok(t):
    if t == '-':
        return []
    return [int(s[1:], 16) if s[0] == 'o' else unhx(s[1:]) for s in t.split(',')]


def env_of_tok(t):
    r, s, l, v = t.split(':')
    env = {}
    if r != 'N':
        env['redeemscript'] = unhx(r)
    if s != 'N':
        env['sequence'] = int(s)
    if l != 'N':
        env['locktime'] = int(l)
    if v != 'N':
        env['version'] = int(v)
    return env


def stack_tok(st):
    if not len(st):
        return '.'
    out = []
    for x in st:
        out.append(hx(bytes(x)) if isinstance(x, (bytes, bytearray)) else '?' + type(x).__name__)
    return ','.join(out)


def run_session(toks):
    """ses <libtable> <coretable> step ...   — all steps in THIS process, objects live on between steps
         N/<id>/<cmds>/<msg|N>/<env|N>   name = Script(cmds, message=msg, env_data=env)      -> '-'
         E/<id>/<msg|N>/<env|N>          name.evaluate(message=msg, env_data=env)            -> verdict:Script.stack
    The SAME Python objects are handed over whenever a token recurs inside a session (one command list per command
    token, one dict per env token): whatever the library writes into its arguments is seen by the later steps."""
    objs, lists, dicts, out = {}, {}, {}, []

    def env_arg(t):
        if t == 'N':
            return None
        if t not in dicts:
            dicts[t] = env_of_tok(t)
        return dicts[t]

    for st in toks:
        f = st.split('/')
        if f[0] == 'N':
            if f[2] not in lists:
                lists[f[2]] = cmds_of_tok(f[2])
            kw = {}
            if f[3] != 'N':
                kw['message'] = unhx(f[3])
            if f[4] != 'N':
                kw['env_data'] = env_arg(f[4])
            objs[f[1]] = Script(lists[f[2]], **kw)
            out.append('-')
        elif f[0] == 'E':
            s = objs.get(f[1])
            if s is None:
                out.append('MISSING')
                continue
            kw = {}
            if f[2] != 'N':
                kw['message'] = unhx(f[2])
            if f[3] != 'N':
                kw['env_data'] = env_arg(f[3])
            try:
                r = s.evaluate(**kw)
                v = 'VALID' if r is True else 'INVALID' if r is False else 'ODD:%r' % (r,)
            except ScriptError:
                v = 'UNIMPL'
            except Exception as e:
                v = 'CRASH:' + type(e).__name__
            out.append(v + ':' + stack_tok(s.stack))
        else:
            out.append('BADSTEP')
    return ';'.join(out)


def start_child(fn):
    """one session = one forked child of the still untouched adapter process (sessions are served before any other
    request): it starts from the state of the freshly imported library and leaves nothing behind, so the replay of a
    single session request sees exactly the same process state.  Answers are short (well below a pipe buffer)."""
    rd, wr = os.pipe()
    pid = os.fork()
    if pid == 0:
        try:
            os.close(rd)
            try:
                res = fn()
            except RecursionError:
                res = 'CRASH recursion'
            except BaseException as e:
                res = 'CRASH %s: %s' % (type(e).__name__, ' '.join(str(e).split())[:120])
            with os.fdopen(wr, 'w') as f:
                f.write(res)
        finally:
            os._exit(0)
    os.close(wr)
    return pid, rd


def join_child(pid, rd):
    with os.fdopen(rd) as f:
        data = f.read()
    os.waitpid(pid, 0)
    return data if data else 'CRASH session process died'


def in_child(fn):
    return join_child(*start_child(fn))


def run_p2sh(form, sig_hex, spk_hex):
    """a spend handed over as RAW BYTES: the library parses scriptSig + scriptPubKey and evaluates what it parsed
         pb  Script.parse_bytes(unlock + lock)      ph  Script.parse_hex(...)      pio  Script.parse(BytesIO(...))
         add Script.parse_bytes(unlock) + Script.parse_bytes(lock)"""
    from io import BytesIO
    sig_b, spk_b = unhx(sig_hex), unhx(spk_hex)
    try:
        if form == 'pb':
            s = Script.parse_bytes(sig_b + spk_b)
        elif form == 'ph':
            s = Script.parse_hex((sig_b + spk_b).hex())
        elif form == 'pio':
            s = Script.parse(BytesIO(sig_b + spk_b))
        elif form == 'add':
            s = Script.parse_bytes(sig_b) + Script.parse_bytes(spk_b)
        else:
            return 'BADREQ'
    except ScriptError:
        return 'UNIMPL .'
    except Exception as e:
        return 'CRASH:%s .' % type(e).__name__
    try:
        r = s.evaluate(message=MESSAGE)
        v = 'VALID' if r is True else 'INVALID' if r is False else 'ODD:%r' % (r,)
    except ScriptError:
        v = 'UNIMPL'
    except Exception as e:
        v = 'CRASH:' + type(e).__name__
    return v + ' ' + stack_tok(s.stack)


def dispatch(t):
    if t[0] == 'ses' and len(t) >= 4:
        return in_child(lambda: run_session(t[3:]))
    if t[0] == 'p2sh' and len(t) == 4:
        return run_p2sh(t[1], t[2], t[3])
    if t[0] != 'ev' or len(t) != 5:
        return 'BADREQ'
    s = Script(cmds_of_tok(t[4]))
    try:
        r = s.evaluate(message=MESSAGE, env_data=env_of_tok(t[1]))
        v = 'VALID' if r is True else 'INVALID' if r is False else 'ODD:%r' % (r,)
    except ScriptError:
        v = 'UNIMPL'
    except Exception as e:
        v = 'CRASH:' + type(e).__name__
    return v + ' ' + stack_tok(s.stack)


def main():
    lines = [l.strip() for l in sys.stdin.read().split('\n')]
    if lines and lines[-1] == '':
        lines.pop()
    answers = [None] * len(lines)
    # sessions first: every one forks from the process as it is right after the import
    window = []
    width = max(1, min(8, (os.cpu_count() or 2) // 2))
    for i, l in enumerate(lines):
        if l.startswith('ses '):
            t = l.split(' ')
            if len(t) < 4:
                answers[i] = 'BADREQ'
                continue
            window.append((i,) + start_child(lambda t=t: run_session(t[3:])))
            if len(window) >= width:
                j, pid, rd = window.pop(0)
                answers[j] = join_child(pid, rd)
    for j, pid, rd in window:
        answers[j] = join_child(pid, rd)
    out = sys.stdout
    for i, l in enumerate(lines):
        if answers[i] is None:
            try:
                answers[i] = dispatch(l.split(' '))
            except RecursionError:
                answers[i] = 'CRASH recursion'
            except Exception as e:
                answers[i] = 'CRASH %s: %s' % (type(e).__name__, ' '.join(str(e).split())[:120])
        out.write(answers[i] + '\n')
    out.flush()


main()
