"""Implementation adapter for C19: same request lines as ocaml/c19_driver.ml, answered by the real
Script(cmds).evaluate(message, env_data) and Script.stack of /repo (public API only).

  ev <env> <libsigs> <coresigs> <cmds>      (the two oracle tables are for the models; ignored here)
answer: VALID | INVALID | UNIMPL | CRASH:<ExceptionType>, then the stack bottom..top ("." empty stack)
"""
import sys, os, logging, hashlib
sys.path.insert(0, os.path.dirname(os.path.abspath(__file__)))
from common_impl import hx, unhx, serve
logging.disable(logging.CRITICAL)
from bitcoinlib.scripts import Script, ScriptError

MESSAGE = hashlib.sha256(b'c19').digest()


def cmds_of_tok(t):
    if t == '-':
        return []
    return [int(s[1:], 16) if s[0] == 'o' else unhx(s[1:]) for s in t.split(',')]


def env_of_tok(t):
    r, s, l, v = t.split(':')
    env = {}
    if r != 'N':
        env['redeemscript'] = unhx(r)
    if s != 'N':
        env['sequence'] = int(s)
    if l != 'N':
        env['locktime'] = int(l)
    if v != 'N':
        env['version'] = int(v)
    return env


def stack_tok(st):
    if not len(st):
        return '.'
    out = []
    for x in st:
        out.append(hx(bytes(x)) if isinstance(x, (bytes, bytearray)) else '?' + type(x).__name__)
    return ','.join(out)


def dispatch(t):
    if t[0] != 'ev' or len(t) != 5:
        return 'BADREQ'
    s = Script(cmds_of_tok(t[4]))
    try:
        r = s.evaluate(message=MESSAGE, env_data=env_of_tok(t[1]))
        v = 'VALID' if r is True else 'INVALID' if r is False else 'ODD:%r' % (r,)
    except ScriptError:
        v = 'UNIMPL'
    except Exception as e:
        v = 'CRASH:' + type(e).__name__
    return v + ' ' + stack_tok(s.stack)


serve(dispatch)
