"""Implementation adapter for C01: same line protocol as ocaml/c01_driver.ml, answers from the real library
through the public API only (Transaction, add_input, add_output, sign, raw, parse, signature, signature_hash)."""
import sys, os, logging, hashlib
sys.path.insert(0, os.path.dirname(os.path.abspath(__file__)))
from common_impl import hx, unhx, serve
logging.disable(logging.CRITICAL)
from bitcoinlib.transactions import Transaction
from bitcoinlib.keys import Key
from bitcoinlib.scripts import Script

N_ORDER = 0xFFFFFFFFFFFFFFFFFFFFFFFFFFFFFFFEBAAEDCE6AF48A03BBFD25E8CD0364141
NKEYS = 40


def secret(j):
    return int.from_bytes(hashlib.sha256(b'C01 test key %d' % j).digest(), 'big') % (N_ORDER - 1) + 1


PRIV = {}   # public key hex -> Key holding the private key


def _init_keys():
    for j in range(NKEYS):
        for comp in (True, False):
            k = Key(secret(j), compressed=comp)
            PRIV[k.public_hex] = k


def parse_tx(tok):
    hd, ins, outs = tok.split('|')
    ver, lock, sw, net = hd.split(':')
    li = []
    for s in ins.split(';'):
        prev, vout, seq, idx, kind, value, m, keys = s.split(',')
        li.append(dict(prev=unhx(prev), vout=int(vout), seq=int(seq), idx=int(idx), kind=kind, value=int(value),
                       m=int(m), keys=keys.split('/')))
    lo = []
    if outs != '-':
        for s in outs.split(';'):
            v, sc = s.split(',')
            lo.append((int(v), unhx(sc)))
    return int(ver), int(lock), sw == '1', net, li, lo


def kind_args(i, alt):
    k, keys, m = i['kind'], i['keys'], i['m']
    if k == 'p2pkh':
        return dict(keys=keys[0], script_type='sig_pubkey', witness_type='legacy')
    if k == 'p2pk':
        return dict(keys=keys[0], script_type='signature', witness_type='legacy')
    if k == 'multisig':
        # bare multisig: update_scripts has no branch for it; the caller passes the locking script (strict=False)
        ls = Script(script_types=['multisig'], keys=[bytes.fromhex(x) for x in keys], sigs_required=m).serialize()
        return dict(keys=keys, script_type='multisig', sigs_required=m, witness_type='legacy', locking_script=ls,
                    strict=False)
    if k == 'p2sh_multisig':
        return dict(keys=keys, script_type='p2sh_multisig', sigs_required=m, witness_type='legacy')
    if k == 'p2wpkh':
        return dict(keys=keys[0], script_type='sig_pubkey', witness_type='segwit')
    if k == 'p2wsh':
        return dict(keys=keys, script_type='p2sh_multisig', sigs_required=m, witness_type='segwit')
    if k == 'p2sh_p2wpkh':
        if alt:
            return dict(keys=keys[0], script_type='sig_pubkey', witness_type='p2sh-segwit')
        return dict(keys=keys[0], script_type='p2sh_p2wpkh')
    if k == 'p2sh_p2wsh':
        if alt:
            return dict(keys=keys, script_type='p2sh_multisig', sigs_required=m, witness_type='p2sh-segwit')
        return dict(keys=keys, script_type='p2sh_p2wsh', sigs_required=m)
    raise ValueError(k)


def build_api(tok, alt=False):
    ver, lock, sw, net, li, lo = parse_tx(tok)
    t = Transaction(version=ver, locktime=lock, witness_type='segwit' if sw else 'legacy', network=net)
    for i in li:
        t.add_input(prev_txid=i['prev'][::-1].hex(), output_n=i['vout'], sequence=i['seq'], index_n=i['idx'],
                    value=i['value'], **kind_args(i, alt))
    for v, sc in lo:
        t.add_output(v, lock_script=sc)
    return t, li


def sign_all(t, li):
    for p, i in enumerate(li):
        n = 1 if i['kind'] in ('p2pkh', 'p2pk', 'p2wpkh', 'p2sh_p2wpkh') else i['m']
        t.sign(keys=[PRIV[x] for x in i['keys'][:n]], index_n=p)


def build(mode, tok):
    if mode in ('api', 'api2'):
        return build_api(tok, alt=(mode == 'api2'))[0]
    if mode == 'parse':
        # sign through the API, serialize, parse the bytes back, supply what a parsed transaction cannot know
        t, li = build_api(tok)
        sign_all(t, li)
        ver, lock, sw, net, _, _ = parse_tx(tok)
        t2 = Transaction.parse(t.raw(), network=net)
        for p, i in enumerate(li):
            t2.inputs[p].value = i['value']
            if i['kind'] == 'p2pk':
                t2.inputs[p].keys = [Key(i['keys'][0])]
                t2.update_inputs(p)
        return t2
    raise ValueError(mode)


CACHE = {}
WT = {'leg': 'legacy', 'sw': 'segwit', 'p2sh': 'p2sh-segwit'}


def get_tx(mode, tok):
    key = (mode, tok)
    if key not in CACHE:
        CACHE.clear()
        try:
            CACHE[key] = build(mode, tok)
        except Exception as e:
            CACHE[key] = 'ERR build %s' % type(e).__name__
    return CACHE[key]


def dispatch(t):
    if not PRIV:
        _init_keys()
    k = t[0]
    if k == 'pre':
        tx = get_tx(t[1], t[2])
        if isinstance(tx, str):
            return tx
        sid, ht, wt = int(t[3]), int(t[4]), WT[t[5]]
        try:
            pre = tx.signature(sid, ht, wt)
            dig = tx.signature_hash(sid, ht, wt)
            dig_hex = tx.signature_hash(sid, ht, wt, as_hex=True)
        except Exception as e:
            return 'ERR'
        if dig.hex() != dig_hex:
            return 'CRASH as_hex differs'
        return hx(pre) + ' ' + hx(dig)
    if k == 'signed':
        try:
            tx, li = build_api(t[1])
        except Exception as e:
            return 'ERR build %s' % type(e).__name__
        try:
            sign_all(tx, li)
            raw = tx.raw()
            ok = tx.verify()
        except Exception as e:
            return 'ERR sign %s' % type(e).__name__
        return hx(raw) + ' ' + ('1' if ok else '0')
    return 'BADREQ'


serve(dispatch)
