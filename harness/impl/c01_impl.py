"""Implementation adapter for C01: same line protocol as ocaml/c01_driver.ml, answers from the real library
through the public API only (Transaction, Input, Output, add_input, add_output, sign, sign_and_update, verify, raw, parse,
signature, signature_hash, set_locktime_*, shuffle_inputs and the public attributes of Transaction / Input / Output).

`sess <mode> <tx> <op> ...` runs a SESSION on one Transaction object: it is built through <mode>, then every <op> is
applied to the same object, in order; each op answers with one token (see run_session)."""
import sys, os, logging, hashlib
sys.path.insert(0, os.path.dirname(os.path.abspath(__file__)))
from common_impl import hx, unhx, serve
logging.disable(logging.CRITICAL)
import bitcoinlib.transactions as _T
from bitcoinlib.transactions import Transaction, Input, Output
from bitcoinlib.keys import Key
from bitcoinlib.scripts import Script

N_ORDER = 0xFFFFFFFFFFFFFFFFFFFFFFFFFFFFFFFEBAAEDCE6AF48A03BBFD25E8CD0364141
NKEYS = 40


def secret(j):
    return int.from_bytes(hashlib.sha256(b'C01 test key %d' % j).digest(), 'big') % (N_ORDER - 1) + 1


PRIV = {}   # public key hex -> Key holding the private key


def _init_keys():
    for j in range(NKEYS):
        for comp in (True, False):
            k = Key(secret(j), compressed=comp)
            PRIV[k.public_hex] = k


def parse_tx(tok):
    hd, ins, outs = tok.split('|')
    ver, lock, sw, net = hd.split(':')
    li = []
    for s in ins.split(';'):
        prev, vout, seq, idx, kind, value, m, keys = s.split(',')
        li.append(dict(prev=unhx(prev), vout=int(vout), seq=int(seq), idx=int(idx), kind=kind, value=int(value),
                       m=int(m), keys=keys.split('/')))
    lo = []
    if outs != '-':
        for s in outs.split(';'):
            v, sc = s.split(',')
            lo.append((int(v), unhx(sc)))
    return int(ver), int(lock), sw == '1', net, li, lo


def kind_args(i, alt, priv=False):
    k, keys, m = i['kind'], i['keys'], i['m']
    if priv:          # Key objects holding the private keys, so that the library can (re-)sign on its own
        keys = [PRIV[x] for x in keys]
    if k == 'p2pkh':
        return dict(keys=keys[0], script_type='sig_pubkey', witness_type='legacy')
    if k == 'p2pk':
        return dict(keys=keys[0], script_type='signature', witness_type='legacy')
    if k == 'multisig':
        # bare multisig: update_scripts has no branch for it; the caller passes the locking script (strict=False)
        ls = Script(script_types=['multisig'], keys=[bytes.fromhex(x) for x in i['keys']], sigs_required=m).serialize()
        return dict(keys=keys, script_type='multisig', sigs_required=m, witness_type='legacy', locking_script=ls,
                    strict=False)
    if k == 'p2sh_multisig':
        return dict(keys=keys, script_type='p2sh_multisig', sigs_required=m, witness_type='legacy')
    if k == 'p2wpkh':
        return dict(keys=keys[0], script_type='sig_pubkey', witness_type='segwit')
    if k == 'p2wsh':
        return dict(keys=keys, script_type='p2sh_multisig', sigs_required=m, witness_type='segwit')
    if k == 'p2sh_p2wpkh':
        if alt:
            return dict(keys=keys[0], script_type='sig_pubkey', witness_type='p2sh-segwit')
        return dict(keys=keys[0], script_type='p2sh_p2wpkh')
    if k == 'p2sh_p2wsh':
        if alt:
            return dict(keys=keys, script_type='p2sh_multisig', sigs_required=m, witness_type='p2sh-segwit')
        return dict(keys=keys, script_type='p2sh_p2wsh', sigs_required=m)
    raise ValueError(k)


def build_api(tok, alt=False):
    ver, lock, sw, net, li, lo = parse_tx(tok)
    t = Transaction(version=ver, locktime=lock, witness_type='segwit' if sw else 'legacy', network=net)
    for i in li:
        t.add_input(prev_txid=i['prev'][::-1].hex(), output_n=i['vout'], sequence=i['seq'], index_n=i['idx'],
                    value=i['value'], **kind_args(i, alt))
    for v, sc in lo:
        t.add_output(v, lock_script=sc)
    return t, li


def sign_all(t, li):
    for p, i in enumerate(li):
        n = 1 if i['kind'] in ('p2pkh', 'p2pk', 'p2wpkh', 'p2sh_p2wpkh') else i['m']
        t.sign(keys=[PRIV[x] for x in i['keys'][:n]], index_n=p)


def build(mode, tok):
    if mode in ('api', 'api2'):
        return build_api(tok, alt=(mode == 'api2'))[0]
    if mode == 'parse':
        # sign through the API, serialize, parse the bytes back, supply what a parsed transaction cannot know
        t, li = build_api(tok)
        sign_all(t, li)
        ver, lock, sw, net, _, _ = parse_tx(tok)
        t2 = Transaction.parse(t.raw(), network=net)
        for p, i in enumerate(li):
            t2.inputs[p].value = i['value']
            if i['kind'] == 'p2pk':
                t2.inputs[p].keys = [Key(i['keys'][0])]
                t2.update_inputs(p)
        return t2
    raise ValueError(mode)



# ------------------------------------------------------------------------------------------------ sessions
SW_HTS = (1, 2, 3, 0x81, 0x82, 0x83)
LEGACY_KINDS = ('p2pkh', 'p2pk', 'multisig', 'p2sh_multisig')
PRIV_MODES = ('apik', 'apib', 'apikr', 'ctor', 'kn', 'kl', 'ka', 'kla', 'klc', 'kac', 'knc')


def parse_in(s):
    prev, vout, seq, idx, kind, value, m, keys = s.split(',')
    return dict(prev=unhx(prev), vout=int(vout), seq=int(seq), idx=int(idx), kind=kind, value=int(value), m=int(m),
                keys=keys.split('/'))


def build_session(mode, tok):
    """-> (Transaction, [input descriptions by position])"""
    ver, lock, sw, net, li, lo = parse_tx(tok)
    wt = 'segwit' if sw else 'legacy'
    if mode in ('api', 'apik', 'apib', 'apikr', 'parse'):
        kw = dict(locktime=lock, witness_type=wt, network=net)
        if ver:
            kw['version'] = ver          # 0 in the token = argument left out
        if mode == 'apikr':
            kw['replace_by_fee'] = True
        t = Transaction(**kw)
        for i in li:
            if mode == 'apib':    # the bytes spellings of the arguments: txid as bytes, output_n big-endian, sequence little-endian
                t.add_input(prev_txid=i['prev'][::-1], output_n=i['vout'].to_bytes(4, 'big'),
                            sequence=i['seq'].to_bytes(4, 'little'), index_n=i['idx'], value=i['value'],
                            **kind_args(i, False, priv=True))
            else:
                t.add_input(prev_txid=i['prev'][::-1].hex(), output_n=i['vout'], sequence=i['seq'], index_n=i['idx'],
                            value=i['value'], **kind_args(i, False, priv=(mode != 'api')))
        for v, sc in lo:
            t.add_output(v, lock_script=sc)
        if mode == 'parse':
            t.sign()
            t2 = Transaction.parse(t.raw(), network=net)
            for p, i in enumerate(li):
                t2.inputs[p].value = i['value']
                if i['kind'] == 'p2pk':
                    t2.inputs[p].keys = [Key(i['keys'][0])]
                    t2.update_inputs(p)
            t = t2
        return t, li
    if mode in FORM_MODES:
        # inputs described WITHOUT their keys (address / public hash / locking script / nothing); keys come with sign(keys)
        kw = dict(locktime=lock, witness_type=wt, network=net)
        if ver:
            kw['version'] = ver
        if mode == 'fr':       # add_input has no redeemscript argument: Input objects handed to the constructor
            ins = [Input(prev_txid=i['prev'][::-1].hex(), output_n=i['vout'], sequence=i['seq'], index_n=p, value=i['value'],
                         network=net, **form_args(i, mode, net)) for p, i in enumerate(li)]
            outs = [Output(v, lock_script=sc, network=net) for v, sc in lo]
            if ver:
                kw['version'] = ver.to_bytes(4, 'big')
            return Transaction(ins, outs, fee=0, **kw), li
        t = Transaction(**kw)
        for i in li:
            t.add_input(prev_txid=i['prev'][::-1].hex(), output_n=i['vout'], sequence=i['seq'], index_n=i['idx'],
                        value=i['value'], **form_args(i, mode, net))
        for v, sc in lo:
            t.add_output(v, lock_script=sc)
        return t, li
    if mode in INFER_MODES:
        # the witness type (and for single-key inputs the script type) is NOT passed: the library infers it from the
        # locking script / address / script type / unlocking script it is given (with or without keys)
        kw = dict(locktime=lock, witness_type=wt, network=net)
        if ver:
            kw['version'] = ver
        if mode.endswith('c'):      # Input objects handed to the constructor
            ins = [Input(prev_txid=i['prev'][::-1].hex(), output_n=i['vout'], sequence=i['seq'], index_n=p, value=i['value'],
                         network=net, **infer_args(i, mode[:-1], net)) for p, i in enumerate(li)]
            outs = [Output(v, lock_script=sc, network=net) for v, sc in lo]
            if ver:
                kw['version'] = ver.to_bytes(4, 'big')
            return Transaction(ins, outs, fee=0, **kw), li
        t = Transaction(**kw)
        for i in li:
            t.add_input(prev_txid=i['prev'][::-1].hex(), output_n=i['vout'], sequence=i['seq'], index_n=i['idx'],
                        value=i['value'], **infer_args(i, mode, net))
        for v, sc in lo:
            t.add_output(v, lock_script=sc)
        return t, li
    if mode == 'ctor':
        ins = [Input(prev_txid=i['prev'][::-1].hex(), output_n=i['vout'], sequence=i['seq'], index_n=p, value=i['value'],
                     network=net, **kind_args(i, False, priv=True)) for p, i in enumerate(li)]
        outs = [Output(v, lock_script=sc, network=net) for v, sc in lo]
        kw = dict(locktime=lock, witness_type=wt, network=net, fee=0)
        if ver:
            kw['version'] = ver.to_bytes(4, 'big')      # the bytes spelling of the argument (what parse passes)
        return Transaction(ins, outs, **kw), li
    raise ValueError(mode)


FORM_MODES = ('fn', 'fh', 'fl', 'fa', 'fla', 'fu', 'fr')


def _h160(b):
    return hashlib.new('ripemd160', hashlib.sha256(b).digest()).digest()


def _push(d):
    n = len(d)
    return (bytes([n]) if n < 76 else b'\x4c' + bytes([n]) if n < 256 else b'\x4d' + n.to_bytes(2, 'little')) + d


def form_args(i, mode, net):
    base = kind_args(i, False)
    k = i['kind']
    if k not in ('p2pkh', 'p2pk', 'p2wpkh', 'p2sh_p2wpkh'):
        # multisig kinds: the script is made of the (public) keys; fr: handed over as redeemscript only (Input(...)),
        # fu (P2SH): as the unsigned unlocking script OP_0 <redeem script>
        if mode in ('fr', 'fu') and k != 'multisig':
            red = Script(script_types=['multisig'], keys=[bytes.fromhex(x) for x in i['keys']], sigs_required=i['m']).serialize()
            args = {a: v for a, v in base.items() if a != 'keys'}
            if mode == 'fr':
                args['redeemscript'] = red
                return args
            if k == 'p2sh_multisig':
                args['unlocking_script'] = b'\x00' + _push(red)
                return args
        return base
    args = {a: v for a, v in base.items() if a != 'keys'}
    if k == 'p2sh_p2wpkh':
        args['witness_type'] = 'p2sh-segwit'
    pubk = bytes.fromhex(i['keys'][0])
    h = _h160(pubk)
    if mode == 'fn' or k == 'p2pk':
        return args
    lock = {'p2pkh': b'\x76\xa9\x14' + h + b'\x88\xac', 'p2wpkh': b'\x00\x14' + h,
            'p2sh_p2wpkh': b'\xa9\x14' + _h160(b'\x00\x14' + h) + b'\x87'}[k]
    if mode == 'fh':
        args['public_hash'] = h
    if mode in ('fl', 'fla'):
        args['locking_script'] = lock
    if mode in ('fa', 'fla'):
        from bitcoinlib.keys import Address
        if k == 'p2pkh':
            a = Address(hashed_data=h, script_type='p2pkh', encoding='base58', network=net)
        elif k == 'p2wpkh':
            a = Address(hashed_data=h, script_type='p2wpkh', encoding='bech32', network=net)
        else:
            a = Address(hashed_data=_h160(b'\x00\x14' + h), script_type='p2sh', encoding='base58', network=net)
        args['address'] = a.address
    return args


INFER_MODES = ('kn', 'kl', 'ka', 'kla', 'il', 'ia', 'klc', 'kac', 'ilc', 'knc')


def spent_lock(i):
    """scriptPubKey of the output the input spends (written here from the kind, not read from the library)"""
    k = i['kind']
    pubs = [bytes.fromhex(x) for x in i['keys']]
    if k in ('p2pkh', 'p2wpkh', 'p2sh_p2wpkh'):
        h = _h160(pubs[0])
        return {'p2pkh': b'\x76\xa9\x14' + h + b'\x88\xac', 'p2wpkh': b'\x00\x14' + h,
                'p2sh_p2wpkh': b'\xa9\x14' + _h160(b'\x00\x14' + h) + b'\x87'}[k]
    if k == 'p2pk':
        return _push(pubs[0]) + b'\xac'
    red = bytes([0x50 + i['m']]) + b''.join(_push(x) for x in pubs) + bytes([0x50 + len(pubs)]) + b'\xae'
    if k == 'multisig':
        return red
    if k == 'p2sh_multisig':
        return b'\xa9\x14' + _h160(red) + b'\x87'
    if k == 'p2wsh':
        return b'\x00\x20' + hashlib.sha256(red).digest()
    return b'\xa9\x14' + _h160(b'\x00\x20' + hashlib.sha256(red).digest()) + b'\x87'


def spent_address(i, net):
    from bitcoinlib.keys import Address
    k = i['kind']
    lock = spent_lock(i)
    if k == 'p2pkh':
        return Address(hashed_data=lock[3:23], script_type='p2pkh', encoding='base58', network=net).address
    if k == 'p2wpkh':
        return Address(hashed_data=lock[2:], script_type='p2wpkh', encoding='bech32', network=net).address
    if k == 'p2wsh':
        return Address(hashed_data=lock[2:], script_type='p2wsh', encoding='bech32', network=net).address
    if k in ('p2sh_multisig', 'p2sh_p2wpkh', 'p2sh_p2wsh'):
        return Address(hashed_data=lock[2:22], script_type='p2sh', encoding='base58', network=net).address
    return None


def infer_args(i, mode, net):
    """arguments of an input whose witness type is left to the library.  k*: the private keys are passed, i*: no keys
    (they arrive with sign(keys)); *n: nothing else, *l: the locking script of the spent output, *a: its address,
    *la: both.  What cannot be inferred from those (script type of P2PK, of the
    multisig kinds and of the nested kinds; sigs_required) is passed; witness_type never is."""
    base = kind_args(i, False, priv=True)
    k = i['kind']
    args = {a: v for a, v in base.items() if a != 'witness_type'}
    if k in ('p2pkh', 'p2wpkh'):
        args.pop('script_type', None)
    if mode[0] == 'i':
        if k in ('p2pkh', 'p2pk', 'p2wpkh', 'p2sh_p2wpkh'):
            args.pop('keys', None)
        else:
            args['keys'] = list(i['keys'])      # multisig kinds: the script is made of the public keys
    form = mode[1:]
    if 'l' in form and k != 'multisig':
        args['locking_script'] = spent_lock(i)
    if 'a' in form:
        a = spent_address(i, net)
        if a:
            args['address'] = a
    return args


def wt_name(w):
    return {'legacy': 'leg', 'segwit': 'sw', 'p2sh-segwit': 'p2sh'}.get(w, 'X' + str(w))


def observe_inferred(t, li):
    """per input: the witness type the library holds for it and the preimage / digest of Transaction.signature called
    with THAT witness type, hash type ALL (what Transaction.sign does)"""
    out = []
    for p, i in enumerate(li):
        try:
            w = t.inputs[p].witness_type
            pre = t.signature(p, 1, w)
            dig = t.signature_hash(p, 1, w)
            out.append('%d.%s.%s.%s' % (p, wt_name(w), hx(pre), hx(dig)))
        except Exception:
            out.append('%d.ERR' % p)
    return ','.join(out) or '-'


def key_form(pubhex, form, net):
    k = PRIV[pubhex]
    if form == 'h':
        return k.private_hex if k.compressed else k
    if form == 'b':
        return k.private_byte if k.compressed else k
    if form == 'w':
        return Key(k.private_byte, compressed=k.compressed, network=net).wif()
    if form == 'd':
        from bitcoinlib.keys import HDKey
        return HDKey(key=k.private_byte, chain=b'\x01' * 32, compressed=k.compressed, network=net)
    return k


def sign_keys_form(t, li, form):
    for p, i in enumerate(li):
        n = 1 if i['kind'] in ('p2pkh', 'p2pk', 'p2wpkh', 'p2sh_p2wpkh') else i['m']
        ks = [key_form(x, form, t.network.name) for x in i['keys'][:n]]
        t.sign(keys=(ks[0] if len(ks) == 1 and form != '' else ks), index_n=p)


class _Shuffle:
    """stands in for the module `random` inside bitcoinlib.transactions while shuffle_inputs / shuffle run: the
    outcomes of the successive random.shuffle calls are given"""
    def __init__(self, *perms):
        self.perms = list(perms)

    def shuffle(self, lst):
        perm = self.perms.pop(0)
        if sorted(perm) != list(range(len(lst))):
            raise IndexError('perm')
        lst[:] = [lst[k] for k in perm]


def sign_keys(t, li, replace):
    for p, i in enumerate(li):
        n = 1 if i['kind'] in ('p2pkh', 'p2pk', 'p2wpkh', 'p2sh_p2wpkh') else i['m']
        t.sign(keys=[PRIV[x] for x in i['keys'][:n]], index_n=p, replace_signatures=replace)


def observe_digests(t, li):
    out = []
    for p, i in enumerate(li):
        leg = i['kind'] in LEGACY_KINDS
        wt = 'legacy' if leg else ('segwit' if i['kind'] in ('p2wpkh', 'p2wsh') else 'p2sh-segwit')
        for ht in ((1,) if leg else SW_HTS):
            try:
                pre = t.signature(p, ht, wt)
                dig = t.signature_hash(p, ht, wt)
                out.append('%d.%d.%s.%s' % (p, ht, hx(pre), hx(dig)))
            except Exception:
                out.append('%d.%d.ERR' % (p, ht))
    return ','.join(out) or '-'


def session_op(t, li, mode, op):
    a = op.split('~')
    k = a[0]
    if k == 'dig':
        try:
            raw = hx(t.raw())
        except Exception:
            return 'D=ERR'
        return 'D=' + raw + '#' + observe_digests(t, li)
    if k == 'inf':
        try:
            raw = hx(t.raw())
        except Exception:
            return 'I=ERR'
        return 'I=' + raw + '#' + observe_inferred(t, li)
    if k == 'raw':
        try:
            return 'R=%s#%d#%d' % (hx(t.raw()), int.from_bytes(t.version, 'big'), t.version_int)
        except Exception:
            return 'R=ERR'
    if k == 'vfy':
        try:
            ok = t.verify()
            return 'V=%s#%s' % (hx(t.raw()), '1' if ok else '0')
        except Exception as e:
            return 'V=ERR'
    try:
        if k == 'sign':
            t.sign()
        elif k == 'rsign':
            t.sign(replace_signatures=True)
        elif k == 'signk':
            sign_keys(t, li, False)
        elif k in ('signkh', 'signkb', 'signkw', 'signkd'):
            sign_keys_form(t, li, k[-1])
        elif k == 'rsignk':
            sign_keys(t, li, True)
        elif k == 'sau':
            t.sign_and_update()
        elif k == 'saui':
            t.sign_and_update(index_n=int(a[1]))
        elif k == 'seq':
            t.inputs[int(a[1])].sequence = int(a[2])
        elif k == 'op':
            inp, vout = t.inputs[int(a[1])], int(a[3])
            vb = vout.to_bytes(4, 'big')
            inp.prev_txid, inp.output_n, inp.output_n_int = unhx(a[2])[::-1], vb, vout
        elif k == 'ival':
            t.inputs[int(a[1])].value = int(a[2])
        elif k == 'lt':
            t.locktime = int(a[1])
        elif k == 'ver':
            v = int(a[1])
            vb = v.to_bytes(4, 'big')
            t.version, t.version_int = vb, v
        elif k == 'vint':
            t.version_int = int(a[1])
        elif k == 'oval':
            t.outputs[int(a[1])].value = int(a[2])
        elif k == 'oscr':
            t.outputs[int(a[1])].lock_script = unhx(a[2])
        elif k == 'addin':
            i = parse_in(a[1])
            t.add_input(prev_txid=i['prev'][::-1].hex(), output_n=i['vout'], sequence=i['seq'], index_n=i['idx'],
                        value=i['value'], **kind_args(i, False, priv=(mode in PRIV_MODES)))
            li.append(i)
        elif k == 'addout':
            t.add_output(int(a[1]), lock_script=unhx(a[2]))
        elif k == 'perm':
            perm = [int(x) for x in a[1].split('.')]
            saved = _T.random
            _T.random = _Shuffle(perm)
            try:
                t.shuffle_inputs()
            finally:
                _T.random = saved
            li[:] = [li[j] for j in perm]
        elif k == 'merge':
            i = parse_in(a[1])
            pi, po = [int(x) for x in a[4].split('.')], [int(x) for x in a[5].split('.')]
            if sorted(pi) != list(range(len(t.inputs) + 1)) or sorted(po) != list(range(len(t.outputs) + 1)):
                raise IndexError('perm')
            other = Transaction(witness_type=t.witness_type, network=t.network.name)
            other.add_input(prev_txid=i['prev'][::-1].hex(), output_n=i['vout'], sequence=i['seq'], index_n=0,
                            value=i['value'], **kind_args(i, False, priv=(mode in PRIV_MODES)))
            other.add_output(int(a[2]), lock_script=unhx(a[3]))
            saved = _T.random
            _T.random = _Shuffle(pi, po)
            try:
                li.append(i)
                li[:] = [li[j] for j in pi]
                t.merge_transaction(other)
            finally:
                _T.random = saved
        elif k == 'slrb':
            t.set_locktime_relative_blocks(int(a[1]), int(a[2]), int(a[3]))
        elif k == 'slrt':
            t.set_locktime_relative_time(int(a[1]), int(a[2]), int(a[3]))
        elif k == 'slb':
            t.set_locktime_blocks(int(a[1]))
        elif k == 'slt':
            t.set_locktime_time(int(a[1]))
        else:
            return 'BADOP'
    except Exception as e:
        return 'E:' + type(e).__name__
    return 'ok'


def run_session(mode, tok, ops):
    try:
        t, li = build_session(mode, tok)
        li = list(li)
    except Exception as e:
        return 'ERR build %s' % type(e).__name__
    return ' '.join(session_op(t, li, mode, op) for op in ops)


CACHE = {}
WT = {'leg': 'legacy', 'sw': 'segwit', 'p2sh': 'p2sh-segwit'}


def get_tx(mode, tok):
    key = (mode, tok)
    if key not in CACHE:
        CACHE.clear()
        try:
            CACHE[key] = build(mode, tok)
        except Exception as e:
            CACHE[key] = 'ERR build %s' % type(e).__name__
    return CACHE[key]


def dispatch(t):
    if not PRIV:
        _init_keys()
    k = t[0]
    if k == 'pre':
        tx = get_tx(t[1], t[2])
        if isinstance(tx, str):
            return tx
        sid, ht, wt = int(t[3]), int(t[4]), WT[t[5]]
        try:
            pre = tx.signature(sid, ht, wt)
            dig = tx.signature_hash(sid, ht, wt)
            dig_hex = tx.signature_hash(sid, ht, wt, as_hex=True)
        except Exception as e:
            return 'ERR'
        if dig.hex() != dig_hex:
            return 'CRASH as_hex differs'
        return hx(pre) + ' ' + hx(dig)
    if k == 'sess':
        return run_session(t[1], t[2], t[3:])
    if k == 'signed':
        try:
            tx, li = build_api(t[1])
        except Exception as e:
            return 'ERR build %s' % type(e).__name__
        try:
            sign_all(tx, li)
            raw = tx.raw()
            ok = tx.verify()
        except Exception as e:
            return 'ERR sign %s' % type(e).__name__
        return hx(raw) + ' ' + ('1' if ok else '0')
    return 'BADREQ'


serve(dispatch)
