"""Implementation adapter for C08: executes one abstract wallet history per request line against a real Wallet
(public API only) on a fresh sqlite file in the cwd and reports, per operation, the concretised model operations
(environment inputs: provider answers, selected inputs, produced transaction data) and the observations.

request : hist <kind> <hid> <op>,<op>,...          kind: hd | hdl | hdp | single | ms | ms3 | ms3l | ms3p
answer  : one JSON line  {"steps": [{"op":..,"mops":[..],"err":..,"obs":{..}}, ...], "final": {...}}

Accounts / networks: na = new_account(), nn = new_account(network='litecoin').  An operation may end in ":<A>", an
index into the wallet's current list of (network, account) groups; the call then names that group
(new_key(account_id=.., network=..), utxos_update(account_id=..[, networks=..]), send_to / sweep(.., account_id=..,
network=..); the network is passed only when it is not the wallet's own).  Without the suffix the call names
neither.  Every observation reads balance(account_id=a[, network=n]) and utxos(account_id=a[, network=n]) for EVERY
group after the default readings (field "pa"), and the key balances / key groups again after these calls ("kbA",
"ka").  Destinations: e = external address, o<i> = own key of the sending group, x<i> = own key of any account of
the sending network.

Several wallets in one database file: nw:<how> creates a further wallet in the SAME sqlite file (s: the same seed /
keys restored under a second name, o: an unrelated seed, c: for 2-of-2 the cosigner's wallet, which holds the other
private key) and makes it the current one; w:<i> makes wallet i the current one.  Every operation runs on the
current wallet through its live Wallet object.  After an operation the current wallet is observed and then every
other wallet of the file (steps "@obs"); every step carries "wid".

Observation: the FIRST reading after an operation is made through a second Wallet object opened on the file (kind
flag f: in a forked child process), before any call on the live object: key balances (kbpre), utxos() of every
group (utxos_pre, pa_pre) and transaction(txid) of every transaction touched since the wallet was last observed
(txs_pre).  Only then balance() etc. are called on the live object.  An operation written with a trailing "!" is
NOT followed by an observation: the next operation (or a reopen) comes directly after it.

Further operations: sk:<key>:<dest>:<permille>:<bc>:<mc>  send_to(.., input_key_id=key);
si:<u>:<dest>:<permille>:<bc>  send(.., input_arr=[the u-th unspent output], fee=..): exactly one chosen output is
spent; iw:<i>  transaction_import of a transaction created by ANOTHER wallet of the file; dl:<i>  transaction_delete
of the i-th most recent transaction this wallet created (de:<i> takes the i-th of all known transaction ids).
Round 3: kinds addr / addrl (single-key wallet from an address string), singlep (from a public key), hdw (HD wallet
from the account xpub); ik:<j>[:A] import_key(Address) / ip:<j>[:A] import_key(public key) [account of group A];
ir:<dest>:<permille>:<version>:<locktime>:<r|o|d>:<0|s|b>  a transaction built and signed elsewhere is imported as raw
bytes / Transaction / dict and then left / stored / sent; key index -1 = the key added last; flags a (wallet created
with account_id=1|2) and d (default_account_id = 1 set and persisted after new_account()).  Observation fields ku
(utxos(key_id=k): key:sum:count:outputs of other keys), fixed (txid~bytes of imported / fully signed stored
transactions), reser extended by version, locktime, sequences, amounts of the reloaded object.
Kind flags (after "+"): f  first reading in a forked process; m  the provider answers with SEVERAL outputs per
transaction id (every address is paid by output <n(address)> of two shared transactions); x  transaction_delete of
a transaction id which another wallet of the file holds too is attempted (recorded finding delete_shared_txid).
Round 4: kinds ms3 / ms3l / ms3p (2-of-3 multisig, p2wsh / p2sh / p2sh-p2wsh); observation fields ind (the inputs of
every transaction reloaded through the live object in detail: address, script type, witness type, sequence, value,
signatures required, public keys IN ORDER, redeem script), ind2 (the same through a second Wallet object), ind_sent
(the same of the transaction objects at the moment they were stored / sent).
"""
import sys, os, json, logging, hashlib, random, gc, re
sys.path.insert(0, os.path.dirname(os.path.abspath(__file__)))
logging.disable(logging.CRITICAL)
import bitcoinlib.wallets as BW
from bitcoinlib.wallets import Wallet, WalletError
from bitcoinlib.keys import HDKey, Address
from bitcoinlib.transactions import Transaction
from bitcoinlib.services.services import Service as RealService

NW = 'bitcoinlib_test'
NW2 = 'litecoin'           # second network of a wallet (another BIP44 coin type); its provider is the stub below
MAX_ACCOUNTS = 3
MAX_ACCOUNTS_NW2 = 2
MAX_WALLETS = 3
LOG = []
MULTI_OUT = [False]      # kind flag m
ADDRN = {}               # address -> output number in the shared funding transactions (kind flag m)


class RecService(RealService):
    """The real Service for bitcoinlib_test (built-in offline provider), recording what the provider answered.
    For any other network no provider can be reached: a deterministic stub answers the calls the wallet makes
    (one confirmed output per address, a fixed fee rate, broadcast = transaction id)."""

    def __init__(self, network=None, *args, **kwargs):
        name = network if isinstance(network, str) or network is None else network.name
        self._stub = name is not None and name != NW
        if self._stub:
            self.results, self.errors, self.complete, self.resultcount = {}, {}, True, 1
        else:
            RealService.__init__(self, network, *args, **kwargs)

    def getutxos(self, address, after_txid='', limit=20):
        if self._stub:
            r = []
            if not after_txid:
                r = [{'address': address, 'txid': hashlib.sha256(('c08-nw2-' + address).encode()).hexdigest(),
                      'confirmations': 7, 'output_n': 1, 'index': 0, 'value': 30000000, 'script': ''}]
        else:
            r = RealService.getutxos(self, address, after_txid, limit)
            if MULTI_OUT[0] and r:
                # several outputs per transaction id: output n(address) of shared funding transaction j
                n = ADDRN.setdefault(address, len(ADDRN))
                r = [dict(u, txid=hashlib.sha256(b'c08-shared-%d' % j).hexdigest(), output_n=n)
                     for j, u in enumerate(r)]
        LOG.append((address, r))
        return r

    def estimatefee(self, blocks=3, priority=''):
        if self._stub:
            return 20000
        return RealService.estimatefee(self, blocks, priority)

    def blockcount(self):
        if self._stub:
            return 100
        return RealService.blockcount(self)

    def sendrawtransaction(self, rawtx):
        if self._stub:
            from bitcoinlib.encoding import double_sha256, to_bytes
            return {'txid': double_sha256(to_bytes(rawtx))[::-1].hex(), 'response_dict': {}}
        return RealService.sendrawtransaction(self, rawtx)


BW.Service = RecService

WT = {'hd': 'segwit', 'hdl': 'legacy', 'hdp': 'p2sh-segwit', 'single': 'segwit', 'ms': 'segwit',
      # wallets WITHOUT key material: a single-key wallet made from an address string (legacy / segwit address), from
      # a public key only, an HD wallet made from the account's extended public key
      'addr': 'segwit', 'addrl': 'legacy', 'singlep': 'segwit', 'hdw': 'segwit',
      # round 4: 2-of-3 multisig (this wallet holds the first private key, a second one is passed when signing) whose
      # BIP67-sorted key order differs from the cosigner order for most addresses: p2wsh, p2sh, p2sh-p2wsh
      'ms3': 'segwit', 'ms3l': 'legacy', 'ms3p': 'p2sh-segwit'}


def pool_txid(slot):
    return hashlib.sha256(b'c08-pool-%d' % slot).hexdigest()


class St:
    """One wallet of the file.  txids, nws, ext and wallets are shared by the wallets of one history."""
    pass


def open_wallet(st):
    return Wallet(st.name, db_uri=st.uri)


def keyrows(w):
    return [(k.id, k.address, k.account_id, k.depth, k.network_name, k.key_type) for k in w.keys()]


def nwid(st, name):
    """Integer network id used by the model: 0 is the wallet's own network."""
    if name not in st.nws:
        st.nws.append(name)
    return st.nws.index(name)


def groups(st, w=None):
    """The (network name, account id) groups of the wallet: the wallet's own network first."""
    w = w or st.w
    nws = [NW] + [n for n in w.network_list() if n != NW] if w.scheme == 'bip32' and not w.multisig else [NW]
    return [(nw, a) for nw in nws for a in sorted(w.accounts(network=nw) if nw != NW else w.accounts())]


def pick_group(st, a, i):
    """Group named by the optional suffix at position i of the token (None: the call names no account)."""
    if len(a) <= i or a[i] == '':
        return None
    gl = groups(st)
    return gl[int(a[i]) % len(gl)]


def gkw(g):
    """Keyword arguments naming the group: the network only when it is not the wallet's own."""
    if g is None:
        return {}
    return {'account_id': g[1]} if g[0] == NW else {'account_id': g[1], 'network': g[0]}


def filed_account(st, txid, nw):
    """The account under which the wallet lists the transaction (Wallet.transaction(txid).account_id is the
    wallet's default account whatever the row says, so the per-account lists are asked)."""
    snap(st)
    for g in groups(st):
        if g[0] == nw and any(t.txid == txid for t in st.w.transactions(include_new=True, **gkw(g))):
            return g[1]
    return 0


def touch(st, txid):
    """The transaction id was written to by an operation: every wallet of the file reads it first thing at its
    next observation."""
    st.txids.add(txid)
    for x in st.wallets:
        x.touched.add(txid)


def u_ops(st, rescan, nets, acct, kid, first=None):
    """The U operations of one utxos_update call: one per network of its loop, in loop order, carrying what the
    provider answered for the addresses of that network (or the utxos handed over, for the first network)."""
    ops = []
    for j, nw in enumerate(nets):
        us = []
        if j == 0 and first is not None:
            us = first
        else:
            for (addr, r) in LOG:
                for u in r:
                    kk = kid if kid is not None else st.addr[u['address']]
                    if st.keys[kk][3] != nw:
                        continue
                    touch(st, u['txid'])
                    us.append('%d/%s/%d/%d/%d' % (kk, u['txid'], u['output_n'], u['value'], u['confirmations']))
        ops.append('U:%d:%d:%d:%s:%s' % (1 if rescan else 0, nwid(st, nw), acct, '-' if kid is None else str(kid),
                                         ','.join(us) or '-'))
    return ops


def snap(st):
    """The first reading after the library call of an operation: taken through a second Wallet object (or another
    process) BEFORE the adapter itself touches the live object again (Wallet.keys() etc. end in a commit and would
    make a pending change durable)."""
    if st.want_pre and st.pre is None:
        ids = sorted(st.touched)
        st.touched = set()
        st.pre = preread_forked(st, ids) if st.fork else preread(st, ids)


def touch_log(st):
    for (addr, r) in LOG:
        for u in r:
            touch(st, u['txid'])


def note_tx(st, t, bc):
    touch(st, t.txid)
    if bc:
        for i in t.inputs:
            touch(st, i.prev_txid.hex())


def refresh_keys(st, mops):
    """New DbKey rows since the last look become K ops; keeps the address -> key id map."""
    snap(st)
    for (kid, addr, acct, depth, nw, kt) in keyrows(st.w):
        if kid not in st.keys:
            st.keys[kid] = (addr, acct, depth, nw)
            st.addr[addr] = kid
            mops.append('K:%d:%d:%d:%d' % (kid, nwid(st, nw), acct, depth))
            if depth == st.w.key_depth and (kt != 'multisig' or True):
                st.akeys.append(kid)


def sp(v):
    return '-' if v is None else ('1' if v else '0')


def tx_tokens(st, t):
    ins = ','.join('%d/%s/%d/%d/%s' % (i.index_n, i.prev_txid.hex(), i.output_n_int, i.value or 0,
                                       st.addr.get(i.address, '-')) for i in t.inputs) or '-'
    outs = ','.join('%d/%d/%s/%s' % (o.output_n, o.value, st.addr.get(o.address, '-'), sp(o.spent))
                    for o in t.outputs) or '-'
    raw = t.rawtx.hex() if t.rawtx else '-'
    return ins, outs, raw


def tx_view(st, t, full, defer=False):
    """Same text the model driver prints for a transaction.  defer: the key id of an output is filled in later
    (the first reading is taken before the adapter has looked at the keys the operation created)."""
    ins = ','.join('%d/%s/%d/%d' % (i.index_n, i.prev_txid.hex(), i.output_n_int, i.value or 0)
                   for i in sorted(t.inputs, key=lambda i: i.index_n))
    outs = ','.join('%d/%d/%s/%s' % (o.output_n, o.value,
                                     ('@%s@' % o.address) if defer else st.addr.get(o.address, '-'),
                                     '1' if o.spent else '0')
                    for o in sorted(t.outputs, key=lambda o: o.output_n))
    s = '%s~%d~%s~%s' % (t.txid, t.confirmations or 0, ins, outs)
    if full:
        s += '~' + (t.rawtx.hex() if t.rawtx else '-')
    return s


def ind_view(t):
    """Round 4: the INPUTS of a transaction object in detail, one text per input: index / address / script type /
    witness type / sequence / value / signatures required / public keys in the object's order / redeem script."""
    ins = []
    for i in sorted(t.inputs, key=lambda i: i.index_n):
        ks = []
        for k in i.keys or []:
            ks.append(getattr(k, 'public_hex', None) or '?')
        ins.append('%d/%s/%s/%s/%d/%d/%d/%s/%s' % (i.index_n, i.address or '-', i.script_type or '-', i.witness_type or '-',
                                                  i.sequence, i.value or 0, i.sigs_required or 0, '.'.join(ks) or '-',
                                                  i.redeemscript.hex() if i.redeemscript else '-'))
    return '%s~%s' % (t.txid, ';'.join(ins) or '-')


def txs_view(st, w, full, ids=None, defer=False, detail=None):
    r = []
    for txid in sorted(st.txids if ids is None else ids):
        t = w.transaction(txid)
        if t is not None:
            r.append(tx_view(st, t, full, defer))
            if detail is not None:
                detail.append(ind_view(t))
    return ','.join(sorted(r))


def utxos_view(ul):
    return ','.join(sorted('%s/%d/%d/%d/%d' % (u['txid'], u['output_n'], u['value'], u['key_id'], u['confirmations'])
                           for u in ul))


def kb_view(d):
    return ','.join('%d:%d' % (k, d[k]) for k in sorted(d))


def observe_groups(st, w, o):
    """Per-group readings, after the default ones: balance(account_id=a[, network=n]) and utxos(account_id=a[,
    network=n]) for every (network, account) of the wallet, then the key balances and the group of every key."""
    pa = []
    for g in groups(st):
        b = w.balance(**gkw(g))
        ul = w.utxos(**gkw(g))
        if b != int(b):
            o['bal_exact'] = False
        pa.append('%d.%d~%d~%s' % (nwid(st, g[0]), g[1], int(b), utxos_view(ul)))
    o['pa'] = '+'.join(pa)
    ks = w.keys()
    o['kbA'] = kb_view({k.id: k.balance for k in ks})
    o['ka'] = ','.join('%d:%d.%d' % (k.id, nwid(st, k.network_name), k.account_id) for k in sorted(ks, key=lambda k: k.id))


def preread(st, ids):
    """What a second Wallet object opened on the file reads (nothing is written, the live object is not used)."""
    o = {}
    w2 = open_wallet(st)
    o['kbpre'] = kb_view({k.id: k.balance for k in w2.keys()})
    o['utxos_pre'] = utxos_view(w2.utxos())
    o['txs_pre'] = txs_view(st, w2, False, ids, defer=True)
    o['pa_pre'] = '+'.join('%d.%d~%s' % (nwid(st, g[0]), g[1], utxos_view(w2.utxos(**gkw(g)))) for g in groups(st, w2))
    o['pre_txids'] = ','.join(ids)
    del w2
    return o


def preread_forked(st, ids):
    """The same reading made by another PROCESS: a forked child opens the file on its own connection."""
    nws0 = list(st.nws)
    r, wfd = os.pipe()
    pid = os.fork()
    if pid == 0:
        try:
            os.close(r)
            try:
                res = {'o': preread(st, ids), 'nws': st.nws}
            except Exception as e:
                res = {'err': '%s: %s' % (type(e).__name__, str(e)[:200])}
            data = json.dumps(res).encode()
            while data:
                n = os.write(wfd, data)
                data = data[n:]
        finally:
            os._exit(0)
    os.close(wfd)
    buf = b''
    while True:
        chunk = os.read(r, 65536)
        if not chunk:
            break
        buf += chunk
    os.close(r)
    os.waitpid(pid, 0)
    res = json.loads(buf.decode())
    if 'err' in res:
        raise RuntimeError('forked reader: ' + res['err'])
    for n in res['nws'][len(nws0):]:
        nwid(st, n)
    return res['o']


def observe(st, full):
    st.want_pre = True
    snap(st)
    o, st.pre, st.want_pre = st.pre, None, False
    o['txs_pre'] = re.sub(r'@([^@/]*)@', lambda m: str(st.addr.get(m.group(1), '-')), o['txs_pre'])
    w = st.w
    b = w.balance()
    o['bal'] = str(int(b))
    o['bal_exact'] = (b == int(b))
    ul = w.utxos()
    o['utxos'] = utxos_view(ul)
    o['usum'] = str(sum(u['value'] for u in ul))
    orm = {k.id: k.balance for k in w.keys()}
    o['kb_orm'] = kb_view(orm)
    o['kb_obj'] = kb_view({kid: w.key(kid).balance() for kid in orm})
    # utxos(key_id=k), naming neither account nor network, for every key that holds something and a few that do not
    st.kurot = getattr(st, 'kurot', 0) + 1
    zero = [kid for kid in st.akeys if not orm.get(kid)]
    kus = [kid for kid in sorted(orm) if orm[kid]] + [zero[(st.kurot + j) % len(zero)] for j in range(min(2, len(zero)))]
    ku = []
    for kid in kus:
        kl = w.utxos(key_id=kid)
        ku.append('%d:%d:%d:%d' % (kid, sum(u['value'] for u in kl), len(kl), sum(1 for u in kl if u['key_id'] != kid)))
    o['ku'] = ','.join(ku)
    det = []
    o['txs'] = txs_view(st, w, full, detail=det)
    # round 4: the inputs of every reloaded transaction in detail, and of the objects that were sent / stored
    o['ind'] = ','.join(det)
    o['ind_sent'] = ','.join(v for k, v in sorted(getattr(st, 'sent_ind', {}).items()))
    w3 = open_wallet(st)
    o['kb'] = kb_view({k.id: k.balance for k in w3.keys()})
    if full:
        o['bal2'] = str(int(w3.balance()))
        o['utxos2'] = utxos_view(w3.utxos())
        o['kb2'] = kb_view({k.id: k.balance for k in w3.keys()})
        det2 = []
        o['txs2'] = txs_view(st, w3, True, detail=det2)
        o['ind2'] = ','.join(det2)
        # re-serialisation of every reloaded transaction object (the stored blob alone would hide a lossy reload)
        rs = []
        for txid in sorted(st.txids):
            t = w3.transaction(txid)
            if t is not None:
                try:
                    rs.append('%s~%s~%s~%d~%d~%s~%s' % (txid, t.raw_hex(), '/'.join(i.witness_type or '-' for i in t.inputs),
                                                        t.version_int, t.locktime,
                                                        '/'.join(str(i.sequence) for i in sorted(t.inputs, key=lambda i: i.index_n)),
                                                        '/'.join(str(o.value) for o in sorted(t.outputs, key=lambda o: o.output_n))))
                except Exception as e:
                    rs.append('%s~ERR %s~-' % (txid, type(e).__name__))
        o['reser'] = ','.join(rs)
        o['pushed'] = ','.join('%s~%s' % (k, v) for k, v in sorted(getattr(st, 'pushed', {}).items()))
        # the bytes of transactions made elsewhere and imported (fixed when they were imported), and of fully signed
        # transactions at the moment they were stored
        o['fixed'] = ','.join('%s~%s' % (k, v) for k, v in sorted(st.fixed.items()))
    del w3
    observe_groups(st, w, o)
    return o


def dest_addr(st, d, g):
    """e: external; o<i>: own key of the sending group g; x<i>: own key of any account of g's network."""
    if d == 'e':
        return st.ext[g[0]]
    pool = [k for k in st.akeys if st.keys[k][3] == g[0] and (d[0] == 'x' or st.keys[k][1] == g[1])]
    if not pool:
        return st.ext[g[0]]
    return st.keys[pool[int(d[1:]) % len(pool)]][0]


def created_ops(st, t, mops, minconf, g):
    """The inputs a created transaction selected must be spendable in the group the CALL named."""
    sel = ','.join('%s/%d' % (i.prev_txid.hex(), i.output_n_int) for i in t.inputs) or '-'
    mops.append('C:%d:%d:%d:%s' % (nwid(st, g[0]), g[1], minconf, sel))


def store_op(st, t, sent, mops):
    """The transaction row is filed where the library files it (t.account_id)."""
    ins, outs, raw = tx_tokens(st, t)
    touch(st, t.txid)
    if not hasattr(st, 'sent_ind'):
        st.sent_ind = {}
    try:
        st.sent_ind[t.txid] = ind_view(t)        # the inputs of the object as it was stored / sent
    except Exception:
        pass
    if sent:
        for i in t.inputs:
            touch(st, i.prev_txid.hex())
        # the bytes that actually went to the network (send() pushes raw_hex() of the object as it is then)
        if not hasattr(st, 'pushed'):
            st.pushed = {}
        try:
            st.pushed.setdefault(t.txid, t.raw_hex())
        except Exception:
            pass
    try:
        # (the rows utxos_update makes for funding transactions have no inputs: such an object has no serialisation
        # that parses back, zero inputs read as the segwit marker)
        if t.verified and len(t.inputs) > 0:
            st.fixed.setdefault(t.txid, t.raw_hex())
    except Exception:
        pass
    mops.append('T:%d:%s:%d:%d:%d:%s:%s:%s' % (1 if sent else 0, t.txid, nwid(st, t.network.name), t.account_id,
                                               t.confirmations or 0, ins, outs, raw))


def held_elsewhere(st, txid):
    """Another wallet of the file holds a transaction with this id (asked through a throw-away Wallet object)."""
    for x in st.wallets:
        if x is not st and open_wallet(x).transaction(txid) is not None:
            return True
    return False


def finish_created(st, t, bc, mops, mc, g):
    created_ops(st, t, mops, mc, g)
    st.created.append(t)
    if bc:
        if t.pushed:
            store_op(st, t, True, mops)
            return None
        return 'notpushed:' + str(t.error)
    return None


def do_op(st, tok, quiet=False):
    w = st.w
    st.pre, st.want_pre = None, not quiet
    a = tok.split(':')
    k = a[0]
    mops = []
    err = None
    del LOG[:]
    try:
        if k == 'na':
            if len(w.accounts()) >= MAX_ACCOUNTS:
                err = 'skip'
            elif 0 not in w.accounts():
                w.new_account(account_id=0)      # a wallet created with account_id=N: account 0 comes later
            else:
                w.new_account()
        elif k == 'nn':
            # an account on a second network (bip32 wallets with a coin-type level only)
            if NW2 in w.network_list() and len(w.accounts(network=NW2)) >= MAX_ACCOUNTS_NW2:
                err = 'skip'
            else:
                w.new_account(network=NW2)
        elif k == 'nk':
            w.new_key(**gkw(pick_group(st, a, 1)))
        elif k == 'gk':
            w.get_key(**gkw(pick_group(st, a, 1)))
        elif k in ('ik', 'ip'):
            # a key WITHOUT key material: ik  import_key(Address) (no public key, watch-only), ip  a public key only;
            # import_key(.., account_id=a) when the token names a group of the wallet's own network
            if w.multisig:
                err = 'skip'
            else:
                g = pick_group(st, a, 2)
                fk = HDKey.from_seed(hashlib.sha256(b'c08-foreign-%s-%d' % (st.hid.encode(), int(a[1]))).digest(),
                                     network=NW, witness_type=WT[st.kind], key_type='single')
                kw = {'account_id': g[1]} if g is not None and g[0] == NW else {}
                w.import_key(Address.parse(fk.address(), network=NW) if k == 'ik' else fk.public(), **kw)
        elif k == 'ir':
            # a transaction made ELSEWHERE (version 2, a locktime, sequences below the maximum, two outputs) comes in
            # as raw bytes / Transaction object / dict, and is then stored or sent: ir:<dest>:<permille>:<version>:
            # <locktime>:<form r|o|d>:<then 0|s|b>
            dest, permille, ver, lock, form, then = a[1], int(a[2]), int(a[3]), int(a[4]), a[5], a[6]
            g = (NW, w.default_account_id)
            avail = sum(u['value'] for u in w.utxos(min_confirms=0))
            if avail < 20000:
                err = 'skip'
            else:
                amount = max(1000, avail * permille // 1000)
                outs = [(dest_addr(st, dest, g), amount - amount // 3), (st.ext[NW], amount // 3)]
                try:
                    t0 = w.transaction_create(outs, min_confirms=0, locktime=lock)
                    t0.version_int, t0.version = ver, ver.to_bytes(4, 'big')
                    t0.sign(st.privs) if st.privs else t0.sign()
                    t0.verify()
                    raw = t0.raw_hex()
                    signed = bool(t0.verified)
                    del t0
                    if form == 'r':
                        rt = w.transaction_import_raw(raw)
                    elif form == 'o':
                        rt = w.transaction_import(Transaction.parse_hex(raw, network=NW))
                    else:
                        rt = w.transaction_import(Transaction.parse_hex(raw, network=NW).as_dict())
                    if then == 'b':
                        rt.send()
                    elif then == 's':
                        rt.store()
                finally:
                    refresh_keys(st, mops)
                created_ops(st, rt, mops, 0, g)
                if then != 'b' or (rt.pushed and not rt.error):
                    st.created.append(rt)
                if signed:
                    st.fixed[rt.txid] = raw
                if then == 'b':
                    note_tx(st, rt, True)
                    if rt.pushed and not rt.error:
                        store_op(st, rt, True, mops)
                    else:
                        err = 'notpushed:' + str(rt.error)
                elif then == 's':
                    note_tx(st, rt, False)
                    store_op(st, rt, False, mops)
        elif k in ('uu', 'un', 'uk'):
            kid = None
            if k == 'uk':
                kid = st.akeys[int(a[1]) % len(st.akeys)]
                acct, nets = st.keys[kid][1], [st.keys[kid][3]]      # utxos_update(key_id=..): the key's group
                w.utxos_update(key_id=kid)
                touch_log(st)
            else:
                g = pick_group(st, a, 1)
                kw = {} if g is None else {'account_id': g[1]}
                nets = w.network_list()                  # the call loops over every network of the wallet ...
                if g is not None and g[0] != NW:
                    kw['networks'] = g[0]                # ... unless it names one
                    nets = [g[0]]
                if k == 'un':
                    kw['rescan_all'] = False
                w.utxos_update(**kw)
                touch_log(st)
                acct = 0 if g is None else g[1]          # _get_account_defaults('', None): account 0
            refresh_keys(st, mops)
            mops += u_ops(st, k == 'uu', nets, acct, kid)
        elif k in ('ua', 'uA'):
            kid = st.akeys[int(a[1]) % len(st.akeys)]
            value, txid, n, conf = int(a[2]), pool_txid(int(a[3])), int(a[4]), int(a[5])
            addr, kacct, knw = st.keys[kid][0], st.keys[kid][1], st.keys[kid][3]
            home = kacct == 0 and knw == NW
            if k == 'ua' and not home:
                txid = pool_txid(1000 * nwid(st, knw) + 100 * kacct + int(a[3]))    # a transaction of that group only
            first = ['%d/%s/%d/%d/%d' % (kid, txid, n, value, conf)]
            touch(st, txid)
            if k == 'uA' or home:
                # utxo_add has no account / network parameter: the library decides where the transaction row is
                # filed.  Since fix a9251be it hands the account and network of the key to utxos_update, which then
                # works on that ONE network (before, its loop went over every network of the wallet and refreshed the
                # balances of the other networks too)
                nets = [knw] if home else w.network_list()
                w.utxo_add(addr, value, txid, n, conf)
                touch_log(st)
                facct = 0 if home else filed_account(st, txid, knw)
                mops += u_ops(st, False, nets, facct, None, first)
            else:
                # the documented way to hand over unspent outputs of another account / network
                w.utxos_update(utxos=[{'address': addr, 'script': '', 'confirmations': conf, 'output_n': n,
                                       'txid': txid, 'value': value}], account_id=kacct, networks=knw,
                               rescan_all=False)
                mops += u_ops(st, False, [knw], kacct, None, first)
        elif k in ('st', 'sw'):
            if k == 'st':
                dest, permille, bc, mc = a[1], int(a[2]), a[3] == '1', int(a[4])
                g = pick_group(st, a, 5)
                kw = gkw(g)
                if g is None:
                    g = (NW, w.default_account_id)
                avail = sum(u['value'] for u in w.utxos(min_confirms=mc, **kw))
                amount = max(1000, avail * permille // 1000)
                try:
                    t = w.send_to(dest_addr(st, dest, g), amount, broadcast=bc, min_confirms=mc,
                                  priv_keys=st.privs, **kw)
                    note_tx(st, t, bc)
                finally:
                    refresh_keys(st, mops)
            else:
                dest, bc, mc = a[1], a[2] == '1', int(a[3])
                g = pick_group(st, a, 4)
                kw = gkw(g)
                if g is None:
                    g = (NW, w.default_account_id)
                try:
                    if st.privs:
                        t = w.sweep(dest_addr(st, dest, g), broadcast=False, min_confirms=mc, **kw)
                        t.sign(st.privs)
                        if bc:
                            t.send()
                    else:
                        t = w.sweep(dest_addr(st, dest, g), broadcast=bc, min_confirms=mc, **kw)
                    note_tx(st, t, bc)
                finally:
                    refresh_keys(st, mops)
            err = finish_created(st, t, bc, mops, mc, g)
        elif k == 'sk':
            # send_to(.., input_key_id=..): only the unspent outputs of one key may be selected
            kid = st.akeys[int(a[1]) % len(st.akeys)]
            dest, permille, bc, mc = a[2], int(a[3]), a[4] == '1', int(a[5])
            g = (st.keys[kid][3], st.keys[kid][1])
            kw = gkw(g)
            avail = sum(u['value'] for u in w.utxos(min_confirms=mc, key_id=kid, **kw))
            if not avail:
                err = 'skip'
            else:
                amount = max(1000, avail * permille // 1000)
                try:
                    t = w.send_to(dest_addr(st, dest, g), amount, input_key_id=kid, broadcast=bc, min_confirms=mc,
                                  priv_keys=st.privs, **kw)
                    note_tx(st, t, bc)
                finally:
                    refresh_keys(st, mops)
                err = finish_created(st, t, bc, mops, mc, g)
        elif k == 'si':
            # send(.., input_arr=[one unspent output chosen by the caller], fee=..)
            dest, permille, bc = a[2], int(a[3]), a[4] == '1'
            g = (NW, w.default_account_id)
            ul = sorted(w.utxos(min_confirms=0), key=lambda u: (u['txid'], u['output_n']))
            if not ul:
                err = 'skip'
            else:
                u = ul[int(a[1]) % len(ul)]
                fee = 2000
                amount = max(600, min(u['value'] - fee, u['value'] * permille // 1000))
                if amount + fee > u['value']:
                    err = 'skip'
                else:
                    try:
                        t = w.send([(dest_addr(st, dest, g), amount)], input_arr=[(u['txid'], u['output_n'])], fee=fee,
                                   broadcast=bc, priv_keys=st.privs)
                        note_tx(st, t, bc)
                    finally:
                        refresh_keys(st, mops)
                    err = finish_created(st, t, bc, mops, 0, g)
        elif k in ('bc', 'ps'):
            if not st.created:
                err = 'skip'
            else:
                t = st.created[int(a[1]) % len(st.created)]
                if k == 'bc':
                    if st.privs and not t.verified:
                        t.sign(st.privs)                  # a transaction imported from the cosigner's wallet
                    t.send()
                    note_tx(st, t, True)
                    snap(st)
                    if t.pushed and not t.error:
                        store_op(st, t, True, mops)
                    else:
                        err = 'notpushed:' + str(t.error)
                else:
                    t.store()
                    note_tx(st, t, False)
                    snap(st)
                    store_op(st, t, False, mops)
        elif k in ('im', 'iM', 'iw'):
            # transaction_import has no account parameter (the result belongs to the default account): 'im' takes
            # a created transaction of the default account, 'iM' any, 'iw' one created by another wallet of the file
            if k == 'iw':
                pool = [t for x in st.wallets if x is not st for t in x.created if t.network.name == NW]
            else:
                pool = [t for t in st.created if t.network.name == NW and
                        (k == 'iM' or t.account_id == w.default_account_id)]
            if not pool:
                err = 'skip'
            else:
                t = pool[int(a[1]) % len(pool)]
                rt = w.transaction_import(t.to_transaction())
                refresh_keys(st, mops)
                st.created.append(rt)
        elif k == 'ld':
            ids = sorted(st.txids)
            t = w.transaction(ids[int(a[1]) % len(ids)]) if ids else None
            if t is None:
                err = 'skip'
            else:
                st.created.append(t)
        elif k in ('de', 'dl'):
            # de: the i-th known transaction id; dl: the i-th most recent transaction this wallet created / imported
            ids = sorted(st.txids) if k == 'de' else [t.txid for t in reversed(st.created)]
            if not ids:
                err = 'skip'
            else:
                txid = ids[int(a[1]) % len(ids)]
                present = w.transaction(txid) is not None
                if present and len(st.wallets) > 1 and not st.shared_delete and held_elsewhere(st, txid):
                    err = 'skip:shared'
                else:
                    try:
                        w.transaction_delete(txid)
                        touch(st, txid)
                        snap(st)
                        mops.append('D:' + txid)
                    except WalletError as e:
                        err = 'ERR ' + ('absent' if not present else str(e)[:60])
                    except Exception as e:
                        if present and type(e).__name__ == 'MultipleResultsFound':
                            # delete() found the rows of two wallets: nothing was changed
                            st.w.session.rollback()
                            err = 'ERR refused MultipleResultsFound'
                            mops.append('D:' + txid)
                        else:
                            raise
        elif k == 'ro':
            st.w = None
            st.created = []
            del w
            gc.collect()
            st.w = open_wallet(st)
            snap(st)
            mops.append('R')
        else:
            err = 'badop'
    except WalletError as e:
        err = 'WalletError ' + str(e)[:80]
    pre = []
    refresh_keys(st, pre)
    return pre + mops if k in ('nk', 'gk', 'na', 'nn', 'ik', 'ip') else mops + pre, err


def seed_of(hid, how='main'):
    seed = hashlib.sha256(('c08-key-' + hid).encode()).digest()
    return seed if how != 'o' else hashlib.sha256(seed + b'other').digest()


def create_wallet(sh, kind, hid, how):
    """A wallet in the file sh.uri.  how: main | s (same keys, second name) | o (unrelated seed) | c (cosigner)."""
    st = St()
    st.wid = len(sh.wallets)
    st.name = 'w' if st.wid == 0 else 'w%d' % st.wid
    st.uri, st.txids, st.nws, st.ext, st.wallets = sh.uri, sh.txids, sh.nws, sh.ext, sh.wallets
    st.fork, st.shared_delete = sh.fork, sh.shared_delete
    st.privs = None
    wt = WT[kind]
    seed = seed_of(hid, how)
    if kind.startswith('ms'):
        # 2-of-2 / 2-of-3: this wallet holds one private key, a cosigner's private key is passed when signing
        k1 = HDKey.from_seed(seed, network=NW, witness_type=wt, multisig=True)
        k2 = HDKey.from_seed(hashlib.sha256(seed).digest(), network=NW, witness_type=wt, multisig=True)
        if how == 'c':
            keys, st.privs = [k1.public_master(multisig=True), k2], [k1]
        else:
            keys, st.privs = [k1, k2.public_master(multisig=True)], [k2]
        if kind.startswith('ms3'):
            k3 = HDKey.from_seed(hashlib.sha256(seed + b'third').digest(), network=NW, witness_type=wt, multisig=True)
            keys.append(k3.public_master(multisig=True))
        w = Wallet.create(st.name, keys=keys, sigs_required=2, network=NW, witness_type=wt, db_uri=st.uri)
        w.new_key()
    elif kind == 'single':
        w = Wallet.create(st.name, keys=HDKey.from_seed(seed, network=NW, witness_type=wt, key_type='single'),
                          scheme='single', network=NW, witness_type=wt, db_uri=st.uri)
    elif kind in ('addr', 'addrl'):
        # a single-key wallet made from an address string: the key row has neither private nor public key
        w = Wallet.create(st.name, keys=HDKey.from_seed(seed, network=NW, witness_type=wt, key_type='single').address(),
                          network=NW, db_uri=st.uri)
    elif kind == 'singlep':
        w = Wallet.create(st.name, keys=HDKey.from_seed(seed, network=NW, witness_type=wt, key_type='single').public(),
                          scheme='single', network=NW, witness_type=wt, db_uri=st.uri)
    elif kind == 'hdw':
        # watch-only HD wallet from the account's extended public key
        w = Wallet.create(st.name, keys=HDKey.from_seed(seed, network=NW, witness_type=wt).public_master(witness_type=wt),
                          network=NW, witness_type=wt, db_uri=st.uri)
    elif 'a' in sh.flags:
        # the wallet's default account is not 0 from the start
        w = Wallet.create(st.name, keys=HDKey.from_seed(seed, network=NW, witness_type=wt), network=NW,
                          witness_type=wt, account_id=1 + seed[0] % 2, db_uri=st.uri)
    else:
        w = Wallet.create(st.name, keys=HDKey.from_seed(seed, network=NW, witness_type=wt), network=NW,
                          witness_type=wt, db_uri=st.uri)
        if 'd' in sh.flags:
            # the default account is changed (and persisted) after a second account was opened; the calls that follow
            # go through a Wallet object opened afterwards
            w.new_account()
            w.default_account_id = 1
            del w
            gc.collect()
            w = Wallet(st.name, db_uri=st.uri)
    st.w = w
    st.keys, st.addr, st.akeys, st.created, st.touched = {}, {}, [], [], set()
    st.fixed, st.hid, st.kind = {}, hid, kind
    st.pre, st.want_pre = None, False
    sh.wallets.append(st)
    init = ['W:%d:0:%d:%d' % (st.wid, w.default_account_id, 1 if w.scheme == 'bip32' else 0)]
    refresh_keys(st, init)
    return st, init


def run_history(kindf, hid, ops):
    kind, _, flags = kindf.partition('+')
    sh = St()
    fn = os.path.join(os.getcwd(), 'c08_%d_%s.db' % (os.getpid(), hid))
    for f in (fn,):
        if os.path.exists(f):
            os.remove(f)
    sh.uri = 'sqlite:///' + fn
    sh.txids, sh.nws, sh.wallets = set(), [NW], []
    sh.fork, sh.shared_delete = 'f' in flags, 'x' in flags
    sh.flags = flags
    MULTI_OUT[0] = 'm' in flags
    ADDRN.clear()
    random.seed(int(hashlib.sha256(('c08' + hid).encode()).hexdigest()[:12], 16))
    wt = WT[kind]
    sh.ext = {n: HDKey.from_seed(b'\x07' * 32, network=n, witness_type=wt).address() for n in (NW, NW2)}
    st, init = create_wallet(sh, kind, hid, 'main')
    w0 = st.w
    res = {'kind': kindf, 'hid': hid, 'acct': st.w.default_account_id, 'bip32': st.w.scheme == 'bip32',
           'steps': [{'op': 'create', 'wid': 0, 'mops': init, 'err': None, 'obs': observe(st, False)}]}
    last = 0             # the wallet the model speaks about

    def sw(wid):
        nonlocal last
        r = ['@:%d' % wid] if wid != last else []
        last = wid
        return r

    for i, tok0 in enumerate(ops):
        quiet = tok0.endswith('!')
        tok = tok0[:-1] if quiet else tok0
        a = tok.split(':')
        try:
            if a[0] == 'w':
                # the following operations go to another wallet of the file
                st = sh.wallets[int(a[1]) % len(sh.wallets)]
                res['steps'].append({'op': tok0, 'wid': st.wid, 'mops': [], 'err': None, 'obs': 'skip'})
                continue
            if a[0] == 'nw':
                if len(sh.wallets) >= MAX_WALLETS:
                    res['steps'].append({'op': tok0, 'wid': st.wid, 'mops': [], 'err': 'skip', 'obs': 'skip'})
                    continue
                st, mops = create_wallet(sh, kind, hid, a[1] if len(a) > 1 else 's')
                last = st.wid
                err = None
            else:
                mops, err = do_op(st, tok, quiet)
                mops = sw(st.wid) + mops
            if quiet:
                res['steps'].append({'op': tok0, 'wid': st.wid, 'mops': mops, 'err': err, 'obs': 'skip'})
                continue
            full = tok == 'ro' or i == len(ops) - 1
            res['steps'].append({'op': tok0, 'wid': st.wid, 'mops': mops, 'err': err, 'obs': observe(st, full)})
            for x in sh.wallets:
                if x is not st:
                    res['steps'].append({'op': '@obs', 'wid': x.wid, 'mops': sw(x.wid), 'err': None,
                                         'obs': observe(x, False)})
        except Exception as e:
            import traceback
            res['steps'].append({'op': tok0, 'wid': st.wid, 'mops': [], 'err': 'CRASH %s: %s' % (type(e).__name__, str(e)[:200]),
                                 'obs': None, 'tb': traceback.format_exc()[-600:]})
            break
    for x in sh.wallets:
        x.w = None
        x.created = []
    st = None
    del w0
    gc.collect()
    try:
        os.remove(fn)
    except OSError:
        pass
    return res


def main():
    out = sys.stdout
    for line in sys.stdin:
        t = line.strip().split(' ')
        if len(t) == 4 and t[0] == 'hist':
            try:
                r = run_history(t[1], t[2], [x for x in t[3].split(',') if x and x != '-'])
            except Exception as e:
                import traceback
                r = {'crash': '%s: %s' % (type(e).__name__, str(e)[:300]), 'tb': traceback.format_exc()[-800:]}
            out.write(json.dumps(r, sort_keys=True) + '\n')
        else:
            out.write('"BADREQ"\n')
        out.flush()


if __name__ == '__main__':
    main()
