"""Implementation adapter for C08: executes one abstract wallet history per request line against a real Wallet
(public API only) on a fresh sqlite file in the cwd and reports, per operation, the concretised model operations
(environment inputs: provider answers, selected inputs, produced transaction data) and the observations.

request : hist <kind> <hid> <op>,<op>,...          kind: hd | hdl | hdp | single | ms
answer  : one JSON line  {"steps": [{"op":..,"mops":[..],"err":..,"obs":{..}}, ...], "final": {...}}
"""
import sys, os, json, logging, hashlib, random, gc
sys.path.insert(0, os.path.dirname(os.path.abspath(__file__)))
logging.disable(logging.CRITICAL)
import bitcoinlib.wallets as BW
from bitcoinlib.wallets import Wallet, WalletError
from bitcoinlib.keys import HDKey
from bitcoinlib.services.services import Service as RealService

NW = 'bitcoinlib_test'
LOG = []


class RecService(RealService):
    """The real Service (bitcoinlib_test provider), recording what the provider answered."""

    def getutxos(self, address, after_txid='', limit=20):
        r = RealService.getutxos(self, address, after_txid, limit)
        LOG.append((address, r))
        return r


BW.Service = RecService

WT = {'hd': 'segwit', 'hdl': 'legacy', 'hdp': 'p2sh-segwit', 'single': 'segwit', 'ms': 'segwit'}


def pool_txid(slot):
    return hashlib.sha256(b'c08-pool-%d' % slot).hexdigest()


class St:
    pass


def open_wallet(st):
    return Wallet(st.name, db_uri=st.uri)


def keyrows(w):
    return [(k.id, k.address, k.account_id, k.depth, k.network_name, k.key_type) for k in w.keys()]


def refresh_keys(st, mops):
    """New DbKey rows since the last look become K ops; keeps the address -> key id map."""
    for (kid, addr, acct, depth, nw, kt) in keyrows(st.w):
        if kid not in st.keys:
            st.keys[kid] = (addr, acct, depth)
            st.addr[addr] = kid
            mops.append('K:%d:0:%d:%d' % (kid, acct, depth))
            if depth == st.w.key_depth and (kt != 'multisig' or True):
                st.akeys.append(kid)


def sp(v):
    return '-' if v is None else ('1' if v else '0')


def tx_tokens(st, t):
    ins = ','.join('%d/%s/%d/%d/%s' % (i.index_n, i.prev_txid.hex(), i.output_n_int, i.value or 0,
                                       st.addr.get(i.address, '-')) for i in t.inputs) or '-'
    outs = ','.join('%d/%d/%s/%s' % (o.output_n, o.value, st.addr.get(o.address, '-'), sp(o.spent))
                    for o in t.outputs) or '-'
    raw = t.rawtx.hex() if t.rawtx else '-'
    return ins, outs, raw


def tx_view(st, t, full):
    """Same text the model driver prints for a transaction."""
    ins = ','.join('%d/%s/%d/%d' % (i.index_n, i.prev_txid.hex(), i.output_n_int, i.value or 0)
                   for i in sorted(t.inputs, key=lambda i: i.index_n))
    outs = ','.join('%d/%d/%s/%s' % (o.output_n, o.value, st.addr.get(o.address, '-'), '1' if o.spent else '0')
                    for o in sorted(t.outputs, key=lambda o: o.output_n))
    s = '%s~%d~%s~%s' % (t.txid, t.confirmations or 0, ins, outs)
    if full:
        s += '~' + (t.rawtx.hex() if t.rawtx else '-')
    return s


def txs_view(st, w, full):
    r = []
    for txid in sorted(st.txids):
        t = w.transaction(txid)
        if t is not None:
            r.append(tx_view(st, t, full))
    return ','.join(sorted(r))


def utxos_view(ul):
    return ','.join(sorted('%s/%d/%d/%d/%d' % (u['txid'], u['output_n'], u['value'], u['key_id'], u['confirmations'])
                           for u in ul))


def kb_view(d):
    return ','.join('%d:%d' % (k, d[k]) for k in sorted(d))


def observe(st, full):
    o = {}
    w2 = open_wallet(st)
    o['kbpre'] = kb_view({k.id: k.balance for k in w2.keys()})
    del w2
    w = st.w
    b = w.balance()
    o['bal'] = str(int(b))
    o['bal_exact'] = (b == int(b))
    ul = w.utxos()
    o['utxos'] = utxos_view(ul)
    o['usum'] = str(sum(u['value'] for u in ul))
    orm = {k.id: k.balance for k in w.keys()}
    o['kb_orm'] = kb_view(orm)
    o['kb_obj'] = kb_view({kid: w.key(kid).balance() for kid in orm})
    o['txs'] = txs_view(st, w, full)
    w3 = open_wallet(st)
    o['kb'] = kb_view({k.id: k.balance for k in w3.keys()})
    if full:
        o['bal2'] = str(int(w3.balance()))
        o['utxos2'] = utxos_view(w3.utxos())
        o['kb2'] = kb_view({k.id: k.balance for k in w3.keys()})
        o['txs2'] = txs_view(st, w3, True)
    del w3
    return o


def dest_addr(st, d):
    if d == 'e':
        return st.ext
    return st.keys[st.akeys[int(d[1:]) % len(st.akeys)]][0]


def created_ops(st, t, mops, minconf, check_sel=True):
    if check_sel:
        sel = ','.join('%s/%d' % (i.prev_txid.hex(), i.output_n_int) for i in t.inputs) or '-'
        mops.append('C:0:%d:%d:%s' % (t.account_id, minconf, sel))


def store_op(st, t, sent, mops):
    ins, outs, raw = tx_tokens(st, t)
    st.txids.add(t.txid)
    mops.append('T:%d:%s:0:%d:%d:%s:%s:%s' % (1 if sent else 0, t.txid, t.account_id, t.confirmations or 0,
                                              ins, outs, raw))


def do_op(st, tok):
    w = st.w
    a = tok.split(':')
    k = a[0]
    mops = []
    err = None
    del LOG[:]
    try:
        if k == 'nk':
            w.new_key()
        elif k == 'gk':
            w.get_key()
        elif k in ('uu', 'un', 'uk'):
            kid = None
            if k == 'uk':
                kid = st.akeys[int(a[1]) % len(st.akeys)]
                w.utxos_update(key_id=kid)
            elif k == 'uu':
                w.utxos_update()
            else:
                w.utxos_update(rescan_all=False)
            refresh_keys(st, mops)
            us = []
            for (addr, r) in LOG:
                for u in r:
                    kk = kid if kid is not None else st.addr[u['address']]
                    st.txids.add(u['txid'])
                    us.append('%d/%s/%d/%d/%d' % (kk, u['txid'], u['output_n'], u['value'], u['confirmations']))
            mops.append('U:%d:0:0:%s:%s' % (1 if k == 'uu' else 0, '-' if kid is None else str(kid),
                                            ','.join(us) or '-'))
        elif k == 'ua':
            kid = st.akeys[int(a[1]) % len(st.akeys)]
            value, txid, n, conf = int(a[2]), pool_txid(int(a[3])), int(a[4]), int(a[5])
            w.utxo_add(st.keys[kid][0], value, txid, n, conf)
            st.txids.add(txid)
            mops.append('U:0:0:0:-:%d/%s/%d/%d/%d' % (kid, txid, n, value, conf))
        elif k in ('st', 'sw'):
            if k == 'st':
                dest, permille, bc, mc = a[1], int(a[2]), a[3] == '1', int(a[4])
                avail = sum(u['value'] for u in w.utxos(min_confirms=mc))
                amount = max(1000, avail * permille // 1000)
                nk0 = len(st.keys)
                try:
                    t = w.send_to(dest_addr(st, dest), amount, broadcast=bc, min_confirms=mc, priv_keys=st.privs)
                finally:
                    refresh_keys(st, mops)
            else:
                dest, bc, mc = a[1], a[2] == '1', int(a[3])
                try:
                    if st.privs:
                        t = w.sweep(dest_addr(st, dest), broadcast=False, min_confirms=mc)
                        t.sign(st.privs)
                        if bc:
                            t.send()
                    else:
                        t = w.sweep(dest_addr(st, dest), broadcast=bc, min_confirms=mc)
                finally:
                    refresh_keys(st, mops)
            created_ops(st, t, mops, mc)
            st.created.append(t)
            if bc:
                if t.pushed:
                    store_op(st, t, True, mops)
                else:
                    err = 'notpushed:' + str(t.error)
        elif k in ('bc', 'ps'):
            if not st.created:
                err = 'skip'
            else:
                t = st.created[int(a[1]) % len(st.created)]
                if k == 'bc':
                    t.send()
                    if t.pushed and not t.error:
                        store_op(st, t, True, mops)
                    else:
                        err = 'notpushed:' + str(t.error)
                else:
                    t.store()
                    store_op(st, t, False, mops)
        elif k == 'im':
            if not st.created:
                err = 'skip'
            else:
                t = st.created[int(a[1]) % len(st.created)]
                rt = w.transaction_import(t.to_transaction())
                refresh_keys(st, mops)
                st.created.append(rt)
        elif k == 'ld':
            ids = sorted(st.txids)
            t = w.transaction(ids[int(a[1]) % len(ids)]) if ids else None
            if t is None:
                err = 'skip'
            else:
                st.created.append(t)
        elif k == 'de':
            ids = sorted(st.txids)
            if not ids:
                err = 'skip'
            else:
                txid = ids[int(a[1]) % len(ids)]
                present = w.transaction(txid) is not None
                try:
                    w.transaction_delete(txid)
                    mops.append('D:' + txid)
                except WalletError as e:
                    err = 'ERR ' + ('absent' if not present else str(e)[:60])
        elif k == 'ro':
            st.w = None
            st.created = []
            del w
            gc.collect()
            st.w = open_wallet(st)
            mops.append('R')
        else:
            err = 'badop'
    except WalletError as e:
        err = 'WalletError ' + str(e)[:80]
    pre = []
    refresh_keys(st, pre)
    return pre + mops if k in ('nk', 'gk') else mops + pre, err


def run_history(kind, hid, ops):
    st = St()
    st.name = 'w'
    st.privs = None
    fn = os.path.join(os.getcwd(), 'c08_%d_%s.db' % (os.getpid(), hid))
    for f in (fn,):
        if os.path.exists(f):
            os.remove(f)
    st.uri = 'sqlite:///' + fn
    random.seed(int(hashlib.sha256(('c08' + hid).encode()).hexdigest()[:12], 16))
    wt = WT[kind]
    seed = hashlib.sha256(('c08-key-' + hid).encode()).digest()
    if kind == 'ms':
        # 2-of-2: this wallet holds one private key, the cosigner's private key is passed when signing
        k1 = HDKey.from_seed(seed, network=NW, witness_type=wt, multisig=True)
        k2 = HDKey.from_seed(hashlib.sha256(seed).digest(), network=NW, witness_type=wt, multisig=True)
        w = Wallet.create(st.name, keys=[k1, k2.public_master(multisig=True)], sigs_required=2, network=NW,
                          witness_type=wt, db_uri=st.uri)
        st.privs = [k2]
        w.new_key()
    elif kind == 'single':
        w = Wallet.create(st.name, keys=HDKey.from_seed(seed, network=NW, witness_type=wt, key_type='single'),
                          scheme='single', network=NW, witness_type=wt, db_uri=st.uri)
    else:
        w = Wallet.create(st.name, keys=HDKey.from_seed(seed, network=NW, witness_type=wt), network=NW,
                          witness_type=wt, db_uri=st.uri)
    st.w = w
    st.keys, st.addr, st.akeys, st.txids, st.created = {}, {}, [], set(), []
    st.ext = HDKey.from_seed(b'\x07' * 32, network=NW, witness_type=wt).address()
    init = []
    refresh_keys(st, init)
    res = {'kind': kind, 'hid': hid, 'acct': w.default_account_id, 'bip32': w.scheme == 'bip32',
           'steps': [{'op': 'create', 'mops': init, 'err': None, 'obs': observe(st, False)}]}
    for i, tok in enumerate(ops):
        try:
            mops, err = do_op(st, tok)
            ob = observe(st, tok == 'ro' or i == len(ops) - 1)
            res['steps'].append({'op': tok, 'mops': mops, 'err': err, 'obs': ob})
        except Exception as e:
            import traceback
            res['steps'].append({'op': tok, 'mops': [], 'err': 'CRASH %s: %s' % (type(e).__name__, str(e)[:200]),
                                 'obs': None, 'tb': traceback.format_exc()[-600:]})
            break
    st.w = None
    st.created = []
    del w
    gc.collect()
    try:
        os.remove(fn)
    except OSError:
        pass
    return res


def main():
    out = sys.stdout
    for line in sys.stdin:
        t = line.strip().split(' ')
        if len(t) == 4 and t[0] == 'hist':
            try:
                r = run_history(t[1], t[2], [x for x in t[3].split(',') if x and x != '-'])
            except Exception as e:
                import traceback
                r = {'crash': '%s: %s' % (type(e).__name__, str(e)[:300]), 'tb': traceback.format_exc()[-800:]}
            out.write(json.dumps(r, sort_keys=True) + '\n')
        else:
            out.write('"BADREQ"\n')
        out.flush()


if __name__ == '__main__':
    main()
