"""Implementation adapter for C07: answers the request lines of harness/props/c07.py from REAL wallets of the
repository (sqlite files in the cwd = run directory), public API only:
Wallet.create / utxos_update / select_inputs / transaction_create / send / sweep, WalletTransaction.bumpfee,
Transaction.calculate_fee.  No network: bitcoinlib.wallets.Service is replaced by a stub whose estimatefee
answers come from the request; random.randint and numpy.random.dirichlet return the draws named in the request.

Answer format:   <part compared with the model> | <extra facts for the property-level oracle>
"""
import sys, os, logging, hashlib, shutil, json, random
sys.path.insert(0, os.path.dirname(os.path.abspath(__file__)))
from common_impl import serve
logging.disable(logging.CRITICAL)
import numpy as np
import bitcoinlib.wallets as bw
from bitcoinlib.wallets import Wallet, WalletError
from bitcoinlib.transactions import Transaction, TransactionError, Output, Input
from bitcoinlib.keys import HDKey, Key, Address
from bitcoinlib.values import Value
from bitcoinlib.db import DbTransactionOutput, DbTransaction

# the sqlite files of the cases are scratch copies: no fsync per commit (durability is of no interest here; utxos_update
# commits once per listed output)
from sqlalchemy import event as _sa_event
from sqlalchemy.engine import Engine as _SaEngine


@_sa_event.listens_for(_SaEngine, 'connect')
def _no_fsync(dbapi_con, _rec):
    try:
        cur = dbapi_con.cursor()
        cur.execute('PRAGMA synchronous=OFF')
        cur.close()
    except Exception:
        pass


CWD = os.getcwd()
SIDE = {}          # request line -> state reported to the harness for building the model request (bump cases)


# ------------------------------------------------------------------ environment stubs
class State:
    fpks = []
    r1 = 0
    r2 = 0
    weights = []
    accept = False      # history requests: the provider accepts broadcasts and answers with the transaction id
    listing = []        # history requests: what the provider lists as unspent (one answer per utxos_update round)
    bcount = 800000


class StubService:
    def __init__(self, *a, **k):
        self.errors = {}
        self.results = {}
        self.complete = True
        self.resultcount = 1

    def estimatefee(self, blocks=3, priority=''):
        if len(State.fpks) > 1:
            return State.fpks.pop(0)
        return State.fpks[0]

    def blockcount(self):
        return State.bcount

    def sendrawtransaction(self, raw):
        if not State.accept:
            return False
        return {'txid': txid_from_raw(raw if isinstance(raw, str) else bytes(raw).hex())}

    def getutxos(self, address, after_txid='', limit=20):
        # one Service object is made per utxos_update round (per account): its first question is answered with the
        # whole listing of that round, in listing order (every entry names its own address)
        if getattr(self, '_served', False):
            return []
        self._served = True
        return [dict(u) for u in State.listing]


def txid_from_raw(h):
    """transaction id of a serialised transaction (witness data stripped), computed here and not by the library"""
    b = bytes.fromhex(h)
    p = [4]

    def rd(n):
        x = b[p[0]:p[0] + n]
        p[0] += n
        return x

    def vi():
        f = rd(1)[0]
        if f < 0xfd:
            return f
        return int.from_bytes(rd({0xfd: 2, 0xfe: 4, 0xff: 8}[f]), 'little')
    segwit = b[4] == 0 and b[5] == 1
    if segwit:
        p[0] = 6
    start = p[0]
    for _ in range(vi()):
        rd(36)
        rd(vi())
        rd(4)
    for _ in range(vi()):
        rd(8)
        rd(vi())
    body = b[start:p[0]]
    return hashlib.sha256(hashlib.sha256(b[:4] + body + b[-4:]).digest()).digest()[::-1].hex()


bw.Service = StubService
_real_randint = random.randint


def _randint(a, b):
    if (a, b) in ((2, 5), (1, 3)):
        return a + State.r1 % (b - a + 1)
    if (a, b) == (3, 4):
        return a + State.r2 % (b - a + 1)
    return _real_randint(a, b)


random.randint = _randint


_real_shuffle = random.shuffle


def _shuffle(lst, *a, **k):
    """environment stub for random_output_order: positions are shuffled by the real generator; outputs to change keys keep
    their key order among themselves, so the wallet stores its own output rows of a broadcast transaction in change-key
    order (the order the model inserts them in; it decides ties of later selections)"""
    ch = [o for o in lst if isinstance(o, Output) and o.change]
    _real_shuffle(lst, *a, **k)
    if len(ch) > 1:
        it = iter(ch)
        for i, o in enumerate(lst):
            if isinstance(o, Output) and o.change:
                lst[i] = next(it)


random.shuffle = _shuffle


def _dirichlet(alpha, size=None):
    k = len(alpha)
    w = (list(State.weights) + [1] * k)[:k]
    s = sum(w)
    return np.array([[wi / s for wi in w]])


np.random.dirichlet = _dirichlet


def set_oracle(tok):
    a, b, c, d, w = tok.split(',')
    State.fpks = [int(a), int(b)]
    State.r1, State.r2 = int(c), int(d)
    State.weights = [int(x) for x in w.split('/')] if w != '-' else []


# ------------------------------------------------------------------ wallets
WT = {'L': 'legacy', 'S': 'segwit', 'P': 'p2sh-segwit'}
TEMPLATES = {}


def template(net, wk):
    """one template wallet per (network, kind); every case works on a private copy of its sqlite file"""
    key = (net, wk)
    if key in TEMPLATES:
        return TEMPLATES[key]
    w_, ms, nk, nr, single = wk.split(',')
    name = 'tmpl_%s_%s' % (net, wk.replace(',', '_'))
    path = os.path.join(CWD, name + '.db')
    uri = 'sqlite:///' + path
    wt = WT[w_]
    if os.path.exists(path) and os.path.exists(path + '.json'):
        TEMPLATES[key] = (name, path, json.load(open(path + '.json')))
        return TEMPLATES[key]
    if os.path.exists(path):
        os.remove(path)
    if ms == '1':
        ks = [HDKey.from_seed(bytes([i + 3]) * 32, network=net, witness_type=wt) for i in range(int(nk))]
        keys = [ks[0]] + ks[1:int(nr)] + [k.public_master(multisig=True, witness_type=wt) for k in ks[int(nr):]]
        w = Wallet.create(name, keys=keys, sigs_required=int(nr), cosigner_id=0, network=net, witness_type=wt, db_uri=uri)
    elif single == '1':
        w = Wallet.create(name, keys=Key(b'\x02' * 32, network=net), scheme='single', network=net, witness_type=wt,
                          db_uri=uri)
    else:
        w = Wallet.create(name, keys=HDKey.from_seed(b'\x01' * 32, network=net, witness_type=wt), network=net, witness_type=wt, db_uri=uri)
    addrs = [w.get_key().address]
    if single != '1':
        addrs.append(w.new_key().address)
        w.get_keys(change=1, number_of_keys=5)      # change keys c0..c4 exist already (saves derivations per case)
    w.session.close()
    json.dump(addrs, open(path + '.json', 'w'))
    TEMPLATES[key] = (name, path, addrs)
    return TEMPLATES[key]


def txid_of(i):
    return hashlib.sha256(b'c07-%d' % i).hexdigest()


def open_case(net, wk, view_tok):
    name, path, addrs = template(net, wk)
    cpath = os.path.join(CWD, 'case_%d.db' % os.getpid())
    shutil.copyfile(path, cpath)
    w = Wallet(name, db_uri='sqlite:///' + cpath)
    view = []
    if view_tok != '-':
        for s in view_tok.split(';'):
            i, v, c, sp = s.split(':')
            view.append((int(i), int(v), int(c), sp == '1'))
    if view:
        w.utxos_update(utxos=[dict(address=addrs[i % len(addrs)], script='', confirmations=c, output_n=i % 4,
                                   txid=txid_of(i), value=v) for (i, v, c, sp) in view])
        spent = [i for (i, v, c, sp) in view if sp]
        if spent:
            # harness set-up only: rows of outputs that were already spent
            for i in spent:
                tx = w.session.query(DbTransaction).filter_by(wallet_id=w.wallet_id, txid=bytes.fromhex(txid_of(i))).first()
                w.session.query(DbTransactionOutput).filter_by(transaction_id=tx.id, output_n=i % 4).update(
                    {DbTransactionOutput.spent: True})
            w.session.commit()
    ids = {(txid_of(i), i % 4): i for (i, v, c, sp) in view}
    return w, ids


def script_to_address(script, net):
    if len(script) == 25 and script[:3] == b'\x76\xa9\x14':
        return Address(hashed_data=script[3:23], script_type='p2pkh', encoding='base58', network=net).address
    if len(script) == 23 and script[:2] == b'\xa9\x14':
        return Address(hashed_data=script[2:22], script_type='p2sh', encoding='base58', network=net).address
    if len(script) == 22 and script[:2] == b'\x00\x14':
        return Address(hashed_data=script[2:], script_type='p2wpkh', encoding='bech32', network=net).address
    if len(script) == 34 and script[:2] == b'\x00\x20':
        return Address(hashed_data=script[2:], script_type='p2wsh', encoding='bech32', network=net).address
    raise ValueError('script')


def recipients(tok, net):
    out = []
    if tok == '-':
        return out
    for s in tok.split(';'):
        h, a, c = s.split(':')[:3]
        form = s.split(':')[3] if s.count(':') >= 3 else ''
        addr = script_to_address(bytes.fromhex(h), net)
        if form:
            # the amount in another accepted form: s/v = value string / Value object in the (address, amount) tuple,
            # S/V/I = value string / Value object / int in an Output object, f = float holding the whole number
            how, text = form[0], bytes.fromhex(form[1:]).decode('utf8')
            if how == 's':
                out.append((addr, text))
            elif how == 'v':
                out.append((addr, Value(text, network=net)))
            elif how == 'f':
                out.append((addr, float(int(a))))
            elif how == 'S':
                out.append(Output(text, address=addr, network=net))
            elif how == 'V':
                out.append(Output(Value(text, network=net), address=addr, network=net))
            elif how == 'I':
                out.append(Output(int(a), address=addr, network=net))
            else:
                raise ValueError('amount form')
        elif c == '1':
            out.append(Output(int(a), address=addr, change=True, network=net))
        else:
            out.append((addr, int(a)))
    return out


ERRS = [("Input array contains", 'maxutxos'), ("No unspent transaction outputs found", 'noutxos'),
        ("Not enough unspent transaction outputs found", 'notenough'), ("not found in this wallet", 'unknownutxo'),
        ("Total amount of outputs is greater", 'outgtin'), ("Not enough funds to create multiple change", 'multichange'),
        ("Sum of inputs values is not equal", 'conserve'), ("is lower then minimal network fee", 'feelow'),
        ("is higher then maximum network fee", 'feehigh'), ("Cannot sweep wallet, no UTXO", 'sweepnone'),
        ("Amount to send is smaller then dust", 'sweepdust'), ("Total amount of outputs does not match", 'sweepmismatch'),
        ("Output value < 0 not allowed", 'badvalue'), ("Current transaction fee is zero", 'bumpzerofee'),
        ("Fee cannot be less than minimal required fee", 'bumpfeelow'), ("Extra fee cannot be less", 'bumpextralow'),
        ("Not enough unspent outputs to bump", 'bumpnochange'), ("Not enough unspent inputs found", 'bumpnoinput')]


def err_token(e):
    m = str(e)
    if isinstance(e, OverflowError):
        return 'ERR badvalue'
    for pat, tok in ERRS:
        # "Extra fee cannot be less" must not be taken for "Fee cannot be less"
        if pat in m and not (tok == 'bumpfeelow' and m.startswith('Extra')):
            return 'ERR ' + tok
    return 'ERR other:%s:%s' % (type(e).__name__, m[:60].replace(' ', '_'))


def key_scripts(w, net):
    """lock scripts of this wallet's change keys (all keys for a single-key wallet), and of its other keys"""
    ch, oth = [], []
    for k in w.keys(network=net):
        try:
            s = Output(0, address=k.address, network=net).lock_script.hex()
        except Exception:
            continue
        if w.scheme != 'single' and k.depth != w.key_depth:
            continue
        (ch if (k.change == 1 or w.scheme == 'single') else oth).append(s)
    return ch, oth


def outs_tok(t, w, net):
    ch, oth = key_scripts(w, net)
    r = []
    for o in t.outputs:
        s = bytes(o.lock_script).hex()
        if o.change and s in ch and w.scheme != 'single':
            d = 'c%d' % ch.index(s)
        elif o.change and s in ch:
            d = 'c0'
        elif o.change and s in oth:
            d = 'c-1'
        else:
            d = 's' + s
        r.append('%s:%d:%d' % (d, int(o.value), 1 if o.change else 0))
    return ';'.join(r) if r else '-'


def ins_ids(t, ids):
    return [ids.get((i.prev_txid.hex(), i.output_n_int), -1) for i in t.inputs]


def describe(t, w, net, ids, with_vsize=True):
    ii = ins_ids(t, ids)
    main = 'OK fee=%d change=%d vsize=%s in=%s out=%s' % (
        t.fee, t.change, ('%d' % t.vsize) if with_vsize else '-', ','.join(str(x) for x in ii) if ii else '-',
        outs_tok(t, w, net))
    try:
        raw = t.raw_hex()
    except Exception as e:
        raw = 'ERR'
    ch, oth = key_scripts(w, net)
    extra = 'raw=%s fpk=%s vsize=%d ver=%d wchange=%s invals=%s' % (
        raw, t.fee_per_kb, t.vsize or 0, 1 if t.verified else 0, ','.join(ch) or '-',
        ','.join(str(int(i.value)) for i in t.inputs) or '-')
    return main + ' | ' + extra


def fee_arg(tok):
    if tok == 'none':
        return None
    if tok == 'named':
        return 'low'
    return int(tok[1:])


def input_arr(tok):
    if tok == 'N':
        return None
    if tok == '-':
        return []
    return [(txid_of(int(i)), int(i) % 4) for i in tok.split(',')]


# ------------------------------------------------------------------ histories on one wallet
# hist <net> <wk> <pub> <bcount> <op> <op> ...     (formats: harness/props/c07.py)
H_BASE = 1000
HTEMPLATES = {}
REV_IDS = {}


def rev_ids():
    if not REV_IDS:
        for i in range(H_BASE):
            REV_IDS[(txid_of(i), i % 4)] = i
    return REV_IDS


def template_h(net, wk, pub):
    """template wallet for histories: receiving keys 0,1 (account 0) and 2,3 (account 1, HD wallets only), change keys
    made in advance; pub = 1: a second wallet made from the account-0 public master key of the first (same addresses,
    no private keys) plus the private keys of its addresses for the priv_keys argument"""
    key = (net, wk, pub)
    if key in HTEMPLATES:
        return HTEMPLATES[key]
    w_, ms, nk, nr, single = wk.split(',')
    name = 'htmpl_%s_%s' % (net, wk.replace(',', '_'))
    path = os.path.join(CWD, name + '.db')
    wt = WT[w_]
    if not (os.path.exists(path) and os.path.exists(path + '.json')):
        if os.path.exists(path):
            os.remove(path)
        uri = 'sqlite:///' + path
        if ms == '1':
            ks = [HDKey.from_seed(bytes([i + 3]) * 32, network=net, witness_type=wt) for i in range(int(nk))]
            keys = [ks[0]] + ks[1:int(nr)] + [k.public_master(multisig=True, witness_type=wt) for k in ks[int(nr):]]
            w = Wallet.create(name, keys=keys, sigs_required=int(nr), cosigner_id=0, network=net, witness_type=wt, db_uri=uri)
        elif single == '1':
            w = Wallet.create(name, keys=Key(b'\x02' * 32, network=net), scheme='single', network=net, witness_type=wt,
                              db_uri=uri)
        else:
            w = Wallet.create(name, keys=HDKey.from_seed(b'\x01' * 32, network=net, witness_type=wt), network=net,
                              witness_type=wt, db_uri=uri)
        info = {'addrs': [w.get_key().address], 'accts': [0], 'wifs': [], 'pubmaster': None}
        if single != '1':
            info['addrs'].append(w.new_key().address)
            info['accts'].append(0)
            w.get_keys(change=1, number_of_keys=8)
            if ms != '1':
                w.new_account()
                for _ in range(2):
                    info['addrs'].append(w.new_key(account_id=1).address)
                    info['accts'].append(1)
                w.get_keys(account_id=1, change=1, number_of_keys=5)
                info['pubmaster'] = w.public_master(account_id=0).wif
                info['wifs'] = [k.wif for k in w.keys(account_id=0, depth=w.key_depth)]
        else:
            info['accts'] = [0]
        info['pubs'] = [] if ms == '1' else [w.key(a).key().public_hex for a in info['addrs']]
        w.session.close()
        json.dump(info, open(path + '.json', 'w'))
    info = json.load(open(path + '.json'))
    res = (name, path, info)
    if pub == '1':
        pname = name + '_pub'
        ppath = os.path.join(CWD, pname + '.db')
        if not os.path.exists(ppath + '.ok'):
            if os.path.exists(ppath):
                os.remove(ppath)
            wp = Wallet.create(pname, keys=info['pubmaster'], network=net, witness_type=wt, db_uri='sqlite:///' + ppath)
            a = [wp.get_key().address, wp.new_key().address]
            assert a == info['addrs'][:2]
            wp.get_keys(change=1, number_of_keys=8)
            wp.session.close()
            open(ppath + '.ok', 'w').write('1')
        res = (pname, ppath, info)
    HTEMPLATES[key] = res
    return res


_SCRIPTS = {}


def script_of(net, address):
    k = (net, address)
    if k not in _SCRIPTS:
        _SCRIPTS[k] = Output(0, address=address, network=net).lock_script.hex()
    return _SCRIPTS[k]


class Hist:
    """one wallet and the adapter's own records about it"""

    def __init__(self, net, wk, pub):
        self.net, self.wk, self.pub = net, wk, pub
        self.name, path, self.info = template_h(net, wk, pub)
        self.cpath = os.path.join(CWD, 'hcase_%d.db' % os.getpid())
        shutil.copyfile(path, self.cpath)
        self.w = Wallet(self.name, db_uri='sqlite:///' + self.cpath)
        self.ids = dict(rev_ids())          # (txid, n) -> id
        self.addr_of = {}                   # id -> address (outputs of own transactions)
        self.next = H_BASE
        self.last = None                    # (tx object, account, base change index)
        self.sent = {}                      # position of the operation -> transaction object it broadcast
        self.gone = set()                   # txids the adapter knows to be deleted / replaced
        self.keyid = {}
        self.accounts = sorted(set(self.info['accts']))
        self._pk = None

    def address(self, key):
        a = self.info['addrs']
        return a[key % len(a)]

    def key_id(self, key):
        if key not in self.keyid:
            self.keyid[key] = self.w.key(self.address(key)).key_id
        return self.keyid[key]

    def priv_keys(self):
        if self._pk is None:
            self._pk = [HDKey.from_wif(x, network=self.net) for x in self.info['wifs']]
        return self._pk

    def reopen(self):
        self.w.session.close()
        self.w = Wallet(self.name, db_uri='sqlite:///' + self.cpath)
        self.last = None

    def snapshot(self):
        r = []
        for a in self.accounts:
            for u in self.w.utxos(account_id=a):
                r.append((self.ids.get((u['txid'], u['output_n']), -1), u['confirmations']))
        return ','.join('%d:%d' % x for x in sorted(r)) or '-'

    def change_scripts(self, acct):
        w = self.w
        if w.scheme == 'single':
            ks = w.keys(network=self.net)
        else:
            ks = w.keys(account_id=acct, change=1, depth=w.key_depth, network=self.net)
        return [script_of(self.net, k.address) for k in ks]

    def own_scripts(self):
        r = []
        for k in self.w.keys(network=self.net, depth=None if self.w.scheme == 'single' else self.w.key_depth):
            try:
                r.append((script_of(self.net, k.address), k.address))
            except Exception:
                pass
        return r

    def labels(self, t, acct, base=None):
        """(list of out tokens, base): change outputs are c<j>, j counted from the first change key of this transaction"""
        ch = self.change_scripts(acct)
        own = dict(self.own_scripts())
        idx = [ch.index(bytes(o.lock_script).hex()) for o in t.outputs if o.change and bytes(o.lock_script).hex() in ch]
        if base is None:
            base = min(idx) if idx else 0
        r = []
        for o in t.outputs:
            sc = bytes(o.lock_script).hex()
            if o.change and getattr(o, '_c07_added', False):
                d = 'c-1'            # the output WalletTransaction.bumpfee added for the value of its extra input
            elif o.change and sc in ch:
                d = 'c%d' % (0 if self.w.scheme == 'single' else ch.index(sc) - base)
            elif o.change and sc in own:
                d = 'c-1'
            else:
                d = 's' + sc
            r.append('%s:%d:%d' % (d, int(o.value), 1 if o.change else 0))
        return r, base

    def record_broadcast(self, t, toks):
        """ids for the wallet's own outputs of a transaction that was pushed; returns the 'new=' token"""
        serial = self.next
        self.next = serial + 2 + len(t.outputs)
        new = []
        for n, (o, tk) in enumerate(zip(t.outputs, toks)):
            d = tk.split(':')[0]
            if d[0] == 'c':
                j = int(d[1:])
                if -1 <= j < len(t.outputs) and (t.txid, n) not in self.ids:
                    i = serial + 2 + j
                    if i in self.addr_of:
                        continue
                    self.ids[(t.txid, n)] = i
                    self.addr_of[i] = o.address
                    new.append('%d:%s:%d:%d' % (i, t.txid, n, int(o.value)))
        return ','.join(new) or '-'

    def listing(self, tok, acct):
        """provider listing / utxos= argument from id:value:conf:key items; outputs that do not exist are left out"""
        r = []
        if tok == '-':
            return r
        rev = {v: k for k, v in self.ids.items() if v >= H_BASE}
        for s in tok.split(';'):
            i, v, c, kk = (int(x) for x in s.split(':'))
            if i >= H_BASE:
                if i not in rev:
                    continue
                txid, n = rev[i]
                addr = self.addr_of[i]
            else:
                txid, n, addr = txid_of(i), i % 4, self.address(kk)
            r.append(dict(address=addr, script='', confirmations=c, output_n=n, txid=txid, value=v))
        return r

    def inputs(self, tok):
        if tok == 'N':
            return None
        if tok == '-':
            return []
        r = []
        for s in tok.split(','):
            i, shape, kk, claim = s.split(':')
            i = int(i)
            rev = {v: k for k, v in self.ids.items() if v >= H_BASE}
            txid, n = rev[i] if i in rev else (txid_of(i), i % 4)
            kid = None if kk == 'N' else (9999 if kk == 'X' else self.key_id(int(kk)))
            val = None if claim == 'N' else int(claim)
            if shape == '2':
                r.append((txid, n))
            elif shape == '3':
                r.append((txid, n, kid))
            elif shape == '4':
                r.append((txid, n, kid, val))
            elif shape == 'a':
                r.append((txid, n, kid, val, None, b'', '' if kk in ('N', 'X') else self.address(int(kk))))
            else:
                r.append(Input(txid, n, value=val or 0, network=self.net,
                               witness_type='legacy' if self.w.witness_type == 'legacy' else 'segwit'))
        return r

    def keys_arg(self, tok):
        if tok == '-':
            return None
        if tok[0] == 'i':
            return self.key_id(int(tok[1:]))
        return [self.key_id(int(x)) for x in tok[1:].split(',')]

    def tx_answer(self, t, acct, with_vsize, base=None):
        toks, base = self.labels(t, acct, base)
        ii = ['%d/%d' % (self.ids.get((i.prev_txid.hex(), i.output_n_int), -1), i.sequence) for i in t.inputs]
        new = self.record_broadcast(t, toks) if t.pushed else '-'
        main = 'OK fee=%d change=%d vsize=%s in=%s out=%s lt=%d pushed=%d' % (
            t.fee, t.change, ('%d' % t.vsize) if with_vsize else '-', ','.join(ii) or '-', ';'.join(toks) or '-',
            t.locktime, 1 if t.pushed else 0)
        try:
            raw = t.raw_hex()
        except Exception:
            raw = 'ERR'
        wch = set()
        for a in self.accounts:
            wch.update(self.change_scripts(a))
        extra = 'raw=%s fpk=%s vsize=%d ver=%d wchange=%s invals=%s new=%s txid=%s inkeys=%s' % (
            raw, t.fee_per_kb, t.vsize or 0, 1 if t.verified else 0, ','.join(sorted(wch)) or '-',
            ','.join(str(int(i.value)) for i in t.inputs) or '-', new, t.txid,
            ','.join(str(self.key_index(i)) for i in t.inputs) or '-')
        return main, extra, base

    def key_index(self, inp):
        """which receiving key of the template the transaction uses to unlock this input (by public key); -1 = another
        key of the wallet (change keys), -2 = cannot tell (multisig: several keys)"""
        if len(inp.keys) != 1:
            return -2
        pubs = self.info.get('pubs') or []
        ph = inp.keys[0].public_hex
        return pubs.index(ph) if ph in pubs else -1


def acct_arg(tok):
    return None if tok == 'N' else int(tok)


def hist_op(h, f, line, pos):
    """one operation; returns (main, extra)"""
    k = f[0]
    net = h.net
    if k in ('c', 's'):
        # c~outs~inputs~fee~minc~maxu~k~keys~acct~lt~rbf~shuf~o1 [~o2~bc~pk~via]
        set_oracle(f[12])
        random.seed(hashlib.sha256((line + str(pos)).encode()).digest())
        acct = acct_arg(f[8])
        try:
            outs = recipients(f[1], net)
            kw = dict(input_key_id=h.keys_arg(f[7]), account_id=acct, fee=fee_arg(f[3]), min_confirms=int(f[4]),
                      locktime=int(f[9]), number_of_change_outputs=int(f[6]), random_output_order=(f[11] == '1'),
                      replace_by_fee=(f[10] == '1'))
            if k == 'c':
                t = h.w.transaction_create(outs, input_arr=h.inputs(f[2]), max_utxos=None if f[5] == 'N' else int(f[5]), **kw)
            else:
                kw['broadcast'] = f[14] == '1'
                if f[15] == '1':
                    kw['priv_keys'] = h.priv_keys()
                if f[16] == 't':
                    t = h.w.send_to(outs[0][0], outs[0][1], **kw)
                else:
                    t = h.w.send(outs, input_arr=h.inputs(f[2]), max_utxos=None if f[5] == 'N' else int(f[5]), **kw)
            main, extra, base = h.tx_answer(t, acct or 0, k == 'c')
            if k == 's':
                h.last = (t, acct or 0, base)
                if t.pushed:
                    h.sent[pos] = t.txid
            return main, extra
        except Exception as e:
            return err_token(e), '-'
    if k == 'w':
        # w~single~targets~fee~fpk~minc~maxu~keys~acct~lt~rbf~o1~o2~bc~pk
        set_oracle(f[11])
        random.seed(hashlib.sha256((line + str(pos)).encode()).digest())
        acct = acct_arg(f[8])
        try:
            targets = recipients(f[2], net)
            to = targets[0][0] if f[1] == '1' else targets
            t = h.w.sweep(to, account_id=acct, input_key_id=h.keys_arg(f[7]), max_utxos=int(f[6]), min_confirms=int(f[5]),
                          fee_per_kb=None if f[4] == 'N' else int(f[4]), fee=fee_arg(f[3]), locktime=int(f[9]),
                          broadcast=(f[13] == '1'), replace_by_fee=(f[10] == '1'))
            main, extra, base = h.tx_answer(t, acct or 0, False)
            h.last = (t, acct or 0, base)
            if t.pushed:
                h.sent[pos] = t.txid
            return main, extra
        except Exception as e:
            return err_token(e), '-'
    if k == 'u':
        # u~via~acct~rescan~listing
        acct = acct_arg(f[2])
        lst = h.listing(f[4], acct)
        try:
            if f[1] == 'p':
                State.listing = lst
                n = h.w.utxos_update(account_id=acct, rescan_all=(f[3] == '1'))
            else:
                n = h.w.utxos_update(account_id=acct, utxos=lst, rescan_all=(f[3] == '1'))
            return 'U %d' % n, '-'
        except Exception as e:
            return err_token(e), '-'
    if k == 'a':
        i, v, c, kk = (int(x) for x in f[1].split(':'))
        lst = h.listing(f[1], None)
        if not lst:
            return 'U 0', '-'
        u = lst[0]
        try:
            n = h.w.utxo_add(u['address'], u['value'], u['txid'], u['output_n'], confirmations=u['confirmations'])
            return 'U %d' % n, '-'
        except Exception as e:
            return err_token(e), '-'
    if k == 'r':
        h.reopen()
        return 'R', '-'
    if k == 'd':
        # d~pos~via: delete the transaction operation number pos broadcast, through Wallet.transaction_delete (via w) or
        # WalletTransaction.delete on a freshly loaded object (via o)
        ent = h.sent.get(int(f[1]))
        if ent is None:
            return 'NOTX', '-'
        txid = ent if isinstance(ent, str) else ent.txid
        try:
            if f[2] == 'o' and txid not in h.gone:
                wt = h.w.transaction(txid)
                if wt is None:
                    return 'NOTX', 'txid=%s' % txid
                wt.delete()
            else:
                h.w.transaction_delete(txid)
        except WalletError as e:
            if 'not found in this wallet' in str(e):
                return 'NOTX', 'txid=%s' % txid
            return err_token(e), '-'
        h.gone.add(txid)
        for key in [x for x in h.ids if x[0] == txid]:
            h.addr_of.pop(h.ids.pop(key), None)
        if h.last is not None and h.last[0].txid == txid:
            h.last = None               # the object at hand describes a transaction that is not stored any more
        return 'D', 'txid=%s' % txid
    if k == 'b':
        # b~farg~earg~bc
        if h.last is None:
            return 'NOLAST', '-'
        t, acct, base = h.last
        toks, _ = h.labels(t, acct, base)
        pre = dict(ins=';'.join('%d:%d:1:0' % (h.ids.get((i.prev_txid.hex(), i.output_n_int), -1), int(i.value))
                                for i in t.inputs) or '-',
                   outs=';'.join(toks) or '-', fee=int(t.fee), vsize=int(t.vsize))
        SIDE.setdefault(line, {})[str(pos)] = pre
        was_pushed = t.pushed
        old_txid = t.txid
        before = set(id(o) for o in t.outputs)
        try:
            t.bumpfee(fee=int(f[1]), extra_fee=int(f[2]), broadcast=(f[3] == '1'))
        except Exception as e:
            h.last = None
            return err_token(e), 'prefee=%d' % pre['fee']
        for o in t.outputs:
            if id(o) not in before:
                o._c07_added = True
        if was_pushed:
            # the wallet has dropped the replaced transaction: its outputs do not exist any more
            h.gone.add(old_txid)
            for key in [x for x in h.ids if x[0] == old_txid]:
                h.addr_of.pop(h.ids.pop(key), None)
        toks, _ = h.labels(t, acct, base)
        pushed_now = f[3] == '1' and t.pushed and not t.error
        pre['sg'] = 1 if t.verified else 0
        new = h.record_broadcast(t, toks) if pushed_now else '-'
        if pushed_now:
            h.sent[pos] = t.txid
        ii = ['%d' % h.ids.get((i.prev_txid.hex(), i.output_n_int), -1) for i in t.inputs]
        main = 'OK fee=%d in=%s out=%s pushed=%d' % (t.fee, ','.join(ii) or '-', ';'.join(toks) or '-', 1 if pushed_now else 0)
        try:
            raw = t.raw_hex()
        except Exception:
            raw = 'ERR'
        wch = set(sc for sc, _ in h.own_scripts())
        extra = 'raw=%s prefee=%d ver=%d wchange=%s invals=%s new=%s txid=%s' % (
            raw, pre['fee'], 1 if t.verified else 0, ','.join(sorted(wch)) or '-',
            ','.join(str(int(i.value)) for i in t.inputs) or '-', new, t.txid)
        if was_pushed and not pushed_now:
            h.last = None
        return main, extra
    return 'BADOP', '-'


def hist(t, line):
    net, wk, pub = t[1], t[2], t[3]
    State.bcount = int(t[4])
    State.accept = True
    h = Hist(net, wk, pub)
    mains, extras = [], []
    try:
        for pos, op in enumerate(t[5:]):
            try:
                m, x = hist_op(h, op.split('~'), line, pos)
            except Exception as e:
                m, x = 'CRASH %s %s' % (type(e).__name__, str(e)[:80].replace('\n', ' ').replace(' @ ', ' ')), '-'
            try:
                snap = h.snapshot()
            except Exception as e:
                snap = 'ERR'
            mains.append(m + ' U=' + snap)
            extras.append(x)
    finally:
        State.accept = False
        State.bcount = 800000
        State.listing = []
        try:
            h.w.session.close()
        except Exception:
            pass
    return ' @ '.join(mains) + ' | ' + ' @ '.join(extras)


def dispatch(t):
    k = t[0]
    line = ' '.join(t)
    if k == 'hist':
        return hist(t, line)
    if k == 'calcfee':
        tx = Transaction(network=t[1])
        tx.vsize = int(t[2])
        tx.fee_per_kb = int(t[3])
        try:
            return str(tx.calculate_fee())
        except Exception as e:
            return 'ERR'
    if k == 'select':
        # select <net> <wk> <view> <amount> <variance|N> <minconf> <maxutxos|N>
        w, ids = open_case(t[1], t[2], t[3])
        try:
            sel = w.select_inputs(int(t[4]), None if t[5] == 'N' else int(t[5]), min_confirms=int(t[6]),
                                  max_utxos=None if t[7] == 'N' else int(t[7]), return_input_obj=False)
            r = [ids.get((u.transaction.txid.hex(), u.output_n), -1) for u in sel]
            return 'OK ' + (','.join(str(x) for x in r) if r else '-')
        except Exception as e:
            return err_token(e)
        finally:
            w.session.close()
    if k in ('create', 'send'):
        # create|send <rep> <net> <wk> <view> <outs> <inputs> <fee> <minconf> <maxutxos> <k> <shuffle> <o1> [<o2>]
        net, wk = t[2], t[3]
        w, ids = open_case(net, wk, t[4])
        set_oracle(t[12])
        random.seed(hashlib.sha256(line.encode()).digest())
        try:
            outs = recipients(t[5], net)
            kw = dict(input_arr=input_arr(t[6]), fee=fee_arg(t[7]), min_confirms=int(t[8]),
                      max_utxos=None if t[9] == 'N' else int(t[9]), number_of_change_outputs=int(t[10]),
                      random_output_order=(t[11] == '1'))
            if k == 'create':
                tx = w.transaction_create(outs, **kw)
            else:
                tx = w.send(outs, broadcast=False, **kw)
            return describe(tx, w, net, ids, with_vsize=(k == 'create'))
        except Exception as e:
            return err_token(e)
        finally:
            w.session.close()
    if k == 'sweep':
        # sweep <rep> <net> <wk> <view> <single> <targets> <fee> <fpk|N> <minconf> <maxutxos> <o1> <o2>
        net, wk = t[2], t[3]
        w, ids = open_case(net, wk, t[4])
        set_oracle(t[11])
        random.seed(hashlib.sha256(line.encode()).digest())
        try:
            targets = recipients(t[6], net)
            to = targets[0][0] if t[5] == '1' else targets
            tx = w.sweep(to, fee=fee_arg(t[7]), fee_per_kb=None if t[8] == 'N' else int(t[8]), min_confirms=int(t[9]),
                         max_utxos=int(t[10]), broadcast=False)
            return describe(tx, w, net, ids, with_vsize=False)
        except Exception as e:
            return err_token(e)
        finally:
            w.session.close()
    if k == 'bump':
        # bump <rep> <net> <wk> <view> <outs> <inputs> <fee> <k> <farg> <earg> <o1>
        net, wk = t[2], t[3]
        w, ids = open_case(net, wk, t[4])
        set_oracle(t[11])
        random.seed(hashlib.sha256(line.encode()).digest())
        try:
            try:
                tx = w.send(recipients(t[5], net), input_arr=input_arr(t[6]), fee=fee_arg(t[7]),
                            number_of_change_outputs=int(t[8]), replace_by_fee=True, random_output_order=False,
                            broadcast=False)
            except Exception as e:
                return 'NOTX ' + err_token(e)
            pre_ins = ';'.join('%d:%d:1:0' % (ids.get((i.prev_txid.hex(), i.output_n_int), -1), int(i.value))
                               for i in tx.inputs) or '-'
            pre = dict(ins=pre_ins, outs=outs_tok(tx, w, net), fee=int(tx.fee), vsize=int(tx.vsize))
            SIDE[line] = pre
            try:
                tx.bumpfee(fee=int(t[9]), extra_fee=int(t[10]))
                ii = ins_ids(tx, ids)
                main = 'OK fee=%d in=%s out=%s' % (tx.fee, ','.join(str(x) for x in ii) if ii else '-', outs_tok(tx, w, net))
            except Exception as e:
                main = err_token(e)
            try:
                raw = tx.raw_hex()
            except Exception:
                raw = 'ERR'
            ch, oth = key_scripts(w, net)
            extra = 'raw=%s prefee=%d postfee=%s postouts=%s wchange=%s invals=%s ver=%d' % (
                raw, pre['fee'], tx.fee, outs_tok(tx, w, net), ','.join(ch + oth) or '-',
                ','.join(str(int(i.value)) for i in tx.inputs) or '-', 1 if tx.verified else 0)
            return main + ' | ' + extra
        finally:
            w.session.close()
    return 'BADREQ'


def safe_dispatch(t):
    try:
        return dispatch(t)
    except Exception as e:
        return 'CRASH %s %s' % (type(e).__name__, str(e)[:80].replace('\n', ' '))


def work(line):
    SIDE.clear()
    r = safe_dispatch(line.strip().split(' '))
    return r, dict(SIDE)


def make_templates(job):
    kind, net, wk = job
    if kind == 'h':
        template_h(net, wk, '0')
        if wk.split(',')[1] == '0' and wk.split(',')[4] == '0':
            template_h(net, wk, '1')
    else:
        template(net, wk)
    return 0


def main():
    lines = [l for l in sys.stdin.read().split('\n') if l.strip()]
    # template wallets are created once (in parallel: one sqlite file each), before the workers fork; every case copies one
    need = []
    for l in lines:
        t = l.split(' ')
        if t[0] == 'hist':
            need.append(('h', t[1], t[2], t[3]))
        elif t[0] in ('create', 'send', 'sweep', 'bump'):
            need.append(('t', t[2], t[3], ''))
        elif t[0] == 'select':
            need.append(('t', t[1], t[2], ''))
    need = sorted(set(need))
    nproc = int(os.environ.get('C07_WORKERS', '0') or 0) or max(1, min(8, (os.cpu_count() or 2) // 2))
    if nproc > 1 and len(need) > 2:
        import multiprocessing as mp
        with mp.get_context('fork').Pool(nproc) as pool:
            # the pub variant is derived from the private template of the same kind: one job per kind
            pool.map(make_templates, sorted(set((a, b, c) for (a, b, c, d) in need)), chunksize=1)
    for (kind, net, wk, pub) in need:
        if kind == 'h':
            template_h(net, wk, '0')
            if pub == '1':
                template_h(net, wk, '1')
        else:
            template(net, wk)
    side = {}
    out = sys.stdout
    if nproc > 1 and len(lines) > 20:
        import multiprocessing as mp
        with mp.get_context('fork').Pool(nproc) as pool:
            for (r, sd) in pool.imap(work, lines, chunksize=4):
                out.write(r + '\n')
                side.update(sd)
    else:
        for l in lines:
            r, sd = work(l)
            out.write(r + '\n')
            side.update(sd)
    out.flush()
    with open(os.path.join(CWD, 'c07_side.json'), 'w') as f:
        json.dump(side, f)


main()
