"""Implementation adapter for C07: answers the request lines of harness/props/c07.py from REAL wallets of the
repository (sqlite files in the cwd = run directory), public API only:
Wallet.create / utxos_update / select_inputs / transaction_create / send / sweep, WalletTransaction.bumpfee,
Transaction.calculate_fee.  No network: bitcoinlib.wallets.Service is replaced by a stub whose estimatefee
answers come from the request; random.randint and numpy.random.dirichlet return the draws named in the request.

Answer format:   <part compared with the model> | <extra facts for the property-level oracle>
"""
import sys, os, logging, hashlib, shutil, json, random
sys.path.insert(0, os.path.dirname(os.path.abspath(__file__)))
from common_impl import serve
logging.disable(logging.CRITICAL)
import numpy as np
import bitcoinlib.wallets as bw
from bitcoinlib.wallets import Wallet, WalletError
from bitcoinlib.transactions import Transaction, TransactionError, Output
from bitcoinlib.keys import HDKey, Key, Address
from bitcoinlib.db import DbTransactionOutput, DbTransaction

CWD = os.getcwd()
SIDE = {}          # request line -> state reported to the harness for building the model request (bump cases)


# ------------------------------------------------------------------ environment stubs
class State:
    fpks = []
    r1 = 0
    r2 = 0
    weights = []


class StubService:
    def __init__(self, *a, **k):
        self.errors = {}
        self.results = {}
        self.complete = True
        self.resultcount = 1

    def estimatefee(self, blocks=3, priority=''):
        if len(State.fpks) > 1:
            return State.fpks.pop(0)
        return State.fpks[0]

    def blockcount(self):
        return 800000

    def sendrawtransaction(self, raw):
        return False


bw.Service = StubService
_real_randint = random.randint


def _randint(a, b):
    if (a, b) in ((2, 5), (1, 3)):
        return a + State.r1 % (b - a + 1)
    if (a, b) == (3, 4):
        return a + State.r2 % (b - a + 1)
    return _real_randint(a, b)


random.randint = _randint


def _dirichlet(alpha, size=None):
    k = len(alpha)
    w = (list(State.weights) + [1] * k)[:k]
    s = sum(w)
    return np.array([[wi / s for wi in w]])


np.random.dirichlet = _dirichlet


def set_oracle(tok):
    a, b, c, d, w = tok.split(',')
    State.fpks = [int(a), int(b)]
    State.r1, State.r2 = int(c), int(d)
    State.weights = [int(x) for x in w.split('/')] if w != '-' else []


# ------------------------------------------------------------------ wallets
WT = {'L': 'legacy', 'S': 'segwit', 'P': 'p2sh-segwit'}
TEMPLATES = {}


def template(net, wk):
    """one template wallet per (network, kind); every case works on a private copy of its sqlite file"""
    key = (net, wk)
    if key in TEMPLATES:
        return TEMPLATES[key]
    w_, ms, nk, nr, single = wk.split(',')
    name = 'tmpl_%s_%s' % (net, wk.replace(',', '_'))
    path = os.path.join(CWD, name + '.db')
    uri = 'sqlite:///' + path
    wt = WT[w_]
    if os.path.exists(path) and os.path.exists(path + '.json'):
        TEMPLATES[key] = (name, path, json.load(open(path + '.json')))
        return TEMPLATES[key]
    if os.path.exists(path):
        os.remove(path)
    if ms == '1':
        ks = [HDKey.from_seed(bytes([i + 3]) * 32, network=net, witness_type=wt) for i in range(int(nk))]
        keys = [ks[0]] + ks[1:int(nr)] + [k.public_master(multisig=True, witness_type=wt) for k in ks[int(nr):]]
        w = Wallet.create(name, keys=keys, sigs_required=int(nr), cosigner_id=0, network=net, witness_type=wt, db_uri=uri)
    elif single == '1':
        w = Wallet.create(name, keys=Key(b'\x02' * 32, network=net), scheme='single', network=net, witness_type=wt,
                          db_uri=uri)
    else:
        w = Wallet.create(name, keys=HDKey.from_seed(b'\x01' * 32, network=net, witness_type=wt), network=net, witness_type=wt, db_uri=uri)
    addrs = [w.get_key().address]
    if single != '1':
        addrs.append(w.new_key().address)
        w.get_keys(change=1, number_of_keys=5)      # change keys c0..c4 exist already (saves derivations per case)
    w.session.close()
    json.dump(addrs, open(path + '.json', 'w'))
    TEMPLATES[key] = (name, path, addrs)
    return TEMPLATES[key]


def txid_of(i):
    return hashlib.sha256(b'c07-%d' % i).hexdigest()


def open_case(net, wk, view_tok):
    name, path, addrs = template(net, wk)
    cpath = os.path.join(CWD, 'case_%d.db' % os.getpid())
    shutil.copyfile(path, cpath)
    w = Wallet(name, db_uri='sqlite:///' + cpath)
    view = []
    if view_tok != '-':
        for s in view_tok.split(';'):
            i, v, c, sp = s.split(':')
            view.append((int(i), int(v), int(c), sp == '1'))
    if view:
        w.utxos_update(utxos=[dict(address=addrs[i % len(addrs)], script='', confirmations=c, output_n=i % 4,
                                   txid=txid_of(i), value=v) for (i, v, c, sp) in view])
        spent = [i for (i, v, c, sp) in view if sp]
        if spent:
            # harness set-up only: rows of outputs that were already spent
            for i in spent:
                tx = w.session.query(DbTransaction).filter_by(wallet_id=w.wallet_id, txid=bytes.fromhex(txid_of(i))).first()
                w.session.query(DbTransactionOutput).filter_by(transaction_id=tx.id, output_n=i % 4).update(
                    {DbTransactionOutput.spent: True})
            w.session.commit()
    ids = {(txid_of(i), i % 4): i for (i, v, c, sp) in view}
    return w, ids


def script_to_address(script, net):
    if len(script) == 25 and script[:3] == b'\x76\xa9\x14':
        return Address(hashed_data=script[3:23], script_type='p2pkh', encoding='base58', network=net).address
    if len(script) == 23 and script[:2] == b'\xa9\x14':
        return Address(hashed_data=script[2:22], script_type='p2sh', encoding='base58', network=net).address
    if len(script) == 22 and script[:2] == b'\x00\x14':
        return Address(hashed_data=script[2:], script_type='p2wpkh', encoding='bech32', network=net).address
    if len(script) == 34 and script[:2] == b'\x00\x20':
        return Address(hashed_data=script[2:], script_type='p2wsh', encoding='bech32', network=net).address
    raise ValueError('script')


def recipients(tok, net):
    out = []
    if tok == '-':
        return out
    for s in tok.split(';'):
        h, a, c = s.split(':')
        addr = script_to_address(bytes.fromhex(h), net)
        if c == '1':
            out.append(Output(int(a), address=addr, change=True, network=net))
        else:
            out.append((addr, int(a)))
    return out


ERRS = [("Input array contains", 'maxutxos'), ("No unspent transaction outputs found", 'noutxos'),
        ("Not enough unspent transaction outputs found", 'notenough'), ("not found in this wallet", 'unknownutxo'),
        ("Total amount of outputs is greater", 'outgtin'), ("Not enough funds to create multiple change", 'multichange'),
        ("Sum of inputs values is not equal", 'conserve'), ("is lower then minimal network fee", 'feelow'),
        ("is higher then maximum network fee", 'feehigh'), ("Cannot sweep wallet, no UTXO", 'sweepnone'),
        ("Amount to send is smaller then dust", 'sweepdust'), ("Total amount of outputs does not match", 'sweepmismatch'),
        ("Output value < 0 not allowed", 'badvalue'), ("Current transaction fee is zero", 'bumpzerofee'),
        ("Fee cannot be less than minimal required fee", 'bumpfeelow'), ("Extra fee cannot be less", 'bumpextralow'),
        ("Not enough unspent outputs to bump", 'bumpnochange'), ("Not enough unspent inputs found", 'bumpnoinput')]


def err_token(e):
    m = str(e)
    if isinstance(e, OverflowError):
        return 'ERR badvalue'
    for pat, tok in ERRS:
        # "Extra fee cannot be less" must not be taken for "Fee cannot be less"
        if pat in m and not (tok == 'bumpfeelow' and m.startswith('Extra')):
            return 'ERR ' + tok
    return 'ERR other:%s:%s' % (type(e).__name__, m[:60].replace(' ', '_'))


def key_scripts(w, net):
    """lock scripts of this wallet's change keys (all keys for a single-key wallet), and of its other keys"""
    ch, oth = [], []
    for k in w.keys(network=net):
        try:
            s = Output(0, address=k.address, network=net).lock_script.hex()
        except Exception:
            continue
        if w.scheme != 'single' and k.depth != w.key_depth:
            continue
        (ch if (k.change == 1 or w.scheme == 'single') else oth).append(s)
    return ch, oth


def outs_tok(t, w, net):
    ch, oth = key_scripts(w, net)
    r = []
    for o in t.outputs:
        s = bytes(o.lock_script).hex()
        if o.change and s in ch and w.scheme != 'single':
            d = 'c%d' % ch.index(s)
        elif o.change and s in ch:
            d = 'c0'
        elif o.change and s in oth:
            d = 'c-1'
        else:
            d = 's' + s
        r.append('%s:%d:%d' % (d, int(o.value), 1 if o.change else 0))
    return ';'.join(r) if r else '-'


def ins_ids(t, ids):
    return [ids.get((i.prev_txid.hex(), i.output_n_int), -1) for i in t.inputs]


def describe(t, w, net, ids, with_vsize=True):
    ii = ins_ids(t, ids)
    main = 'OK fee=%d change=%d vsize=%s in=%s out=%s' % (
        t.fee, t.change, ('%d' % t.vsize) if with_vsize else '-', ','.join(str(x) for x in ii) if ii else '-',
        outs_tok(t, w, net))
    try:
        raw = t.raw_hex()
    except Exception as e:
        raw = 'ERR'
    ch, oth = key_scripts(w, net)
    extra = 'raw=%s fpk=%s vsize=%d ver=%d wchange=%s invals=%s' % (
        raw, t.fee_per_kb, t.vsize or 0, 1 if t.verified else 0, ','.join(ch) or '-',
        ','.join(str(int(i.value)) for i in t.inputs) or '-')
    return main + ' | ' + extra


def fee_arg(tok):
    if tok == 'none':
        return None
    if tok == 'named':
        return 'low'
    return int(tok[1:])


def input_arr(tok):
    if tok == 'N':
        return None
    if tok == '-':
        return []
    return [(txid_of(int(i)), int(i) % 4) for i in tok.split(',')]


def dispatch(t):
    k = t[0]
    line = ' '.join(t)
    if k == 'calcfee':
        tx = Transaction(network=t[1])
        tx.vsize = int(t[2])
        tx.fee_per_kb = int(t[3])
        try:
            return str(tx.calculate_fee())
        except Exception as e:
            return 'ERR'
    if k == 'select':
        # select <net> <wk> <view> <amount> <variance|N> <minconf> <maxutxos|N>
        w, ids = open_case(t[1], t[2], t[3])
        try:
            sel = w.select_inputs(int(t[4]), None if t[5] == 'N' else int(t[5]), min_confirms=int(t[6]),
                                  max_utxos=None if t[7] == 'N' else int(t[7]), return_input_obj=False)
            r = [ids.get((u.transaction.txid.hex(), u.output_n), -1) for u in sel]
            return 'OK ' + (','.join(str(x) for x in r) if r else '-')
        except Exception as e:
            return err_token(e)
        finally:
            w.session.close()
    if k in ('create', 'send'):
        # create|send <rep> <net> <wk> <view> <outs> <inputs> <fee> <minconf> <maxutxos> <k> <shuffle> <o1> [<o2>]
        net, wk = t[2], t[3]
        w, ids = open_case(net, wk, t[4])
        set_oracle(t[12])
        random.seed(hashlib.sha256(line.encode()).digest())
        try:
            outs = recipients(t[5], net)
            kw = dict(input_arr=input_arr(t[6]), fee=fee_arg(t[7]), min_confirms=int(t[8]),
                      max_utxos=None if t[9] == 'N' else int(t[9]), number_of_change_outputs=int(t[10]),
                      random_output_order=(t[11] == '1'))
            if k == 'create':
                tx = w.transaction_create(outs, **kw)
            else:
                tx = w.send(outs, broadcast=False, **kw)
            return describe(tx, w, net, ids, with_vsize=(k == 'create'))
        except Exception as e:
            return err_token(e)
        finally:
            w.session.close()
    if k == 'sweep':
        # sweep <rep> <net> <wk> <view> <single> <targets> <fee> <fpk|N> <minconf> <maxutxos> <o1> <o2>
        net, wk = t[2], t[3]
        w, ids = open_case(net, wk, t[4])
        set_oracle(t[11])
        random.seed(hashlib.sha256(line.encode()).digest())
        try:
            targets = recipients(t[6], net)
            to = targets[0][0] if t[5] == '1' else targets
            tx = w.sweep(to, fee=fee_arg(t[7]), fee_per_kb=None if t[8] == 'N' else int(t[8]), min_confirms=int(t[9]),
                         max_utxos=int(t[10]), broadcast=False)
            return describe(tx, w, net, ids, with_vsize=False)
        except Exception as e:
            return err_token(e)
        finally:
            w.session.close()
    if k == 'bump':
        # bump <rep> <net> <wk> <view> <outs> <inputs> <fee> <k> <farg> <earg> <o1>
        net, wk = t[2], t[3]
        w, ids = open_case(net, wk, t[4])
        set_oracle(t[11])
        random.seed(hashlib.sha256(line.encode()).digest())
        try:
            try:
                tx = w.send(recipients(t[5], net), input_arr=input_arr(t[6]), fee=fee_arg(t[7]),
                            number_of_change_outputs=int(t[8]), replace_by_fee=True, random_output_order=False,
                            broadcast=False)
            except Exception as e:
                return 'NOTX ' + err_token(e)
            pre_ins = ';'.join('%d:%d:1:0' % (ids.get((i.prev_txid.hex(), i.output_n_int), -1), int(i.value))
                               for i in tx.inputs) or '-'
            pre = dict(ins=pre_ins, outs=outs_tok(tx, w, net), fee=int(tx.fee), vsize=int(tx.vsize))
            SIDE[line] = pre
            try:
                tx.bumpfee(fee=int(t[9]), extra_fee=int(t[10]))
                ii = ins_ids(tx, ids)
                main = 'OK fee=%d in=%s out=%s' % (tx.fee, ','.join(str(x) for x in ii) if ii else '-', outs_tok(tx, w, net))
            except Exception as e:
                main = err_token(e)
            try:
                raw = tx.raw_hex()
            except Exception:
                raw = 'ERR'
            ch, oth = key_scripts(w, net)
            extra = 'raw=%s prefee=%d postfee=%s postouts=%s wchange=%s invals=%s ver=%d' % (
                raw, pre['fee'], tx.fee, outs_tok(tx, w, net), ','.join(ch + oth) or '-',
                ','.join(str(int(i.value)) for i in tx.inputs) or '-', 1 if tx.verified else 0)
            return main + ' | ' + extra
        finally:
            w.session.close()
    return 'BADREQ'


def safe_dispatch(t):
    try:
        return dispatch(t)
    except Exception as e:
        return 'CRASH %s %s' % (type(e).__name__, str(e)[:80].replace('\n', ' '))


def work(line):
    SIDE.clear()
    r = safe_dispatch(line.strip().split(' '))
    return r, dict(SIDE)


def main():
    lines = [l for l in sys.stdin.read().split('\n') if l.strip()]
    # template wallets are created once, before the workers fork; every case copies one of them
    for l in lines:
        t = l.split(' ')
        if t[0] in ('create', 'send', 'sweep', 'bump'):
            template(t[2], t[3])
        elif t[0] == 'select':
            template(t[1], t[2])
    nproc = int(os.environ.get('C07_WORKERS', '0') or 0) or max(1, min(8, (os.cpu_count() or 2) // 2))
    side = {}
    out = sys.stdout
    if nproc > 1 and len(lines) > 20:
        import multiprocessing as mp
        with mp.get_context('fork').Pool(nproc) as pool:
            for (r, sd) in pool.imap(work, lines, chunksize=4):
                out.write(r + '\n')
                side.update(sd)
    else:
        for l in lines:
            r, sd = work(l)
            out.write(r + '\n')
            side.update(sd)
    out.flush()
    with open(os.path.join(CWD, 'c07_side.json'), 'w') as f:
        json.dump(side, f)


main()
