"""Implementation adapter for C15 (BIP38): same request lines as ocaml/c15_driver.ml, answered by /repo through
the public entry points: Key(k).encrypt(pw), Key(enc, password=pw, network=nw), HDKey(...) equivalents,
get_key_format, bip38_decrypt, bip38_intermediate_password, bip38_create_new_encrypted_wif, scrypt_hash.
The oracle table after "|" (meant for the model) is ignored here.
'fresh' requests run in a NEW interpreter in which os.urandom is a counting stream installed BEFORE
bitcoinlib is imported."""
import sys, os, logging, hashlib, subprocess, json, threading
sys.path.insert(0, os.path.dirname(os.path.abspath(__file__)))
from common_impl import hx, unhx, serve
logging.disable(logging.CRITICAL)

NWORK = int(os.environ.get('C15_WORKERS', '10'))


def fan_out(lines):
    """scrypt (N=16384, r=8, p=8) costs ~0.5 s per call: split the request lines over worker processes (each with its
    own data directory); line i goes to worker i mod n, so every worker still answers a long sequence of calls of every
    kind in ONE interpreter.  'fresh' requests start their own interpreter anyway."""
    base = os.environ['BCL_DATA_DIR'].rstrip(os.sep)
    n = min(NWORK, max(1, len(lines) // 40))
    chunks = [lines[i::n] for i in range(n)]
    procs = []
    for w, ch in enumerate(chunks):
        env = dict(os.environ, C15_WORKER='1', BCL_DATA_DIR=base + '_w%d' % w + os.sep)
        os.makedirs(env['BCL_DATA_DIR'], exist_ok=True)
        procs.append(subprocess.Popen([sys.executable, os.path.abspath(__file__)], stdin=subprocess.PIPE,
                                      stdout=subprocess.PIPE, env=env, text=True))
    outs = [None] * n

    def run(i):
        o, _ = procs[i].communicate(''.join(chunks[i]))
        outs[i] = o.split('\n')[:len(chunks[i])]
    ths = [threading.Thread(target=run, args=(i,)) for i in range(n)]
    [t.start() for t in ths]
    [t.join() for t in ths]
    res = [None] * len(lines)
    for w in range(n):
        for j, o in enumerate(outs[w]):
            res[w + j * n] = o
    sys.stdout.write('\n'.join('CRASH worker' if r is None else r for r in res) + '\n')


if __name__ == '__main__' and not os.environ.get('C15_WORKER'):
    _lines = sys.stdin.readlines()
    if len(_lines) >= 80 and NWORK > 1:
        fan_out(_lines)
        sys.exit(0)
else:
    _lines = None

FRESH_SCRIPT = r'''
import os, sys, hashlib, json, logging
logging.disable(logging.CRITICAL)
LOG = []
def chunk(i, n):
    out = b''
    j = 0
    while len(out) < n:
        out += hashlib.sha256(b'C15-entropy:%d:%d' % (i, j)).digest()
        j += 1
    return out[:n]
def counting_urandom(n):
    i = len(LOG)
    LOG.append(n)
    return chunk(i, n)
os.urandom = counting_urandom
import bitcoinlib.keys as K
from bitcoinlib.encoding import change_base
import_draws = len(LOG)
IP = 'passphraserDFxboKK9cTkBQMb73vdzgsXB5L6cCMFCzTVoMTpMWYD8SJXv3jcKyHbRWBcza'
def which(value):
    for i in range(64):
        if chunk(i, len(value)) == value:
            return str(i)
    return '?'
uses, drawn, digests = [], [], []
for n, op in enumerate(sys.argv[1].split(',')):
    before = len(LOG)
    try:
        if op == 'I':
            r = K.bip38_intermediate_password('pass')
            used = change_base(r, 58, 256)[8:16]
            uses.append(which(used)); out = r
        elif op == 'Ix':
            r = K.bip38_intermediate_password('pass', owner_salt=('%016x' % (0xa1b2c3d4e5f60000 + n)))
            uses.append('x'); out = r
        elif op == 'N':
            r = K.bip38_create_new_encrypted_wif(IP)
            uses.append(which(r['seed'])); out = r['encrypted_wif'] + r['address']
        elif op == 'Nx':
            r = K.bip38_create_new_encrypted_wif(IP, seed=('%048x' % (0x1000 + n)))
            uses.append('x'); out = r['encrypted_wif'] + r['address']
        else:
            uses.append('BADOP'); out = ''
    except Exception as e:
        uses.append('ERR:' + type(e).__name__); out = ''
    drawn.append(';'.join(str(i) for i in range(before, len(LOG))) or '-')
    digests.append(hashlib.sha256(out.encode()).hexdigest()[:12])
print('%d %s %s %s' % (import_draws, ','.join(uses), ','.join(drawn), ','.join(digests)))
'''

from bitcoinlib.keys import (Key, HDKey, BKeyError, get_key_format, bip38_decrypt, bip38_encrypt,
                             bip38_intermediate_password, bip38_create_new_encrypted_wif)
from bitcoinlib.encoding import EncodingError, scrypt_hash
from Crypto.Cipher import AES


def err(e):
    if isinstance(e, EncodingError):
        return 'ERR enc'
    if isinstance(e, BKeyError):
        return 'ERR key'
    if isinstance(e, AssertionError):
        return 'ERR assert'
    if isinstance(e, ValueError):
        return 'ERR value'
    if isinstance(e, TypeError):
        return 'ERR type'
    return 'ERR other:' + type(e).__name__


def text(h):
    return unhx(h).decode('utf-8')


def pwarg(tok):
    """the passphrase ARGUMENT: 'b:<hex>' = a bytes object, '<hex>' = the str with that UTF-8 encoding"""
    return unhx(tok[2:]) if tok.startswith('b:') else text(tok)


def mk_key(kfmt, k, c, nw):
    k = int(k)
    if kfmt == 'hex':
        return Key('%064x' % k, network=nw, compressed=c)
    if kfmt == 'int':
        return Key(k, network=nw, compressed=c)
    if kfmt == 'bytes':
        return Key(k.to_bytes(32, 'big'), network=nw, compressed=c)
    if kfmt == 'hdkey':
        return HDKey(k.to_bytes(32, 'big'), network=nw, compressed=c, witness_type='legacy')
    if kfmt == 'hdkeydef':      # default witness type (only used to replay the recorded observation)
        return HDKey(k.to_bytes(32, 'big'), network=nw, compressed=c)
    raise RuntimeError('kfmt')


def dispatch(t):
    if '|' in t:
        t = t[:t.index('|')]
    k = t[0]
    if k == 'fmt':
        s = text(t[1])
        try:
            return 'protected' if get_key_format(s)['format'] == 'wif_protected' else 'other'
        except Exception:
            return 'other'
    if k == 'addr':
        try:
            return 'OK ' + Key(int(t[4]), compressed=(t[3] == '1'), network=t[1]).address()
        except Exception as e:
            return err(e)
    if k in ('enc', 'spec_enc'):
        _, kfmt, sec, c, nw, pfx, pwr, pwn = t
        try:
            return 'OK ' + mk_key(kfmt, sec, c == '1', nw).encrypt(pwarg(pwr))
        except Exception as e:
            return err(e)
    if k == 'encfn':            # bip38_encrypt(private_hex, address, password[, flagbyte]) called directly
        _, priv, akind, addr, fl, pwr, pwn = t
        try:
            a = unhx(addr) if akind == 'b' else text(addr)
            if fl == 'def':
                return 'OK ' + bip38_encrypt(priv, a, pwarg(pwr))
            return 'OK ' + bip38_encrypt(priv, a, pwarg(pwr), unhx(fl))
        except Exception as e:
            return err(e)
    if k in ('dec', 'spec_dec'):
        _, cls, s, nw, pfx, pwr, pwn = t
        s = text(s)
        try:
            if get_key_format(s)['format'] != 'wif_protected':
                return 'NOTPROT'
        except Exception:
            return 'NOTPROT'
        try:
            kw = {} if nw == '-' else {'network': nw}
            if cls.startswith(('hd:', 'k:')):
                # every argument of the two import entry points: 'hd:<witness type | def>[:<options>]' / 'k:<options>',
                # options: m multisig=True, u compressed=False, c compressed=True, p is_private=True, s strict=False (Key only)
                f = cls.split(':')
                opts = f[-1] if len(f) > (2 if f[0] == 'hd' else 1) else ''
                if 'm' in opts and f[0] == 'hd':
                    kw['multisig'] = True
                if 'u' in opts:
                    kw['compressed'] = False
                if 'c' in opts:
                    kw['compressed'] = True
                if 'p' in opts:
                    kw['is_private'] = True
                if f[0] == 'hd':
                    if f[1] != 'def':
                        kw['witness_type'] = f[1]
                    key = HDKey(s, password=pwarg(pwr), **kw)
                else:
                    if 's' in opts:
                        kw['strict'] = False
                    key = Key(s, password=pwarg(pwr), **kw)
            elif cls == 'hdkey':
                key = HDKey(s, password=pwarg(pwr), witness_type='legacy', **kw)
            elif cls == 'hdkeydef':
                key = HDKey(s, password=pwarg(pwr), **kw)
            else:
                key = Key(s, password=pwarg(pwr), **kw)
            return 'OK %d %d' % (key.secret, 1 if key.compressed else 0)
        except Exception as e:
            return err(e)
    if k == 'decinfo':
        try:
            priv, ah, comp, d = bip38_decrypt(text(t[1]), pwarg(t[2]))
            o = lambda v: '-' if v is None else str(v)
            return 'OK %s %s %d %s %s %s' % (hx(priv), hx(ah), 1 if comp else 0, o(d.get('lot')), o(d.get('sequence')),
                                             d.get('seed') or '-')
        except Exception as e:
            return err(e)
    if k in ('inter', 'spec_inter'):
        _, pwr, pwn, lot, sq, salt = t
        try:
            return 'OK ' + bip38_intermediate_password(pwarg(pwr), None if lot == '-' else int(lot),
                                                       None if sq == '-' else int(sq), owner_salt=unhx(salt).hex())
        except Exception as e:
            return err(e)
    if k == 'new':
        _, nw, pfx, ip, c, seed = t
        try:
            r = bip38_create_new_encrypted_wif(text(ip), c == '1', seed=unhx(seed).hex(), network=nw)
            return 'OK %s %s %s %s' % (r['encrypted_wif'], r['confirmation_code'], r['public_key'], r['address'])
        except Exception as e:
            return err(e)
    if k == 'oracle_scrypt':
        _, pw, salt, n, r, p, dk = t
        return hx(scrypt_hash(unhx(pw), unhx(salt), int(dk), int(n), int(r), int(p)))
    if k == 'oracle_aes':
        a = AES.new(unhx(t[2]), AES.MODE_ECB)
        return hx(a.encrypt(unhx(t[3])) if t[1] == 'E' else a.decrypt(unhx(t[3])))
    if k in ('fresh', 'fresh_legacy', 'fresh_spec'):
        p = subprocess.run([sys.executable, '-c', FRESH_SCRIPT, t[1]], stdout=subprocess.PIPE, stderr=subprocess.PIPE,
                           text=True, timeout=600, env=dict(os.environ, BCL_DATA_DIR=os.path.join(os.getcwd(), 'data_fresh') + os.sep))
        out = p.stdout.strip().split('\n')[-1] if p.stdout.strip() else ''
        return out if p.returncode == 0 and out else 'CRASH ' + p.stderr.strip().replace('\n', ' ')[-200:]
    return 'BADREQ'


if __name__ == '__main__':
    if _lines is not None:
        sys.stdin = iter(_lines)
    serve(dispatch)
