"""Implementation adapter for C12: same line protocol as ocaml/c12_driver.ml (without the leading flag token),
answers from the public API of bitcoinlib.keys / bitcoinlib.networks."""
import sys, os, logging
sys.path.insert(0, os.path.dirname(os.path.abspath(__file__)))
from common_impl import hx, unhx, serve
logging.disable(logging.CRITICAL)
from bitcoinlib.keys import Key, HDKey, BKeyError, get_key_format
from bitcoinlib.networks import Network, NetworkError, wif_prefix_search, network_by_value
from bitcoinlib.encoding import EncodingError


def tf(s):
    return {'t': True, 'f': False}[s]


def otf(s):
    return None if s == 'n' else tf(s)


def oname(s):
    return None if s == '-' else s


def b01(b):
    return '1' if b else '0'


def key_of_tok(t):
    k, body = t[0], t[2:]
    if k == 'i':
        return int(body)
    if k == 'b':
        return unhx(body)
    if k == 's':
        return unhx(body).decode('latin-1')
    raise ValueError('keytok')


def names(l):
    return '[]' if not l else ','.join(l)


def err_tok(e):
    if isinstance(e, BKeyError):
        m = str(e.msg if hasattr(e, 'msg') else e)
        if 'multiple networks found' in m:
            return 'ERR ambiguous'
        return 'ERR key'
    if isinstance(e, NetworkError):
        return 'ERR network'
    return 'ERR other'


def gkf(key, ip):
    try:
        d = get_key_format(key, ip) if ip is not None else get_key_format(key)
    except BKeyError as e:
        m = str(e.msg if hasattr(e, 'msg') else e)
        if 'Key empty' in m:
            return 'ERR empty'
        if 'Cannot determine if key is private or public' in m:
            return 'ERR ambiguous'
        if 'Unrecognised key format' in m:
            return 'NOKEY'
        return 'ERR key'
    except Exception as e:
        return 'CRASH ' + type(e).__name__
    if d['format'] == 'address':
        return 'NOKEY'
    nets = d['networks']
    return 'OK fmt=%s nets=%s priv=%s scripts=%s wits=%s ms=%s' % (
        d['format'], 'None' if nets is None else names(nets), b01(d['is_private']), names(d['script_types']),
        names(d['witness_types']), '[]' if not d['multisig'] else ','.join(b01(x) for x in d['multisig']))


def ko_s(k):
    kb = k.private_byte if k.is_private else k.public_byte
    return 'priv=%s key=%s comp=%s net=%s fmt=%s' % (b01(k.is_private), hx(kb), b01(k.compressed), k.network.name,
                                                     k.key_format)


def hd_s(h):
    return 'OK %s chain=%s depth=%d fp=%s child=%d wt=%s ms=%s' % (
        ko_s(h), hx(h.chain), h.depth, hx(h.parent_fingerprint), h.child_index, h.witness_type, b01(h.multisig))


def do_import(via, text, args):
    try:
        if via == 'key':
            hint, comp, ip = args
            return 'OK ' + ko_s(Key(text, network=oname(hint), compressed=tf(comp), is_private=otf(ip)))
        if via == 'hdkey':
            hint, wt, ms, comp = args
            return hd_s(HDKey(text, network=oname(hint), witness_type=oname(wt), multisig=tf(ms), compressed=tf(comp)))
        if via == 'fromwif':
            hint, ms, comp = args
            return hd_s(HDKey.from_wif(text, network=oname(hint), multisig=otf(ms), compressed=tf(comp)))
    except Exception as e:
        return err_tok(e)
    return 'BADREQ'


def build(toks):
    """the exporting object from the 12 keymeta tokens (public constructors only)"""
    priv, secret, pubc, pubu, comp, chain, depth, fp, child, net, wt, ms = toks
    priv, comp, ms = tf(priv), tf(comp), tf(ms)
    if priv:
        key = unhx(secret)
    else:
        key = unhx(pubc) if comp else unhx(pubu)
    return HDKey(key=key, chain=unhx(chain), depth=int(depth), parent_fingerprint=unhx(fp), child_index=int(child),
                 is_private=priv, network=net, witness_type=wt, multisig=ms, compressed=comp)


def dispatch(t):
    k = t[0]
    if k == 'gkf':
        return gkf(key_of_tok(t[1]), otf(t[2]))
    if k == 'wps':
        l = wif_prefix_search(unhx(t[1]).hex(), witness_type=oname(t[2]), multisig=otf(t[3]), network=oname(t[4]))
        return '-' if not l else ';'.join('%s/%s/%s/%s/%s/%s' % (m['network'], b01(m['is_private']), m['witness_type'],
                                                                  b01(m['multisig']), m['script_type'], m['prefix_str'])
                                          for m in l)
    if k == 'nbw':
        return names(network_by_value('prefix_wif', unhx(t[1]).hex()))
    if k == 'prefix':
        try:
            return hx(Network(t[1]).wif_prefix(is_private=tf(t[2]), witness_type=t[3], multisig=tf(t[4])))
        except Exception as e:
            return err_tok(e)
    if k == 'key':
        try:
            return 'OK ' + ko_s(Key(key_of_tok(t[1]), network=oname(t[2]), compressed=tf(t[3]), is_private=otf(t[4])))
        except Exception as e:
            return err_tok(e)
    if k == 'hdkey':
        try:
            return hd_s(HDKey(key_of_tok(t[1]), network=oname(t[2]), witness_type=oname(t[3]), multisig=tf(t[4]),
                              compressed=tf(t[5])))
        except Exception as e:
            return err_tok(e)
    if k == 'fromwif':
        return do_import('fromwif', unhx(t[1]).decode('latin-1'), t[2:])
    if k in ('rtwif', 'rtx'):
        off = 1 if k == 'rtwif' else 2
        try:
            if k == 'rtwif' and t[off + 5] == '-':        # exported by a plain Key
                m = t[off:off + 12]
                raw = unhx(m[1]) if tf(m[0]) else (unhx(m[2]) if tf(m[4]) else unhx(m[3]))
                obj = Key(raw, network=m[9], compressed=tf(m[4]), is_private=tf(m[0]))
                w = obj.wif()
            elif k == 'rtwif':
                obj = build(t[off:off + 12])
                w = obj.wif_key()
            elif t[1] == 'prv':
                obj = build(t[off:off + 12])
                w = obj.wif_private()
            elif t[1] == 'pub':
                obj = build(t[off:off + 12])
                w = obj.wif_public()
            else:
                obj = build(t[off:off + 12])
                w = obj.wif()
        except Exception as e:
            return 'EXPORT ' + err_tok(e)
        rest = t[off + 12:]
        return 'X=%s | %s | %s' % (w, gkf(w, None), do_import(rest[0], w, rest[1:]))
    return 'BADREQ'


serve(dispatch)
